//! Engine A-env (C16): every schedule (within a deviation bound) of sender/receiver task polls over
//! the REAL `dfir_rs::util::unsync::mpsc` channel, under a harness-owned single-threaded executor.
//! See DESIGN.md §3 C16.
use std::cell::RefCell;
use std::future::Future;
use std::pin::Pin;
use std::rc::Rc;
use std::sync::Arc;
use std::sync::atomic::{AtomicBool, Ordering};
use std::task::{Context, Poll, Wake, Waker};

use dfir_rs::util::unsync::mpsc;
use futures::{SinkExt, StreamExt};
use vf_explore::{Chooser, Report, Stats, Value, cli, explore, json, par_map, ncpu};

#[derive(Clone, Debug, PartialEq, Eq, Hash)]
enum Ev {
    SendOk(u32),
    SendErr(u32),
    Recv(u32),
    RecvNone,
    Closed,
    Dropped,
    SenderGone(usize),
    /// a pending `send` future was dropped before completing
    Cancelled(u32),
}

#[derive(Clone, Copy, Debug, PartialEq, Eq, Hash)]
enum Shape {
    /// `send(a).await`
    One,
    /// `send(a).await; send(b).await`
    Two,
    /// `join(send(a), send(b)).await` — two outstanding sends polled by one task (as in the
    /// crate's own `test_send_multiple_outstanding`)
    Joined,
    /// `SinkExt::send(a).await; SinkExt::send(b).await` through the `Sink` impl
    SinkTwo,
    /// poll `send(a)` once and drop it if still pending (select!/timeout-style cancellation),
    /// then `send(b).await`
    CancelThenOne,
    /// `send(a).await`, yield once, only then drop the sender handle (the receiver may have
    /// parked in between and must be woken by the drop to observe the end of the stream)
    OneYieldDrop,
}

#[derive(Clone, Copy, Debug, PartialEq, Eq, Hash)]
enum RecvMode {
    /// `recv()` until `None`
    UntilNone,
    /// receive n items, `close()`, then drain until `None`
    CloseAfter(usize),
    /// receive n items, then drop the receiver
    DropAfter(usize),
    /// `StreamExt::next()` until `None` through the `Stream` impl
    StreamUntilNone,
}

#[derive(Clone, Debug, PartialEq, Eq, Hash)]
struct Config {
    cap: Option<usize>,
    senders: Vec<Shape>,
    recv: RecvMode,
}

struct Flag(AtomicBool);
impl Wake for Flag {
    fn wake(self: Arc<Self>) {
        self.0.store(true, Ordering::SeqCst)
    }
    fn wake_by_ref(self: &Arc<Self>) {
        self.0.store(true, Ordering::SeqCst)
    }
}

type Log = Rc<RefCell<Vec<Ev>>>;
type Task = Pin<Box<dyn Future<Output = ()>>>;

fn sender_task(id: usize, shape: Shape, tx: mpsc::Sender<u32>, log: Log) -> Task {
    let a = (id * 10) as u32;
    let b = a + 1;
    let rec = move |log: &Log, r: Result<(), u32>, x: u32| match r {
        Ok(()) => log.borrow_mut().push(Ev::SendOk(x)),
        Err(y) => {
            assert_eq!(x, y, "SendError returned a different item");
            log.borrow_mut().push(Ev::SendErr(x))
        }
    };
    Box::pin(async move {
        match shape {
            Shape::One => {
                let r = tx.send(a).await.map_err(|e| e.0);
                rec(&log, r, a);
            }
            Shape::Two => {
                let r = tx.send(a).await.map_err(|e| e.0);
                rec(&log, r, a);
                let r = tx.send(b).await.map_err(|e| e.0);
                rec(&log, r, b);
            }
            Shape::Joined => {
                let fa = async {
                    let r = tx.send(a).await.map_err(|e| e.0);
                    rec(&log, r, a);
                };
                let fb = async {
                    let r = tx.send(b).await.map_err(|e| e.0);
                    rec(&log, r, b);
                };
                futures::future::join(fa, fb).await;
            }
            Shape::OneYieldDrop => {
                let r = tx.send(a).await.map_err(|e| e.0);
                rec(&log, r, a);
                let mut yielded = false;
                std::future::poll_fn(|cx| {
                    if yielded {
                        Poll::Ready(())
                    } else {
                        yielded = true;
                        cx.waker().wake_by_ref();
                        Poll::Pending
                    }
                })
                .await;
            }
            Shape::CancelThenOne => {
                let mut f = Box::pin(tx.send(a));
                match futures::poll!(f.as_mut()) {
                    Poll::Ready(r) => rec(&log, r.map_err(|e| e.0), a),
                    Poll::Pending => {
                        drop(f);
                        log.borrow_mut().push(Ev::Cancelled(a));
                    }
                }
                let r = tx.send(b).await.map_err(|e| e.0);
                rec(&log, r, b);
            }
            Shape::SinkTwo => {
                let mut tx = tx;
                for x in [a, b] {
                    let r = SinkExt::send(&mut tx, x).await;
                    match r {
                        Ok(()) => log.borrow_mut().push(Ev::SendOk(x)),
                        Err(_) => log.borrow_mut().push(Ev::SendErr(x)),
                    }
                }
                log.borrow_mut().push(Ev::SenderGone(id));
                return;
            }
        }
        drop(tx);
        log.borrow_mut().push(Ev::SenderGone(id));
    })
}

fn receiver_task(mode: RecvMode, mut rx: mpsc::Receiver<u32>, log: Log) -> Task {
    Box::pin(async move {
        match mode {
            RecvMode::UntilNone => {
                while let Some(x) = rx.recv().await {
                    log.borrow_mut().push(Ev::Recv(x));
                }
                log.borrow_mut().push(Ev::RecvNone);
            }
            RecvMode::StreamUntilNone => {
                while let Some(x) = rx.next().await {
                    log.borrow_mut().push(Ev::Recv(x));
                }
                log.borrow_mut().push(Ev::RecvNone);
            }
            RecvMode::CloseAfter(n) => {
                for _ in 0..n {
                    match rx.recv().await {
                        Some(x) => log.borrow_mut().push(Ev::Recv(x)),
                        None => {
                            log.borrow_mut().push(Ev::RecvNone);
                            return;
                        }
                    }
                }
                rx.close();
                log.borrow_mut().push(Ev::Closed);
                while let Some(x) = rx.recv().await {
                    log.borrow_mut().push(Ev::Recv(x));
                }
                log.borrow_mut().push(Ev::RecvNone);
            }
            RecvMode::DropAfter(n) => {
                for _ in 0..n {
                    match rx.recv().await {
                        Some(x) => log.borrow_mut().push(Ev::Recv(x)),
                        None => {
                            log.borrow_mut().push(Ev::RecvNone);
                            return;
                        }
                    }
                }
                drop(rx);
                log.borrow_mut().push(Ev::Dropped);
            }
        }
    })
}

struct Outcome {
    log: Vec<Ev>,
    /// (task, was_spurious) in poll order
    schedule: Vec<(usize, bool)>,
    unfinished: Vec<usize>,
    panicked: Option<String>,
}

/// One execution of the real channel under the schedule chosen by `ch`.
/// Task 0 is the receiver; tasks 1.. are the senders.
fn run_once(cfg: &Config, ch: &mut Chooser) -> Outcome {
    let log: Log = Rc::new(RefCell::new(vec![]));
    let (tx, rx) = match cfg.cap {
        Some(c) => mpsc::bounded::<u32>(c),
        None => mpsc::unbounded::<u32>(),
    };
    let mut tasks: Vec<Option<Task>> = vec![Some(receiver_task(cfg.recv, rx, log.clone()))];
    for (i, sh) in cfg.senders.iter().enumerate() {
        tasks.push(Some(sender_task(i + 1, *sh, tx.clone(), log.clone())));
    }
    drop(tx);
    let flags: Vec<Arc<Flag>> = (0..tasks.len()).map(|_| Arc::new(Flag(AtomicBool::new(true)))).collect();
    let wakers: Vec<Waker> = flags.iter().map(|f| Waker::from(f.clone())).collect();
    let mut schedule = vec![];
    let mut panicked = None;
    for _step in 0..400 {
        let woken: Vec<usize> =
            (0..tasks.len()).filter(|&i| tasks[i].is_some() && flags[i].0.load(Ordering::SeqCst)).collect();
        if woken.is_empty() {
            break; // quiescent
        }
        let idle: Vec<usize> =
            (0..tasks.len()).filter(|&i| tasks[i].is_some() && !flags[i].0.load(Ordering::SeqCst)).collect();
        // choice 0 = first woken task (boring); other woken tasks and spurious polls are deviations
        let c = ch.choose(woken.len() + idle.len());
        let (t, spurious) = if c < woken.len() { (woken[c], false) } else { (idle[c - woken.len()], true) };
        schedule.push((t, spurious));
        flags[t].0.store(false, Ordering::SeqCst);
        let mut cx = Context::from_waker(&wakers[t]);
        let fut = tasks[t].as_mut().unwrap();
        match vf_explore::catch(|| fut.as_mut().poll(&mut cx)) {
            Ok(Poll::Ready(())) => tasks[t] = None,
            Ok(Poll::Pending) => {}
            Err(p) => {
                panicked = Some(p);
                break;
            }
        }
    }
    let unfinished = (0..tasks.len()).filter(|&i| tasks[i].is_some()).collect();
    let log = log.borrow().clone();
    Outcome { log, schedule, unfinished, panicked }
}

/// Oracle. Returns a list of (kind, description).
fn judge(cfg: &Config, o: &Outcome) -> Vec<(&'static str, String)> {
    let mut bad = vec![];
    if let Some(p) = &o.panicked {
        bad.push(("panic", format!("channel code panicked: {p}")));
        return bad;
    }
    let still_woken_cap = o.schedule.len() >= 400;
    if still_woken_cap {
        bad.push(("livelock", "no quiescence within 400 polls".to_string()));
    }
    // Quiescence: no task is woken. Every receiver mode runs to completion, so any unfinished
    // task now waits forever: a stranded sender (capacity is free: the receiver is parked on an
    // empty buffer or gone) or a stranded receiver.
    if !o.unfinished.is_empty() && !still_woken_cap {
        let who: Vec<String> =
            o.unfinished.iter().map(|&t| if t == 0 { "receiver".into() } else { format!("sender{t}") }).collect();
        bad.push(("stranded", format!("quiescent with unfinished tasks {who:?}: no task is woken, nobody will ever be polled again")));
    }
    let ok_sent: Vec<u32> = o.log.iter().filter_map(|e| if let Ev::SendOk(x) = e { Some(*x) } else { None }).collect();
    let err_sent: Vec<u32> = o.log.iter().filter_map(|e| if let Ev::SendErr(x) = e { Some(*x) } else { None }).collect();
    let recvd: Vec<u32> = o.log.iter().filter_map(|e| if let Ev::Recv(x) = e { Some(*x) } else { None }).collect();
    // FIFO: received sequence is a prefix of the order in which sends completed successfully.
    if recvd.len() > ok_sent.len() || recvd[..] != ok_sent[..recvd.len()] {
        // (an item can only be received after its send completed, so comparing against the final
        // completion order is exact)
        bad.push(("fifo", format!("received {recvd:?} is not a prefix of successful-send order {ok_sent:?}")));
    }
    for e in &o.log {
        if let Ev::Cancelled(x) = e {
            if recvd.contains(x) || ok_sent.contains(x) {
                bad.push(("cancelled-delivered", format!("send({x}) was dropped while pending but the item was delivered")));
            }
        }
    }
    for x in &err_sent {
        if recvd.contains(x) {
            bad.push(("err-delivered", format!("item {x} was reported as SendError but delivered")));
        }
    }
    // a send may fail only after the receiver closed or was dropped
    for (i, e) in o.log.iter().enumerate() {
        if let Ev::SendErr(x) = e {
            if !o.log[..i].iter().any(|p| matches!(p, Ev::Closed | Ev::Dropped)) {
                bad.push(("spurious-err", format!("send({x}) failed although the receiver was neither closed nor dropped")));
            }
        }
        if let Ev::SendOk(x) = e {
            if o.log[..i].iter().any(|p| matches!(p, Ev::Closed | Ev::Dropped)) {
                bad.push(("send-after-close", format!("send({x}) succeeded after the receiver closed/dropped")));
            }
        }
    }
    // `None` only when every sender is gone (or the receiver closed) and the buffer is empty:
    // everything successfully sent must have been received by then.
    if let Some(pos) = o.log.iter().position(|e| *e == Ev::RecvNone) {
        let sent_before: Vec<u32> =
            o.log[..pos].iter().filter_map(|e| if let Ev::SendOk(x) = e { Some(*x) } else { None }).collect();
        if sent_before != recvd {
            bad.push(("lost", format!("recv returned None after receiving {recvd:?} but {sent_before:?} had been sent successfully")));
        }
        if o.log[pos..].iter().any(|e| matches!(e, Ev::SendOk(_))) {
            bad.push(("none-too-early", "recv returned None, yet a later send succeeded".to_string()));
        }
        let closed = o.log[..pos].iter().any(|e| *e == Ev::Closed);
        let gone = o.log[..pos].iter().filter(|e| matches!(e, Ev::SenderGone(_))).count();
        if !closed && gone != cfg.senders.len() {
            bad.push(("none-too-early", format!("recv returned None while only {gone}/{} senders were gone", cfg.senders.len())));
        }
    }
    bad
}

fn configs(thorough: bool) -> Vec<Config> {
    let shapes_small = [Shape::One, Shape::Two, Shape::Joined, Shape::SinkTwo, Shape::CancelThenOne, Shape::OneYieldDrop];
    let mut sender_sets: Vec<Vec<Shape>> = vec![];
    for a in shapes_small {
        sender_sets.push(vec![a]);
    }
    for a in shapes_small {
        for b in shapes_small {
            sender_sets.push(vec![a, b]);
        }
    }
    let three: &[Shape] = if thorough { &shapes_small } else { &[Shape::One, Shape::Joined, Shape::CancelThenOne] };
    for &a in three {
        for &b in three {
            for &c in three {
                sender_sets.push(vec![a, b, c]);
            }
        }
    }
    let mut out = vec![];
    for cap in [Some(1), Some(2), None] {
        for s in &sender_sets {
            let modes: Vec<RecvMode> = if thorough {
                vec![RecvMode::UntilNone, RecvMode::StreamUntilNone, RecvMode::CloseAfter(0), RecvMode::CloseAfter(1),
                     RecvMode::CloseAfter(2), RecvMode::DropAfter(0), RecvMode::DropAfter(1), RecvMode::DropAfter(2)]
            } else {
                vec![RecvMode::UntilNone, RecvMode::StreamUntilNone, RecvMode::CloseAfter(0), RecvMode::CloseAfter(1), RecvMode::DropAfter(0), RecvMode::DropAfter(1)]
            };
            for m in modes {
                out.push(Config { cap, senders: s.clone(), recv: m });
            }
        }
    }
    out
}

fn cfg_json(c: &Config) -> Value {
    json!({"cap": c.cap, "senders": c.senders.iter().map(|s| format!("{s:?}")).collect::<Vec<_>>(), "recv": format!("{:?}", c.recv)})
}

fn check_config(cfg: &Config, bound: Option<usize>, cap: u64) -> Stats {
    let mut st = Stats::new();
    let mut first: Option<(Vec<usize>, Vec<(&'static str, String)>, Outcome)> = None;
    let es = explore(bound, cap, |ch| {
        let o = run_once(cfg, ch);
        st.eval();
        st.trace();
        st.outcome(&(cfg, &o.log));
        if o.schedule.iter().any(|s| s.1) || ch.deviations() > 0 {
            st.nontrivial(&(cfg, ch.choices()));
        }
        let bad = judge(cfg, &o);
        if !bad.is_empty() && first.is_none() {
            first = Some((ch.choices(), bad, o));
        }
    });
    if es.capped {
        st.cap(format!("config {:?}: execution cap {} reached", cfg, cap));
    }
    st.sample(|| json!({"config": cfg_json(cfg), "executions": es.executions, "max_choice_points": es.max_points}));
    if let Some((choices, bad, o)) = first {
        // re-execute the failing schedule before reporting (determinism guard)
        let mut ch = Chooser::replay(choices.clone());
        let o2 = run_once(cfg, &mut ch);
        if o2.log != o.log || o2.schedule != o.schedule {
            println!("MACHINERY-ERROR: failing schedule did not reproduce for {cfg:?}");
            std::process::exit(2);
        }
        let kind = bad[0].0;
        st.violation(
            format!("{kind}:{}", cfg_json(cfg)),
            format!("{} | schedule (task,spurious)={:?} | log={:?}", bad.iter().map(|b| b.1.clone()).collect::<Vec<_>>().join("; "), o.schedule, o.log),
            json!({"config": cfg_json(cfg), "choices": choices, "cfg_index_hint": "see config"}),
        );
    }
    st
}

fn parse_cfg(v: &Value) -> Config {
    let cap = v["cap"].as_u64().map(|x| x as usize);
    let senders = v["senders"].as_array().unwrap().iter().map(|s| match s.as_str().unwrap() {
        "One" => Shape::One, "Two" => Shape::Two, "Joined" => Shape::Joined, "SinkTwo" => Shape::SinkTwo, "CancelThenOne" => Shape::CancelThenOne, "OneYieldDrop" => Shape::OneYieldDrop, o => panic!("{o}"),
    }).collect();
    let r = v["recv"].as_str().unwrap();
    let num = |s: &str| s.trim_end_matches(')').split('(').nth(1).unwrap().parse::<usize>().unwrap();
    let recv = if r == "UntilNone" { RecvMode::UntilNone } else if r == "StreamUntilNone" { RecvMode::StreamUntilNone }
        else if r.starts_with("CloseAfter") { RecvMode::CloseAfter(num(r)) } else { RecvMode::DropAfter(num(r)) };
    Config { cap, senders, recv }
}

fn main() {
    let cli = cli();
    assert_eq!(cli.property, "C16");
    if cli.replay.is_none() {
        vf_explore::quiet_panics();
    }
    if let Some(rp) = &cli.replay {
        let v: Value = vf_explore::serde_json::from_str(&std::fs::read_to_string(rp).unwrap()).unwrap();
        let cfg = parse_cfg(&v["case"]["config"]);
        let choices: Vec<usize> = v["case"]["choices"].as_array().unwrap().iter().map(|x| x.as_u64().unwrap() as usize).collect();
        let mut ch = Chooser::replay(choices);
        let o = run_once(&cfg, &mut ch);
        let bad = judge(&cfg, &o);
        println!("config={cfg:?}\nschedule={:?}\nlog={:?}\nunfinished={:?}\nverdict={:?}", o.schedule, o.log, o.unfinished, bad);
        std::process::exit(if bad.is_empty() { 0 } else { 1 });
    }
    let mut rep = Report::new("C16", &cli.tier, "vf_chan");
    let thorough = rep.thorough();
    let bound = if thorough { 4 } else { 3 };
    let cap: u64 = if thorough { 3_000_000 } else { 200_000 };
    rep.rule = "for each configuration (capacity 1/2/unbounded x 1-3 sender tasks of shapes send / send;send / join(send,send) / Sink / cancelled-send x receiver modes) every schedule of task polls with at most `bound` deviations from 'poll the first woken task' (a deviation = poll another woken task, or spuriously re-poll a task that was not woken); non-trivial = schedule with >= 1 deviation; distinct by (config, choice vector)".into();
    rep.explanation = "real dfir_rs::util::unsync::mpsc under a harness-owned executor; oracle per execution: receive order == successful-send completion order (FIFO, exactly once), SendError only after close/drop and never delivered, None only when all senders are gone and everything sent was received, and at quiescence no task is left unfinished (no stranded sender/receiver)".into();
    rep.assume("every receiver mode runs to completion (it keeps receiving until None, or closes/drops), as the statement's liveness clause presupposes");
    rep.bound("deviation_bound", bound);
    rep.bound("execution_cap_per_config", cap);
    let cfgs = configs(thorough);
    rep.bound("configurations", cfgs.len());
    let st = par_map(cfgs.len(), ncpu(), |i| check_config(&cfgs[i], Some(bound), cap));
    rep.section("schedules", st);
    // small configurations: plain exhaustive DFS (no deviation bound)
    let small: Vec<Config> = cfgs.iter().filter(|c| c.senders.len() == 1 || (thorough && c.senders.len() == 2 && c.senders.iter().all(|s| *s == Shape::One))).cloned().collect();
    let st = par_map(small.len(), ncpu(), |i| check_config(&small[i], if thorough { Some(7) } else { Some(5) }, cap));
    rep.section("single_sender_deep", st);
    rep.finish();
}
