//! Exhaustive enumeration helpers (DESIGN §1.2, explorer 3).

/// All sequences of length exactly `len` over `alphabet`.
pub fn sequences<T: Clone>(alphabet: &[T], len: usize) -> Vec<Vec<T>> {
    let mut out = vec![vec![]];
    for _ in 0..len {
        let mut next = Vec::with_capacity(out.len() * alphabet.len());
        for s in &out {
            for a in alphabet {
                let mut t = s.clone();
                t.push(a.clone());
                next.push(t);
            }
        }
        out = next;
    }
    out
}

/// All sequences of length 0..=max_len over `alphabet`, shortest first.
pub fn sequences_upto<T: Clone>(alphabet: &[T], max_len: usize) -> Vec<Vec<T>> {
    (0..=max_len).flat_map(|l| sequences(alphabet, l)).collect()
}

/// All subsets of `items` (as vectors, preserving order).
pub fn subsets<T: Clone>(items: &[T]) -> Vec<Vec<T>> {
    let n = items.len();
    assert!(n < 24);
    (0..(1usize << n))
        .map(|m| (0..n).filter(|i| m >> i & 1 == 1).map(|i| items[i].clone()).collect())
        .collect()
}

/// All permutations of `items`.
pub fn permutations<T: Clone>(items: &[T]) -> Vec<Vec<T>> {
    if items.len() <= 1 {
        return vec![items.to_vec()];
    }
    let mut out = vec![];
    for i in 0..items.len() {
        let mut rest = items.to_vec();
        let x = rest.remove(i);
        for mut p in permutations(&rest) {
            p.insert(0, x.clone());
            out.push(p);
        }
    }
    out
}

/// All ways to cut `seq` into consecutive, possibly empty-free chunks (compositions): 2^(n-1).
pub fn cuts<T: Clone>(seq: &[T]) -> Vec<Vec<Vec<T>>> {
    let n = seq.len();
    if n == 0 {
        return vec![vec![]];
    }
    let mut out = vec![];
    for m in 0..(1usize << (n - 1)) {
        let mut chunks = vec![];
        let mut cur = vec![seq[0].clone()];
        for i in 1..n {
            if m >> (i - 1) & 1 == 1 {
                chunks.push(std::mem::take(&mut cur));
            }
            cur.push(seq[i].clone());
        }
        chunks.push(cur);
        out.push(chunks);
    }
    out
}

/// All interleavings of two sequences, tagging items with their origin (0/1).
pub fn interleavings<T: Clone>(a: &[T], b: &[T]) -> Vec<Vec<(usize, T)>> {
    fn go<T: Clone>(a: &[T], b: &[T], cur: &mut Vec<(usize, T)>, out: &mut Vec<Vec<(usize, T)>>) {
        if a.is_empty() && b.is_empty() {
            out.push(cur.clone());
            return;
        }
        if let Some((x, rest)) = a.split_first() {
            cur.push((0, x.clone()));
            go(rest, b, cur, out);
            cur.pop();
        }
        if let Some((x, rest)) = b.split_first() {
            cur.push((1, x.clone()));
            go(a, rest, cur, out);
            cur.pop();
        }
    }
    let mut out = vec![];
    go(a, b, &mut vec![], &mut out);
    out
}

/// All k-subsets of 0..n as index vectors.
pub fn k_subsets(n: usize, k: usize) -> Vec<Vec<usize>> {
    fn go(start: usize, n: usize, k: usize, cur: &mut Vec<usize>, out: &mut Vec<Vec<usize>>) {
        if cur.len() == k {
            out.push(cur.clone());
            return;
        }
        for i in start..n {
            cur.push(i);
            go(i + 1, n, k, cur, out);
            cur.pop();
        }
    }
    let mut out = vec![];
    go(0, n, k, &mut vec![], &mut out);
    out
}

/// All subsets of 0..n with at most k elements.
pub fn subsets_upto(n: usize, k: usize) -> Vec<Vec<usize>> {
    (0..=k.min(n)).flat_map(|j| k_subsets(n, j)).collect()
}
