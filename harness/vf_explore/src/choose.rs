//! Deviation-bounded stateless exploration (DESIGN §1.2, explorer 2).
//!
//! The subject closure asks a `Chooser` at every choice point. Choice 0 is the default ("boring")
//! answer. `explore` first runs with all defaults, then re-runs with every prefix that takes one
//! more non-default answer, up to `bound` costly deviations (`None` = plain exhaustive DFS).
//! Free choice points (`choose_free`) never count against the bound: they enumerate inputs.

#[derive(Clone, Copy, Debug, PartialEq, Eq, Hash)]
pub struct Point {
    pub choice: usize,
    pub n: usize,
    pub costly: bool,
}

pub struct Chooser {
    prefix: Vec<usize>,
    pub trace: Vec<Point>,
}

impl Chooser {
    pub fn replay(prefix: Vec<usize>) -> Self {
        Chooser { prefix, trace: vec![] }
    }
    fn pick(&mut self, n: usize, costly: bool) -> usize {
        assert!(n > 0, "choice point with no alternatives");
        let pos = self.trace.len();
        let c = if pos < self.prefix.len() {
            let c = self.prefix[pos];
            if c >= n {
                // Non-determinism guard: the same prefix must see the same branching factors.
                eprintln!("MACHINERY-ERROR: replayed choice {c} out of range {n} at point {pos}");
                std::process::exit(2);
            }
            c
        } else {
            0
        };
        self.trace.push(Point { choice: c, n, costly });
        c
    }
    /// A deviation point: non-zero answers count against the deviation bound.
    pub fn choose(&mut self, n: usize) -> usize {
        self.pick(n, true)
    }
    /// An input-enumeration point: all answers are free.
    pub fn choose_free(&mut self, n: usize) -> usize {
        self.pick(n, false)
    }
    pub fn flag(&mut self) -> bool {
        self.choose(2) == 1
    }
    pub fn choices(&self) -> Vec<usize> {
        self.trace.iter().map(|p| p.choice).collect()
    }
    pub fn deviations(&self) -> usize {
        self.trace.iter().filter(|p| p.costly && p.choice != 0).count()
    }
}

#[derive(Default, Debug, Clone)]
pub struct ExploreStats {
    pub executions: u64,
    pub max_points: usize,
    pub max_deviations: usize,
    pub capped: bool,
}

/// Explore every execution of `run` with at most `bound` costly deviations.
/// `cap` bounds the number of executions (a hit is reported via `capped`, never silently).
pub fn explore<F: FnMut(&mut Chooser)>(bound: Option<usize>, cap: u64, mut run: F) -> ExploreStats {
    let mut st = ExploreStats::default();
    let mut stack: Vec<Vec<usize>> = vec![vec![]];
    while let Some(prefix) = stack.pop() {
        if st.executions >= cap {
            st.capped = true;
            break;
        }
        let plen = prefix.len();
        let mut ch = Chooser::replay(prefix);
        run(&mut ch);
        st.executions += 1;
        st.max_points = st.max_points.max(ch.trace.len());
        st.max_deviations = st.max_deviations.max(ch.deviations());
        if ch.trace.len() < plen {
            eprintln!("MACHINERY-ERROR: execution consumed fewer choice points than its prefix");
            std::process::exit(2);
        }
        let mut cost = ch.trace[..plen].iter().filter(|p| p.costly && p.choice != 0).count();
        // Push in reverse so the simplest alternatives are explored first.
        let mut next: Vec<Vec<usize>> = vec![];
        for i in plen..ch.trace.len() {
            let p = ch.trace[i];
            debug_assert_eq!(p.choice, 0);
            let allowed = !p.costly || bound.is_none_or(|b| cost + 1 <= b);
            if allowed {
                for alt in 1..p.n {
                    let mut np: Vec<usize> = ch.trace[..i].iter().map(|q| q.choice).collect();
                    np.push(alt);
                    next.push(np);
                }
            }
            if p.costly && p.choice != 0 {
                cost += 1;
            }
        }
        next.reverse();
        stack.extend(next);
    }
    st
}

#[cfg(test)]
mod tests {
    use super::*;
    #[test]
    fn exhaustive_counts() {
        // three binary points -> 8 executions
        let st = explore(None, u64::MAX, |c| {
            c.choose(2);
            c.choose(2);
            c.choose(2);
        });
        assert_eq!(st.executions, 8);
        // bound 1 -> 1 + 3
        let st = explore(Some(1), u64::MAX, |c| {
            c.choose(2);
            c.choose(2);
            c.choose(2);
        });
        assert_eq!(st.executions, 4);
        // free points do not count
        let st = explore(Some(0), u64::MAX, |c| {
            c.choose_free(3);
            c.choose(2);
        });
        assert_eq!(st.executions, 3);
    }
    #[test]
    fn dependent_points() {
        let mut seen = std::collections::BTreeSet::new();
        explore(None, u64::MAX, |c| {
            let a = c.choose(2);
            let b = if a == 1 { c.choose(3) } else { 0 };
            seen.insert((a, b));
        });
        assert_eq!(seen.len(), 4);
    }
}
