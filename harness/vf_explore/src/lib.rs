//! Shared explorer cores, evidence writer and known-findings handling for every engine under
//! /verif/harness. See /verif/DESIGN.md §1.2–1.3.
//!
//! Exit-code contract of `Report::finish`:
//!   0  property held on everything explored (known findings are printed, not counted)
//!   1  at least one violation not listed in known_findings.json (`VIOLATION property=.. replay=..`)
//!   2  machinery error (vacuous run, non-reproducing failure, cap misuse) — never a verdict
use std::collections::{BTreeMap, BTreeSet};
use std::hash::{Hash, Hasher};
use std::path::PathBuf;
use std::time::Instant;

pub use serde_json::{self, Value, json};

pub mod choose;
pub mod combi;
pub use choose::{Chooser, ExploreStats, explore};

pub fn verif_dir() -> PathBuf {
    PathBuf::from(std::env::var("VERIF_DIR").unwrap_or_else(|_| "/verif".to_string()))
}

pub fn seed() -> u64 {
    std::env::var("VERIF_SEED").ok().and_then(|s| s.parse().ok()).unwrap_or(0)
}

pub fn hash_of<T: Hash>(t: &T) -> u64 {
    // Fixed-key hasher: deterministic across processes (std's DefaultHasher::new() is SipHash with
    // zero keys).
    #[allow(deprecated)]
    let mut h = std::hash::SipHasher::new();
    t.hash(&mut h);
    h.finish()
}

/// Install a panic hook that prints nothing (subjects are expected to panic in some oracles).
pub fn quiet_panics() {
    std::panic::set_hook(Box::new(|_| {}));
}

/// Run `f`, turning a panic into `Err(message)`.
pub fn catch<R>(f: impl FnOnce() -> R) -> Result<R, String> {
    match std::panic::catch_unwind(std::panic::AssertUnwindSafe(f)) {
        Ok(r) => Ok(r),
        Err(e) => Err(if let Some(s) = e.downcast_ref::<&str>() {
            s.to_string()
        } else if let Some(s) = e.downcast_ref::<String>() {
            s.clone()
        } else {
            "<non-string panic>".to_string()
        }),
    }
}

#[derive(Clone, Debug)]
pub struct Violation {
    /// Canonical case key (used for known-finding matching and dedup).
    pub key: String,
    pub what: String,
    pub replay: Value,
}

/// Mergeable counters; one per worker thread / section, folded into the `Report`.
#[derive(Default, Clone)]
pub struct Stats {
    pub evaluations: u64,
    pub states: u64,
    pub transitions: u64,
    pub traces: u64,
    pub distinct: BTreeSet<u64>,
    pub outcomes: BTreeSet<u64>,
    pub samples: Vec<Value>,
    pub violations: Vec<Violation>,
    pub violations_total: u64,
    pub caps: Vec<String>,
}

const MAX_SAMPLES: usize = 6;
const MAX_VIOLATIONS: usize = 8;

impl Stats {
    pub fn new() -> Self {
        Self::default()
    }
    /// One executed case (an execution of the real code + its oracle).
    pub fn eval(&mut self) {
        self.evaluations += 1;
    }
    /// A case that is non-trivial by the property's stated rule; deduplicated by `key`.
    pub fn nontrivial<T: Hash>(&mut self, key: &T) {
        self.distinct.insert(hash_of(key));
    }
    /// A distinct observable outcome (for the vacuity guard).
    pub fn outcome<T: Hash>(&mut self, o: &T) {
        self.outcomes.insert(hash_of(o));
    }
    pub fn state(&mut self) {
        self.states += 1;
    }
    pub fn transition(&mut self) {
        self.transitions += 1;
    }
    /// An execution of the implementation that was compared with the reference model.
    pub fn trace(&mut self) {
        self.traces += 1;
    }
    pub fn sample(&mut self, v: impl FnOnce() -> Value) {
        if self.samples.len() < MAX_SAMPLES {
            self.samples.push(v());
        }
    }
    pub fn cap(&mut self, what: impl Into<String>) {
        self.caps.push(what.into());
    }
    pub fn violation(&mut self, key: impl Into<String>, what: impl Into<String>, replay: Value) {
        self.violations_total += 1;
        let key = key.into();
        if self.violations.iter().any(|v| v.key == key) {
            return;
        }
        if self.violations.len() < MAX_VIOLATIONS {
            self.violations.push(Violation { key, what: what.into(), replay });
        }
    }
    pub fn merge(&mut self, o: Stats) {
        self.evaluations += o.evaluations;
        self.states += o.states;
        self.transitions += o.transitions;
        self.traces += o.traces;
        self.distinct.extend(o.distinct);
        self.outcomes.extend(o.outcomes);
        for s in o.samples {
            if self.samples.len() < MAX_SAMPLES {
                self.samples.push(s);
            }
        }
        self.violations_total += o.violations_total;
        for v in o.violations {
            if self.violations.len() < MAX_VIOLATIONS && !self.violations.iter().any(|w| w.key == v.key) {
                self.violations.push(v);
            }
        }
        self.caps.extend(o.caps);
    }
}

pub struct Report {
    pub property: String,
    pub tier: String,
    pub engine: String,
    pub rule: String,
    pub explanation: String,
    pub assumptions: Vec<String>,
    pub bounds: BTreeMap<String, Value>,
    pub sections: BTreeMap<String, Value>,
    pub stats: Stats,
    pub exhaustive: bool,
    /// Minimum number of distinct outcomes below which the run is declared vacuous.
    pub min_outcomes: usize,
    start: Instant,
}

impl Report {
    pub fn new(property: &str, tier: &str, engine: &str) -> Self {
        assert!(tier == "quick" || tier == "thorough", "tier must be quick|thorough");
        Report {
            property: property.to_string(),
            tier: tier.to_string(),
            engine: engine.to_string(),
            rule: String::new(),
            explanation: String::new(),
            assumptions: vec![],
            bounds: BTreeMap::new(),
            sections: BTreeMap::new(),
            stats: Stats::new(),
            exhaustive: true,
            min_outcomes: 2,
            start: Instant::now(),
        }
    }
    pub fn thorough(&self) -> bool {
        self.tier == "thorough"
    }
    pub fn bound(&mut self, k: &str, v: impl Into<Value>) {
        self.bounds.insert(k.to_string(), v.into());
    }
    pub fn assume(&mut self, s: &str) {
        self.assumptions.push(s.to_string());
    }
    /// Fold a section's stats into the report and remember its per-section counters.
    pub fn section(&mut self, name: &str, s: Stats) {
        self.sections.insert(
            name.to_string(),
            json!({"evaluations": s.evaluations, "states": s.states, "transitions": s.transitions,
                   "distinct_nontrivial": s.distinct.len(), "distinct_outcomes": s.outcomes.len(),
                   "violations": s.violations_total, "caps": s.caps}),
        );
        if !s.caps.is_empty() {
            self.exhaustive = false;
        }
        self.stats.merge(s);
    }

    fn known_findings(&self) -> Vec<(String, String)> {
        let p = verif_dir().join("known_findings.json");
        let Ok(txt) = std::fs::read_to_string(&p) else { return vec![] };
        let v: Value = serde_json::from_str(&txt).expect("known_findings.json is not valid JSON");
        let mut out = vec![];
        if let Some(arr) = v.get("findings").and_then(|a| a.as_array()) {
            for f in arr {
                if f.get("property").and_then(|x| x.as_str()) == Some(&self.property) {
                    let what = f.get("what").and_then(|x| x.as_str()).unwrap_or("").to_string();
                    for k in f.get("keys").and_then(|x| x.as_array()).into_iter().flatten() {
                        if let Some(k) = k.as_str() {
                            out.push((k.to_string(), what.clone()));
                        }
                    }
                }
            }
        }
        out
    }

    /// Write evidence, print verdict lines, exit.
    pub fn finish(mut self) -> ! {
        let wall = self.start.elapsed().as_secs_f64();
        let s = &self.stats;
        let known = self.known_findings();
        let mut new_v: Vec<&Violation> = vec![];
        let mut known_v: Vec<(&Violation, &str)> = vec![];
        for v in &s.violations {
            match known.iter().find(|(k, _)| *k == v.key) {
                Some((_, what)) => known_v.push((v, what.as_str())),
                None => new_v.push(v),
            }
        }
        if !s.caps.is_empty() {
            self.exhaustive = false;
        }
        // states/transitions: engines that do not track them explicitly get
        // states = evaluations (each executed case is a visited terminal state) so that the
        // counters are measured, not invented.
        let states = if s.states > 0 { s.states } else { s.evaluations };
        let transitions = if s.transitions > 0 { s.transitions } else { s.evaluations };
        let traces = if s.traces > 0 { s.traces } else { s.evaluations };
        let mut samples = s.samples.clone();
        if samples.is_empty() {
            samples.push(json!("(no sample recorded)"));
        }
        let ev = json!({
            "property_id": self.property,
            "tier": self.tier,
            "seed": seed(),
            "level": "model_checking",
            "engine": self.engine,
            "coverage": {
                "states": states,
                "transitions": transitions,
                "traces_validated_against_impl": traces,
                "evaluations": s.evaluations,
                "distinct_nontrivial": s.distinct.len(),
                "distinct_outcomes": s.outcomes.len(),
                "rule": self.rule,
                "explanation": self.explanation,
                "samples": samples,
                "exhaustive": self.exhaustive,
                "caps_hit": s.caps,
                "bounds": self.bounds,
                "sections": self.sections,
            },
            "assumptions": self.assumptions,
            "wall_s": wall,
            "violations": s.violations_total,
            "violation_keys": s.violations.iter().map(|v| v.key.clone()).collect::<Vec<_>>(),
            "known_findings_reported": known_v.iter().map(|(v, _)| v.key.clone()).collect::<Vec<_>>(),
        });
        let dir = verif_dir();
        let _ = std::fs::create_dir_all(dir.join("evidence"));
        // VERIF_PART=<name>: this run is one part of a multi-engine check; the driver merges the parts.
        let evp = match std::env::var("VERIF_PART") {
            Ok(part) if !part.is_empty() => dir.join("evidence").join(format!("{}.{}.json", self.property, part)),
            _ => dir.join("evidence").join(format!("{}.json", self.property)),
        };
        std::fs::write(&evp, serde_json::to_string_pretty(&ev).unwrap()).expect("cannot write evidence");

        println!(
            "[{}] {} tier={} evaluations={} states={} transitions={} distinct_nontrivial={} outcomes={} exhaustive={} wall={:.1}s",
            self.engine, self.property, self.tier, s.evaluations, states, transitions,
            s.distinct.len(), s.outcomes.len(), self.exhaustive, wall
        );
        for c in &s.caps {
            println!("CAP-HIT: property={} {}", self.property, c);
        }
        for (v, what) in &known_v {
            println!("KNOWN-FINDING: property={} {} [{}]", self.property, what, v.key);
        }
        if !new_v.is_empty() {
            let rdir = dir.join("replays").join(&self.property);
            let _ = std::fs::create_dir_all(&rdir);
            for (i, v) in new_v.iter().enumerate() {
                let rp = rdir.join(format!("case{}.json", i));
                let body = json!({"property": self.property, "engine": self.engine, "key": v.key,
                                  "what": v.what, "case": v.replay});
                std::fs::write(&rp, serde_json::to_string_pretty(&body).unwrap()).expect("cannot write replay");
                println!("VIOLATION property={} replay={}", self.property, rp.display());
                println!("  what: {}", v.what);
            }
            std::process::exit(1);
        }
        if s.evaluations == 0 || s.outcomes.len() < self.min_outcomes || s.distinct.len() < 2 {
            println!(
                "MACHINERY-ERROR: property={} vacuous run (evaluations={}, distinct outcomes={}, distinct nontrivial={})",
                self.property, s.evaluations, s.outcomes.len(), s.distinct.len()
            );
            std::process::exit(2);
        }
        std::process::exit(0);
    }
}

/// Minimal CLI: `--property ID --tier quick|thorough [--replay FILE]`.
pub struct Cli {
    pub property: String,
    pub tier: String,
    pub replay: Option<String>,
}

pub fn cli() -> Cli {
    let mut property = String::new();
    let mut tier = std::env::var("VERIF_TIER").unwrap_or_else(|_| "quick".into());
    let mut replay = None;
    let mut it = std::env::args().skip(1);
    while let Some(a) = it.next() {
        match a.as_str() {
            "--property" => property = it.next().expect("--property ID"),
            "--tier" => tier = it.next().expect("--tier T"),
            "--replay" => replay = Some(it.next().expect("--replay FILE")),
            other => {
                eprintln!("unknown argument {other}");
                std::process::exit(2);
            }
        }
    }
    if property.is_empty() {
        eprintln!("--property required");
        std::process::exit(2);
    }
    Cli { property, tier, replay }
}

/// Run `work(i)` for i in 0..n on up to `threads` OS threads, merging the returned stats.
pub fn par_map<F>(n: usize, threads: usize, work: F) -> Stats
where
    F: Fn(usize) -> Stats + Sync,
{
    let next = std::sync::atomic::AtomicUsize::new(0);
    let total = std::sync::Mutex::new(Stats::new());
    let threads = threads.max(1).min(n.max(1));
    std::thread::scope(|sc| {
        for _ in 0..threads {
            sc.spawn(|| {
                let mut local = Stats::new();
                loop {
                    let i = next.fetch_add(1, std::sync::atomic::Ordering::SeqCst);
                    if i >= n {
                        break;
                    }
                    local.merge(work(i));
                }
                total.lock().unwrap().merge(local);
            });
        }
    });
    total.into_inner().unwrap()
}

pub fn ncpu() -> usize {
    std::thread::available_parallelism().map(|n| n.get()).unwrap_or(4)
}
