//! C14 — sink adaptors route every item to the right sink, once, in order.
//!
//! Every downstream of the adaptor under test is a scripted, protocol-CHECKING `futures::Sink`
//! (`CkSink`); input streams / init futures are scripted too. A *pending script* is a set of
//! `(object, poll index)` pairs: the object's `idx`-th poll (poll_ready / poll_flush / poll_close /
//! poll_next / Future::poll, counted per object) answers `Pending`, every other poll is ready.
//! The deviation-bounded explorer enumerates: the item sequence, where the driver flushes, a
//! scenario parameter (error position, ...) as FREE choices, then every pending script with at
//! most k entries as COSTLY choices (default answer = Ready), then — for the two-actor
//! LazySinkSource scenario — the interleaving of sink-half and source-half steps as free choices.
use std::cell::RefCell;
use std::collections::{BTreeMap, BTreeSet, HashMap, VecDeque};
use std::fmt::Debug;
use std::future::Future;
use std::pin::Pin;
use std::rc::Rc;
use std::sync::Mutex;
use std::task::{Context, Poll};

use futures::task::noop_waker_ref;
use futures::{Sink, Stream};
use sinktools::lazy::{LazySink, LazySource};
use sinktools::lazy_sink_source::LazySinkSource;
use sinktools::{SinkBuild, SinkBuilder, ToSinkBuild};
use variadics::var_expr;
use vf_explore::{Chooser, Report, Stats, Value, catch, explore, json, ncpu, par_map};

use crate::c15::{VioMap, flush_violations, record_violation};

// ------------------------------------------------------------------------------------------------
// World: shared recorder + pending script
// ------------------------------------------------------------------------------------------------

const OBJ_STREAM: u8 = 4;
const OBJ_FUT: u8 = 8; // + key for per-key init futures

fn obj_name(o: u8) -> String {
    match o {
        0..=3 => format!("sink{o}"),
        4 => "stream".into(),
        _ => format!("init_future{}", o - OBJ_FUT),
    }
}

#[derive(Default, Clone)]
struct SinkRec {
    exists: bool,
    items: Vec<u8>,
    credit: bool,
    ever_ready: bool,
    dirty: bool,
    closed: bool,
}

#[derive(Default)]
struct World {
    pend: BTreeSet<(u8, u8)>,
    consumed: BTreeSet<(u8, u8)>,
    polls: BTreeMap<u8, u32>,
    sinks: [SinkRec; 4],
    /// per-object event codes (independent of the order in which different objects are polled)
    obj_log: BTreeMap<u8, Vec<u8>>,
    /// results seen by the driver(s)
    drv_log: Vec<u8>,
    faults: Vec<(String, String)>,
    init_calls: BTreeMap<u8, u32>,
    side: Vec<u8>,
    stream_polled_after_end: u32,
}
type W = Rc<RefCell<World>>;

fn fault(w: &W, kind: &str, detail: String) {
    let mut w = w.borrow_mut();
    if !w.faults.iter().any(|(k, _)| k == kind) {
        w.faults.push((kind.to_string(), detail));
    }
}

/// Consume one poll of `obj`; true = this poll answers Pending.
fn pend_now(w: &W, obj: u8) -> bool {
    let mut w = w.borrow_mut();
    let c = w.polls.entry(obj).or_insert(0);
    let idx = *c;
    *c += 1;
    let key = (obj, idx.min(255) as u8);
    let p = w.pend.contains(&key);
    if p {
        w.consumed.insert(key);
    }
    p
}
fn register(w: &W, obj: u8) {
    w.borrow_mut().polls.entry(obj).or_insert(0);
}
fn olog(w: &W, obj: u8, code: u8) {
    w.borrow_mut().obj_log.entry(obj).or_default().push(code);
}

#[derive(Debug, Clone, PartialEq, Eq)]
pub struct SinkErr(u8);

/// Protocol-checking scripted sink.
struct CkSink {
    id: u8,
    w: W,
}
impl CkSink {
    /// `live`: the sink is handed to the adaptor right away (otherwise a `ScriptFuture` activates it).
    fn new(id: u8, w: &W, live: bool) -> Self {
        register(w, id);
        if live {
            w.borrow_mut().sinks[id as usize].exists = true;
        }
        CkSink { id, w: w.clone() }
    }
    fn touch(&self) {
        self.w.borrow_mut().sinks[self.id as usize].exists = true;
    }
}
impl Sink<u8> for CkSink {
    type Error = SinkErr;
    fn poll_ready(self: Pin<&mut Self>, _cx: &mut Context<'_>) -> Poll<Result<(), SinkErr>> {
        self.touch();
        if pend_now(&self.w, self.id) {
            olog(&self.w, self.id, 10);
            return Poll::Pending;
        }
        olog(&self.w, self.id, 11);
        let mut w = self.w.borrow_mut();
        let r = &mut w.sinks[self.id as usize];
        r.credit = true;
        r.ever_ready = true;
        Poll::Ready(Ok(()))
    }
    fn start_send(self: Pin<&mut Self>, item: u8) -> Result<(), SinkErr> {
        self.touch();
        olog(&self.w, self.id, 20);
        let (credit, ever, closed) = {
            let w = self.w.borrow();
            let r = &w.sinks[self.id as usize];
            (r.credit, r.ever_ready, r.closed)
        };
        if !credit {
            let sub = if ever { "no-poll_ready-since-last-start_send" } else { "poll_ready-never-succeeded-on-this-sink" };
            fault(
                &self.w,
                &format!("start_send-without-poll_ready:{sub}"),
                format!("sink{} got start_send({item}) without a preceding poll_ready -> Ready(Ok)", self.id),
            );
        }
        if closed {
            fault(&self.w, "start_send-after-close", format!("sink{} got start_send({item}) after poll_close completed", self.id));
        }
        let mut w = self.w.borrow_mut();
        let r = &mut w.sinks[self.id as usize];
        r.credit = false;
        r.dirty = true;
        r.items.push(item);
        Ok(())
    }
    fn poll_flush(self: Pin<&mut Self>, _cx: &mut Context<'_>) -> Poll<Result<(), SinkErr>> {
        self.touch();
        if pend_now(&self.w, self.id) {
            olog(&self.w, self.id, 30);
            return Poll::Pending;
        }
        olog(&self.w, self.id, 31);
        self.w.borrow_mut().sinks[self.id as usize].dirty = false;
        Poll::Ready(Ok(()))
    }
    fn poll_close(self: Pin<&mut Self>, _cx: &mut Context<'_>) -> Poll<Result<(), SinkErr>> {
        self.touch();
        if pend_now(&self.w, self.id) {
            olog(&self.w, self.id, 40);
            return Poll::Pending;
        }
        olog(&self.w, self.id, 41);
        let mut w = self.w.borrow_mut();
        let r = &mut w.sinks[self.id as usize];
        r.dirty = false;
        r.closed = true;
        Poll::Ready(Ok(()))
    }
}

/// Scripted input stream. Fused after the end (C14 says nothing about polling an ended input), but
/// polls after the end are counted and reported as an observation.
struct ScriptStream {
    id: u8,
    w: W,
    items: VecDeque<u8>,
    ended: bool,
}
impl ScriptStream {
    fn new(id: u8, w: &W, items: Vec<u8>) -> Self {
        register(w, id);
        ScriptStream { id, w: w.clone(), items: items.into(), ended: false }
    }
}
impl Stream for ScriptStream {
    type Item = u8;
    fn poll_next(mut self: Pin<&mut Self>, _cx: &mut Context<'_>) -> Poll<Option<u8>> {
        if self.ended {
            self.w.borrow_mut().stream_polled_after_end += 1;
            return Poll::Ready(None);
        }
        if pend_now(&self.w, self.id) {
            olog(&self.w, self.id, 50);
            return Poll::Pending;
        }
        match self.items.pop_front() {
            Some(x) => {
                olog(&self.w, self.id, 51);
                Poll::Ready(Some(x))
            }
            None => {
                olog(&self.w, self.id, 52);
                self.ended = true;
                Poll::Ready(None)
            }
        }
    }
}

/// Scripted init future; panics (detected) when polled after completion.
struct ScriptFuture<T> {
    id: u8,
    w: W,
    out: Option<T>,
    activate: Vec<u8>,
}
impl<T> ScriptFuture<T> {
    fn new(id: u8, w: &W, out: T, activate: Vec<u8>) -> Self {
        register(w, id);
        ScriptFuture { id, w: w.clone(), out: Some(out), activate }
    }
}
impl<T: Unpin> Future for ScriptFuture<T> {
    type Output = T;
    fn poll(mut self: Pin<&mut Self>, _cx: &mut Context<'_>) -> Poll<T> {
        if self.out.is_none() {
            panic!("VF-SCRIPT: init future polled after completion");
        }
        if pend_now(&self.w, self.id) {
            olog(&self.w, self.id, 60);
            return Poll::Pending;
        }
        olog(&self.w, self.id, 61);
        for s in self.activate.clone() {
            self.w.borrow_mut().sinks[s as usize].exists = true;
        }
        Poll::Ready(self.out.take().unwrap())
    }
}

// ------------------------------------------------------------------------------------------------
// Case + schedule source
// ------------------------------------------------------------------------------------------------

#[derive(Clone, Debug, PartialEq, Eq, Hash, Default)]
pub struct Case {
    scen: String,
    /// one symbol per input item; the item VALUE is `(position << 2) | symbol`, so every item is unique
    syms: Vec<u8>,
    /// flush after sending item i (sink scenarios)
    flush: Vec<bool>,
    /// scenario specific (error position, source length / split flag, ...)
    param: usize,
    /// pending script
    pend: Vec<(u8, u8)>,
    /// interleaving decisions of two-actor scenarios (0 = sink half, 1 = source half)
    sched: Vec<u8>,
}

fn case_json(c: &Case) -> Value {
    json!({"scen": c.scen, "syms": c.syms, "flush": c.flush.iter().map(|b| *b as u8).collect::<Vec<_>>(),
           "param": c.param,
           "pend": c.pend.iter().map(|(o,i)| json!([o,i])).collect::<Vec<_>>(),
           "pend_readable": c.pend.iter().map(|(o,i)| format!("{} poll#{}", obj_name(*o), i)).collect::<Vec<_>>(),
           "sched": c.sched})
}
fn case_from(v: &Value) -> Option<Case> {
    let arr_u8 = |k: &str| -> Vec<u8> {
        v.get(k).and_then(|a| a.as_array()).map(|a| a.iter().filter_map(|x| x.as_u64()).map(|x| x as u8).collect()).unwrap_or_default()
    };
    Some(Case {
        scen: v.get("scen")?.as_str()?.to_string(),
        syms: arr_u8("syms"),
        flush: arr_u8("flush").into_iter().map(|b| b != 0).collect(),
        param: v.get("param").and_then(|p| p.as_u64()).unwrap_or(0) as usize,
        pend: v
            .get("pend")
            .and_then(|a| a.as_array())
            .map(|a| {
                a.iter()
                    .filter_map(|p| {
                        let p = p.as_array()?;
                        Some((p.first()?.as_u64()? as u8, p.get(1)?.as_u64()? as u8))
                    })
                    .collect()
            })
            .unwrap_or_default(),
        sched: arr_u8("sched"),
    })
}

enum Sched<'a> {
    /// always the same actor (used by the measuring runs)
    Const(u8),
    Explore(&'a mut Chooser, Vec<u8>),
    Replay(Vec<u8>, usize),
}
impl Sched<'_> {
    fn pick(&mut self, n: usize) -> usize {
        match self {
            Sched::Const(a) => (*a as usize).min(n - 1),
            Sched::Explore(ch, rec) => {
                let c = ch.choose_free(n);
                rec.push(c as u8);
                c
            }
            Sched::Replay(v, pos) => {
                let c = v.get(*pos).copied().unwrap_or(0) as usize;
                *pos += 1;
                c.min(n - 1)
            }
        }
    }
    fn recorded(&self) -> Vec<u8> {
        match self {
            Sched::Const(_) => vec![],
            Sched::Explore(_, rec) => rec.clone(),
            Sched::Replay(v, _) => v.clone(),
        }
    }
}

fn val(pos: usize, sym: u8) -> u8 {
    ((pos as u8) << 2) | sym
}
fn vals(c: &Case) -> Vec<u8> {
    c.syms.iter().enumerate().map(|(i, s)| val(i, *s)).collect()
}
/// flat_map expansion by symbol: 0 -> [], 1 -> [v], 2 -> [v, v+50]
fn expand(v: u8) -> Vec<u8> {
    match v & 3 {
        0 => vec![],
        1 => vec![v],
        _ => vec![v, v + 50],
    }
}

// ------------------------------------------------------------------------------------------------
// Hand-written Sink protocol driver (step machine)
// ------------------------------------------------------------------------------------------------

enum Op<In> {
    Send(In),
    Flush,
}
#[derive(PartialEq, Debug, Clone, Copy)]
enum StepRes {
    More,
    Done,
    Failed,
}
struct Driver<In> {
    ops: VecDeque<Op<In>>,
    ready: bool,
    /// poll_ready and start_send happen in one step (like `SinkExt::feed`); otherwise another
    /// actor may run between them
    atomic: bool,
    sent: usize,
    finished: bool,
    /// (index of the item being sent or `sent` count, phase, error text)
    error: Option<(usize, &'static str, String)>,
}
impl<In> Driver<In> {
    fn new(ops: VecDeque<Op<In>>, atomic: bool) -> Self {
        Driver { ops, ready: false, atomic, sent: 0, finished: false, error: None }
    }
    fn fail<E: Debug>(&mut self, phase: &'static str, e: E, w: &W) -> StepRes {
        self.error = Some((self.sent, phase, format!("{e:?}")));
        self.finished = true;
        w.borrow_mut().drv_log.push(9);
        StepRes::Failed
    }
    fn step<S>(&mut self, mut s: Pin<&mut S>, w: &W) -> StepRes
    where
        S: Sink<In>,
        S::Error: Debug,
    {
        let mut cx = Context::from_waker(noop_waker_ref());
        match self.ops.front() {
            Some(Op::Send(_)) => {
                if !self.ready {
                    match s.as_mut().poll_ready(&mut cx) {
                        Poll::Pending => {
                            w.borrow_mut().drv_log.push(1);
                            return StepRes::More;
                        }
                        Poll::Ready(Err(e)) => return self.fail("poll_ready", e, w),
                        Poll::Ready(Ok(())) => {
                            w.borrow_mut().drv_log.push(2);
                            self.ready = true;
                            if !self.atomic {
                                return StepRes::More;
                            }
                        }
                    }
                }
                let Some(Op::Send(x)) = self.ops.pop_front() else { unreachable!() };
                self.ready = false;
                match s.as_mut().start_send(x) {
                    Ok(()) => {
                        w.borrow_mut().drv_log.push(3);
                        self.sent += 1;
                        StepRes::More
                    }
                    Err(e) => self.fail("start_send", e, w),
                }
            }
            Some(Op::Flush) => match s.as_mut().poll_flush(&mut cx) {
                Poll::Pending => {
                    w.borrow_mut().drv_log.push(4);
                    StepRes::More
                }
                Poll::Ready(Err(e)) => self.fail("poll_flush", e, w),
                Poll::Ready(Ok(())) => {
                    w.borrow_mut().drv_log.push(5);
                    self.ops.pop_front();
                    check_flushed(w, "poll_flush");
                    StepRes::More
                }
            },
            None => match s.as_mut().poll_close(&mut cx) {
                Poll::Pending => {
                    w.borrow_mut().drv_log.push(6);
                    StepRes::More
                }
                Poll::Ready(Err(e)) => self.fail("poll_close", e, w),
                Poll::Ready(Ok(())) => {
                    w.borrow_mut().drv_log.push(7);
                    self.finished = true;
                    check_closed(w);
                    StepRes::Done
                }
            },
        }
    }
    fn run<S>(&mut self, mut s: Pin<&mut S>, w: &W) -> StepRes
    where
        S: Sink<In>,
        S::Error: Debug,
    {
        for _ in 0..STEP_GUARD {
            match self.step(s.as_mut(), w) {
                StepRes::More => {}
                r => return r,
            }
        }
        fault(w, "no-progress", format!("driver made {STEP_GUARD} protocol steps without completing"));
        StepRes::Failed
    }
}
const STEP_GUARD: usize = 400;

fn check_flushed(w: &W, after: &str) {
    let dirty: Vec<usize> = {
        let w = w.borrow();
        (0..4).filter(|i| w.sinks[*i].exists && w.sinks[*i].dirty).collect()
    };
    if !dirty.is_empty() {
        fault(w, "flush-incomplete", format!("{after} returned Ready(Ok) but sinks {dirty:?} hold items that were not flushed"));
    }
}
fn check_closed(w: &W) {
    let open: Vec<usize> = {
        let w = w.borrow();
        (0..4).filter(|i| w.sinks[*i].exists && !w.sinks[*i].closed).collect()
    };
    if !open.is_empty() {
        fault(w, "not-closed", format!("poll_close returned Ready(Ok) but downstream sinks {open:?} were not closed"));
    }
}

fn ops_of<In>(c: &Case, mk: impl Fn(u8) -> In) -> VecDeque<Op<In>> {
    let mut o = VecDeque::new();
    for (i, v) in vals(c).into_iter().enumerate() {
        o.push_back(Op::Send(mk(v)));
        if c.flush.get(i).copied().unwrap_or(false) {
            o.push_back(Op::Flush);
        }
    }
    o
}

/// Drive `sink` with the case's ops to completion and compare what the checking sinks received.
fn drive_expect<S, In>(c: &Case, w: &W, sink: S, mk: impl Fn(u8) -> In, expect: &[(u8, Vec<u8>)])
where
    S: Sink<In>,
    S::Error: Debug,
{
    let mut d = Driver::new(ops_of(c, mk), true);
    let mut s = std::pin::pin!(sink);
    let r = d.run(s.as_mut(), w);
    if r == StepRes::Failed {
        if let Some((i, ph, e)) = &d.error {
            fault(w, "unexpected-error", format!("{ph} returned Err({e}) while sending item #{i}; no error was injected"));
        }
        return;
    }
    expect_sinks(w, expect);
}
fn expect_sinks(w: &W, expect: &[(u8, Vec<u8>)]) {
    for (id, want) in expect {
        let got = w.borrow().sinks[*id as usize].items.clone();
        if &got != want {
            let kind = if got.len() < want.len() && want.starts_with(&got) || is_subseq(&got, want) && got.len() < want.len() {
                "lost-item"
            } else {
                let mut g = got.clone();
                let mut e = want.clone();
                g.sort();
                e.sort();
                if g == e {
                    "out-of-order"
                } else if g.windows(2).any(|p| p[0] == p[1]) {
                    "duplicated-item"
                } else {
                    "wrong-items"
                }
            };
            fault(w, kind, format!("sink{id}: expected {want:?}, received {got:?}"));
        }
    }
    // a sink that is not expected to receive anything must not have received anything
    for id in 0..4u8 {
        if !expect.iter().any(|(e, _)| *e == id) {
            let got = w.borrow().sinks[id as usize].items.clone();
            if !got.is_empty() {
                fault(w, "wrong-items", format!("sink{id}: expected nothing, received {got:?}"));
            }
        }
    }
}
fn is_subseq(a: &[u8], b: &[u8]) -> bool {
    let mut it = b.iter();
    a.iter().all(|x| it.any(|y| y == x))
}

// ------------------------------------------------------------------------------------------------
// Scenarios
// ------------------------------------------------------------------------------------------------

struct Scen {
    name: &'static str,
    alpha: usize,
    has_flush: bool,
    /// number of values of `param` for an input of the given length
    nparam: fn(usize) -> usize,
    thorough_only: bool,
    /// sinks are polled in HashMap iteration order (not controlled by the harness)
    hash_order: bool,
    run: fn(&Case, &W, &mut Sched),
}

fn one(_: usize) -> usize {
    1
}
fn len_plus_1(l: usize) -> usize {
    l + 1
}
fn two_len_plus_1(l: usize) -> usize {
    2 * l + 1
}

fn demux_expect(c: &Case, n: u8) -> Vec<(u8, Vec<u8>)> {
    (0..n)
        .map(|k| (k, vals(c).into_iter().filter(|v| v & 3 == k).collect::<Vec<u8>>()))
        .filter(|(_, v)| !v.is_empty())
        .collect()
}

fn s_map(c: &Case, w: &W, _: &mut Sched) {
    let sink = sinktools::map(|v: u8| v + 100, CkSink::new(0, w, true));
    drive_expect(c, w, sink, |v| v, &[(0, vals(c).iter().map(|v| v + 100).collect())]);
}
fn s_filter(c: &Case, w: &W, _: &mut Sched) {
    let sink = sinktools::filter(|v: &u8| v & 3 != 1, CkSink::new(0, w, true));
    drive_expect(c, w, sink, |v| v, &[(0, vals(c).into_iter().filter(|v| v & 3 != 1).collect())]);
}
fn s_filter_map(c: &Case, w: &W, _: &mut Sched) {
    let sink = sinktools::filter_map(|v: u8| if v & 3 == 1 { None } else { Some(v + 100) }, CkSink::new(0, w, true));
    drive_expect(c, w, sink, |v| v, &[(0, vals(c).into_iter().filter(|v| v & 3 != 1).map(|v| v + 100).collect())]);
}
fn s_flat_map(c: &Case, w: &W, _: &mut Sched) {
    let sink = sinktools::flat_map(expand, CkSink::new(0, w, true));
    drive_expect(c, w, sink, |v| v, &[(0, vals(c).into_iter().flat_map(expand).collect())]);
}
fn s_flatten(c: &Case, w: &W, _: &mut Sched) {
    let sink = sinktools::flatten::<Vec<u8>, _>(CkSink::new(0, w, true));
    drive_expect(c, w, sink, expand, &[(0, vals(c).into_iter().flat_map(expand).collect())]);
}
fn s_inspect(c: &Case, w: &W, _: &mut Sched) {
    let w2 = w.clone();
    let sink = sinktools::inspect(move |v: &u8| w2.borrow_mut().side.push(*v), CkSink::new(0, w, true));
    drive_expect(c, w, sink, |v| v, &[(0, vals(c))]);
    let side = w.borrow().side.clone();
    if w.borrow().faults.is_empty() && side != vals(c) {
        fault(w, "wrong-items", format!("inspect closure saw {side:?}, expected {:?}", vals(c)));
    }
}
fn s_unzip(c: &Case, w: &W, _: &mut Sched) {
    let sink = sinktools::unzip(CkSink::new(0, w, true), CkSink::new(1, w, true));
    drive_expect(c, w, sink, |v| (v, v + 100), &[(0, vals(c)), (1, vals(c).iter().map(|v| v + 100).collect())]);
}
fn s_for_each(c: &Case, w: &W, _: &mut Sched) {
    let w2 = w.clone();
    let sink = sinktools::for_each(move |v: u8| w2.borrow_mut().side.push(v));
    drive_expect(c, w, sink, |v| v, &[]);
    let side = w.borrow().side.clone();
    if side != vals(c) {
        fault(w, "wrong-items", format!("for_each closure consumed {side:?}, expected {:?}", vals(c)));
    }
}
fn s_builder_for_each(c: &Case, w: &W, _: &mut Sched) {
    let w2 = w.clone();
    let sink = SinkBuilder::<u8>::new()
        .map(|v| v + 100)
        .filter(|v| v & 3 != 1)
        .for_each(move |v: u8| w2.borrow_mut().side.push(v));
    drive_expect(c, w, sink, |v| v, &[]);
    let side = w.borrow().side.clone();
    let want: Vec<u8> = vals(c).into_iter().map(|v| v + 100).filter(|v| v & 3 != 1).collect();
    if side != want {
        fault(w, "wrong-items", format!("for_each closure consumed {side:?}, expected {want:?}"));
    }
}

/// Shared tail of the try_for_each scenarios: an error is injected when the closure sees output
/// number `e`; the outputs before it must have been consumed in order, an error must surface, and
/// nothing may be consumed afterwards.
fn try_tail<S, In>(c: &Case, w: &W, sink: S, mk: impl Fn(u8) -> In, outputs: Vec<u8>, e: usize, direct: bool)
where
    S: Sink<In>,
    S::Error: Debug,
{
    let mut d = Driver::new(ops_of(c, mk), true);
    let mut s = std::pin::pin!(sink);
    let r = d.run(s.as_mut(), w);
    let side = w.borrow().side.clone();
    if e >= outputs.len() {
        if r != StepRes::Done {
            if let Some((i, ph, er)) = &d.error {
                fault(w, "unexpected-error", format!("{ph} returned Err({er}) at item #{i}; no error was injected"));
            }
        } else if side != outputs {
            fault(w, "wrong-items", format!("closure consumed {side:?}, expected {outputs:?}"));
        }
        return;
    }
    match (&d.error, r) {
        (Some((i, ph, er)), StepRes::Failed) => {
            if er != &format!("SinkErr({})", e) {
                fault(w, "wrong-error", format!("injected SinkErr({e}), driver saw {er} in {ph}"));
            }
            if side != outputs[..e] {
                fault(w, if side.len() < e { "lost-item" } else { "wrong-items" },
                      format!("error injected at output #{e}: closure consumed {side:?}, expected {:?}", &outputs[..e]));
            }
            if direct && (*ph != "start_send" || *i != e) {
                fault(w, "wrong-error", format!("error injected at item #{e} must surface from start_send of that item, surfaced from {ph} at item #{i}"));
            }
        }
        _ => {
            if w.borrow().faults.is_empty() {
                fault(w, "error-swallowed", format!("closure returned Err at output #{e} but the driver completed with {r:?}; consumed {side:?}"));
            }
        }
    }
}
fn failing_closure(w: &W, e: usize) -> impl FnMut(u8) -> Result<(), SinkErr> + use<> {
    let w2 = w.clone();
    let mut n = 0usize;
    move |v: u8| {
        let i = n;
        n += 1;
        if i == e {
            Err(SinkErr(e as u8))
        } else {
            w2.borrow_mut().side.push(v);
            Ok(())
        }
    }
}
fn s_try_for_each(c: &Case, w: &W, _: &mut Sched) {
    let sink = sinktools::try_for_each(failing_closure(w, c.param));
    try_tail(c, w, sink, |v| v, vals(c), c.param, true);
}
fn s_builder_map_try_for_each(c: &Case, w: &W, _: &mut Sched) {
    let sink = SinkBuilder::<u8>::new().map(|v| v + 100).try_for_each(failing_closure(w, c.param));
    try_tail(c, w, sink, |v| v, vals(c).iter().map(|v| v + 100).collect(), c.param, true);
}
fn s_flat_map_try_for_each(c: &Case, w: &W, _: &mut Sched) {
    let sink = SinkBuilder::<u8>::new().flat_map(expand).try_for_each(failing_closure(w, c.param));
    try_tail(c, w, sink, |v| v, vals(c).into_iter().flat_map(expand).collect(), c.param, false);
}

fn poll_future_to_end<F: Future>(w: &W, fut: F) -> Option<F::Output> {
    let mut f = std::pin::pin!(fut);
    let mut cx = Context::from_waker(noop_waker_ref());
    for _ in 0..STEP_GUARD {
        match f.as_mut().poll(&mut cx) {
            Poll::Ready(o) => {
                w.borrow_mut().drv_log.push(7);
                return Some(o);
            }
            Poll::Pending => w.borrow_mut().drv_log.push(1),
        }
    }
    fault(w, "no-progress", format!("future polled {STEP_GUARD} times without completing"));
    None
}
fn send_tail(w: &W, r: Option<Result<(), SinkErr>>, expect: &[(u8, Vec<u8>)]) {
    match r {
        None => {}
        Some(Err(e)) => fault(w, "unexpected-error", format!("future resolved to Err({e:?}); no error was injected")),
        Some(Ok(())) => {
            check_flushed(w, "the send future");
            expect_sinks(w, expect);
        }
    }
}
fn s_send_iter(c: &Case, w: &W, _: &mut Sched) {
    let fut = sinktools::send_iter(vals(c), CkSink::new(0, w, true));
    let r = poll_future_to_end(w, fut);
    send_tail(w, r, &[(0, vals(c))]);
}
fn s_send_iter_builder_flat_map(c: &Case, w: &W, _: &mut Sched) {
    let fut = vals(c).into_iter().iter_to_sink_build().flat_map(expand).send_to(CkSink::new(0, w, true));
    let r = poll_future_to_end(w, fut);
    // SendIter finishes with poll_flush of the FlatMap, which drains its buffer first.
    send_tail(w, r, &[(0, vals(c).into_iter().flat_map(expand).collect())]);
}
fn s_send_stream(c: &Case, w: &W, _: &mut Sched) {
    let fut = sinktools::send_stream(ScriptStream::new(OBJ_STREAM, w, vals(c)), CkSink::new(0, w, true));
    let r = poll_future_to_end(w, fut);
    send_tail(w, r, &[(0, vals(c))]);
}
fn s_send_stream_builder_filter_map(c: &Case, w: &W, _: &mut Sched) {
    let fut = ScriptStream::new(OBJ_STREAM, w, vals(c))
        .stream_to_sink_build()
        .filter_map(|v: u8| if v & 3 == 1 { None } else { Some(v + 100) })
        .send_to(CkSink::new(0, w, true));
    let r = poll_future_to_end(w, fut);
    send_tail(w, r, &[(0, vals(c).into_iter().filter(|v| v & 3 != 1).map(|v| v + 100).collect())]);
}

fn s_demux_map_n(c: &Case, w: &W, n: u8) {
    let sinks: HashMap<u8, CkSink> = (0..n).map(|k| (k, CkSink::new(k, w, true))).collect();
    let sink = sinktools::demux_map(sinks);
    drive_expect(c, w, sink, |v| (v & 3, v), &demux_expect(c, n));
}
fn s_demux_map(c: &Case, w: &W, _: &mut Sched) {
    s_demux_map_n(c, w, 2)
}
fn s_demux_map3(c: &Case, w: &W, _: &mut Sched) {
    s_demux_map_n(c, w, 3)
}
fn s_demux_var(c: &Case, w: &W, _: &mut Sched) {
    let sink = sinktools::demux_var::<_, u8, SinkErr>(var_expr!(CkSink::new(0, w, true), CkSink::new(1, w, true)));
    drive_expect(c, w, sink, |v| ((v & 3) as usize, v), &demux_expect(c, 2));
}
fn s_demux_var3(c: &Case, w: &W, _: &mut Sched) {
    let sink = sinktools::demux_var::<_, u8, SinkErr>(var_expr!(
        CkSink::new(0, w, true),
        CkSink::new(1, w, true),
        CkSink::new(2, w, true)
    ));
    drive_expect(c, w, sink, |v| ((v & 3) as usize, v), &demux_expect(c, 3));
}
fn init_count_check(w: &W, used_keys: &BTreeSet<u8>) {
    let calls = w.borrow().init_calls.clone();
    for (k, n) in &calls {
        if *n > 1 {
            fault(w, "init-more-than-once", format!("init closure for key/sink {k} was called {n} times"));
        }
    }
    if w.borrow().faults.is_empty() {
        for k in used_keys {
            if calls.get(k).copied().unwrap_or(0) != 1 {
                fault(w, "init-count", format!("items were addressed to key/sink {k} but its init closure ran {} times", calls.get(k).copied().unwrap_or(0)));
            }
        }
    }
}
fn s_demux_map_lazy(c: &Case, w: &W, _: &mut Sched) {
    let w2 = w.clone();
    let sink = sinktools::demux_map_lazy(move |k: &u8| {
        *w2.borrow_mut().init_calls.entry(*k).or_insert(0) += 1;
        CkSink::new(*k, &w2, true)
    });
    drive_expect(c, w, sink, |v| (v & 3, v), &demux_expect(c, 2));
    init_count_check(w, &vals(c).iter().map(|v| v & 3).collect());
}
/// The composition used in hydro_lang's containerized deployment: a lazily created LazySink per key.
fn s_demux_map_lazy_of_lazy_sink(c: &Case, w: &W, _: &mut Sched) {
    let w2 = w.clone();
    let sink = sinktools::demux_map_lazy(move |k: &u8| {
        let k = *k;
        let w3 = w2.clone();
        *w2.borrow_mut().init_calls.entry(100 + k).or_insert(0) += 1;
        Box::pin(LazySink::<_, _, CkSink, u8>::new(move || {
            *w3.borrow_mut().init_calls.entry(k).or_insert(0) += 1;
            ScriptFuture::new(OBJ_FUT + k, &w3, Ok::<_, SinkErr>(CkSink::new(k, &w3, false)), vec![k])
        }))
    });
    drive_expect(c, w, sink, |v| (v & 3, v), &demux_expect(c, 2));
    init_count_check(w, &vals(c).iter().map(|v| v & 3).collect());
}
fn s_lazy_sink(c: &Case, w: &W, _: &mut Sched) {
    let w2 = w.clone();
    let sink = LazySink::<_, _, CkSink, u8>::new(move || {
        *w2.borrow_mut().init_calls.entry(0).or_insert(0) += 1;
        ScriptFuture::new(OBJ_FUT, &w2, Ok::<_, SinkErr>(CkSink::new(0, &w2, false)), vec![0])
    });
    let exp: Vec<(u8, Vec<u8>)> = if c.syms.is_empty() { vec![] } else { vec![(0, vals(c))] };
    drive_expect(c, w, sink, |v| v, &exp);
    init_count_check(w, &if c.syms.is_empty() { BTreeSet::new() } else { BTreeSet::from([0]) });
}
fn s_lazy_source(c: &Case, w: &W, _: &mut Sched) {
    let w2 = w.clone();
    let items = vals(c);
    let src = LazySource::new(move || {
        *w2.borrow_mut().init_calls.entry(0).or_insert(0) += 1;
        ScriptFuture::new(OBJ_FUT, &w2, Ok::<_, SinkErr>(ScriptStream::new(OBJ_STREAM, &w2, items)), vec![])
    });
    let mut s = std::pin::pin!(src);
    let mut cx = Context::from_waker(noop_waker_ref());
    let mut out = vec![];
    let mut ended = false;
    for _ in 0..STEP_GUARD {
        match s.as_mut().poll_next(&mut cx) {
            Poll::Ready(Some(x)) => {
                w.borrow_mut().drv_log.push(3);
                out.push(x)
            }
            Poll::Ready(None) => {
                w.borrow_mut().drv_log.push(7);
                ended = true;
                break;
            }
            Poll::Pending => w.borrow_mut().drv_log.push(1),
        }
    }
    if !ended {
        fault(w, "no-progress", format!("LazySource polled {STEP_GUARD} times without ending"));
        return;
    }
    if out != vals(c) {
        let kind = if out.len() < c.syms.len() { "lost-item" } else { "wrong-items" };
        fault(w, kind, format!("LazySource yielded {out:?}, inner stream produced {:?}", vals(c)));
    }
    init_count_check(w, &BTreeSet::from([0]));
}
/// param = 2 * (number of items of the source half's stream) + (1 if poll_ready/start_send of the
/// sink half are separate scheduling steps).
fn s_lazy_sink_source(c: &Case, w: &W, sched: &mut Sched) {
    let split = c.param & 1 == 1;
    let src_items: Vec<u8> = (0..(c.param >> 1) as u8).map(|i| 200 + i).collect();
    let fut = ScriptFuture::new(
        OBJ_FUT,
        w,
        Ok::<_, SinkErr>((ScriptStream::new(OBJ_STREAM, w, src_items.clone()), CkSink::new(0, w, false))),
        vec![0],
    );
    let (sink_half, src_half) = LazySinkSource::<_, ScriptStream, CkSink, u8, SinkErr>::new(fut).split();
    let mut sink_half = std::pin::pin!(sink_half);
    let mut src_half = std::pin::pin!(src_half);
    let mut d = Driver::new(ops_of(c, |v| v), !split);
    let mut cx = Context::from_waker(noop_waker_ref());
    let mut out = vec![];
    let mut src_done = false;
    let mut steps = 0;
    loop {
        let actor = match (!d.finished, !src_done) {
            (false, false) => break,
            (true, false) => 0,
            (false, true) => 1,
            (true, true) => sched.pick(2),
        };
        steps += 1;
        if steps > STEP_GUARD {
            fault(w, "no-progress", format!("{STEP_GUARD} steps without both halves completing"));
            return;
        }
        if actor == 0 {
            d.step(sink_half.as_mut(), w);
        } else {
            match src_half.as_mut().poll_next(&mut cx) {
                Poll::Ready(Some(x)) => {
                    w.borrow_mut().drv_log.push(13);
                    out.push(x)
                }
                Poll::Ready(None) => {
                    w.borrow_mut().drv_log.push(17);
                    src_done = true
                }
                Poll::Pending => w.borrow_mut().drv_log.push(11),
            }
        }
    }
    if let Some((i, ph, e)) = &d.error {
        fault(w, "unexpected-error", format!("{ph} returned Err({e}) while sending item #{i}; no error was injected"));
        return;
    }
    let exp: Vec<(u8, Vec<u8>)> = if c.syms.is_empty() { vec![] } else { vec![(0, vals(c))] };
    expect_sinks(w, &exp);
    if out != src_items {
        let kind = if out.len() < src_items.len() { "lost-item" } else { "wrong-items" };
        fault(w, kind, format!("source half yielded {out:?}, inner stream produced {src_items:?}"));
    }
}
fn lss_params(_: usize) -> usize {
    // source stream length 0..=2, split flag
    6
}

// compositions ------------------------------------------------------------------------------------
fn s_chain_map_filter_flat_map(c: &Case, w: &W, _: &mut Sched) {
    let sink = SinkBuilder::<u8>::new()
        .map(|v| v + 100)
        .filter(|v| v & 3 != 1)
        .inspect(|_| {})
        .flat_map(expand)
        .send_to(CkSink::new(0, w, true));
    let want: Vec<u8> = vals(c).into_iter().map(|v| v + 100).filter(|v| v & 3 != 1).flat_map(expand).collect();
    drive_expect(c, w, sink, |v| v, &[(0, want)]);
}
fn s_flat_map_flat_map(c: &Case, w: &W, _: &mut Sched) {
    let inner = sinktools::flat_map(|x: u8| vec![x, x + 1], CkSink::new(0, w, true));
    let sink = sinktools::flat_map(expand, inner);
    let want: Vec<u8> = vals(c).into_iter().flat_map(expand).flat_map(|x| vec![x, x + 1]).collect();
    drive_expect(c, w, sink, |v| v, &[(0, want)]);
}
fn s_flatten_builder(c: &Case, w: &W, _: &mut Sched) {
    let sink = SinkBuilder::<Vec<u8>>::new().flatten::<Vec<u8>>().filter_map(|v: u8| Some(v)).send_to(CkSink::new(0, w, true));
    drive_expect(c, w, sink, expand, &[(0, vals(c).into_iter().flat_map(expand).collect())]);
}
fn s_unzip_flat_map(c: &Case, w: &W, _: &mut Sched) {
    let left = sinktools::flat_map(expand, CkSink::new(0, w, true));
    let sink = SinkBuilder::<u8>::new().map(|v| (v, v + 100)).unzip(left, CkSink::new(1, w, true));
    drive_expect(
        c,
        w,
        sink,
        |v| v,
        &[(0, vals(c).into_iter().flat_map(expand).collect()), (1, vals(c).iter().map(|v| v + 100).collect())],
    );
}
fn s_demux_var_builder_of_flat_map(c: &Case, w: &W, _: &mut Sched) {
    let s0 = sinktools::flat_map(|x: u8| vec![x, x + 50], CkSink::new(0, w, true));
    let s1 = sinktools::map(|x: u8| x, CkSink::new(1, w, true));
    let sink = SinkBuilder::<u8>::new().map(|v| ((v & 3) as usize, v)).demux_var::<_, u8, SinkErr>(var_expr!(s0, s1));
    let e0: Vec<u8> = vals(c).into_iter().filter(|v| v & 3 == 0).flat_map(|x| vec![x, x + 50]).collect();
    let e1: Vec<u8> = vals(c).into_iter().filter(|v| v & 3 == 1).collect();
    let exp: Vec<(u8, Vec<u8>)> = [(0u8, e0), (1u8, e1)].into_iter().filter(|(_, v)| !v.is_empty()).collect();
    drive_expect(c, w, sink, |v| v, &exp);
}

fn scenarios() -> Vec<Scen> {
    let s = |name, alpha, has_flush, nparam: fn(usize) -> usize, run: fn(&Case, &W, &mut Sched)| Scen {
        name,
        alpha,
        has_flush,
        nparam,
        thorough_only: false,
        hash_order: false,
        run,
    };
    vec![
        s("map", 2, true, one, s_map),
        s("filter", 3, true, one, s_filter),
        s("filter_map", 3, true, one, s_filter_map),
        s("flat_map", 3, true, one, s_flat_map),
        s("flatten", 3, true, one, s_flatten),
        s("inspect", 2, true, one, s_inspect),
        s("unzip", 2, true, one, s_unzip),
        s("for_each", 2, true, one, s_for_each),
        s("builder_map_filter_for_each", 3, true, one, s_builder_for_each),
        s("try_for_each", 2, true, len_plus_1, s_try_for_each),
        s("builder_map_try_for_each", 2, true, len_plus_1, s_builder_map_try_for_each),
        s("builder_flat_map_try_for_each", 3, true, two_len_plus_1, s_flat_map_try_for_each),
        s("send_iter", 2, false, one, s_send_iter),
        s("send_iter_builder_flat_map", 3, false, one, s_send_iter_builder_flat_map),
        s("send_stream", 2, false, one, s_send_stream),
        s("send_stream_builder_filter_map", 3, false, one, s_send_stream_builder_filter_map),
        Scen { hash_order: true, ..s("demux_map", 2, true, one, s_demux_map) },
        Scen { hash_order: true, thorough_only: true, ..s("demux_map3", 3, true, one, s_demux_map3) },
        s("demux_var", 2, true, one, s_demux_var),
        Scen { thorough_only: true, ..s("demux_var3", 3, true, one, s_demux_var3) },
        Scen { hash_order: true, ..s("demux_map_lazy", 2, true, one, s_demux_map_lazy) },
        Scen { hash_order: true, ..s("demux_map_lazy_of_lazy_sink", 2, true, one, s_demux_map_lazy_of_lazy_sink) },
        s("lazy_sink", 2, true, one, s_lazy_sink),
        s("lazy_source", 2, false, one, s_lazy_source),
        s("lazy_sink_source", 1, true, lss_params, s_lazy_sink_source),
        s("chain_map_filter_inspect_flat_map", 3, true, one, s_chain_map_filter_flat_map),
        s("flat_map_flat_map", 3, true, one, s_flat_map_flat_map),
        s("builder_flatten_filter_map", 3, true, one, s_flatten_builder),
        s("builder_map_unzip_flat_map", 3, true, one, s_unzip_flat_map),
        s("builder_map_demux_var_flat_map", 2, true, one, s_demux_var_builder_of_flat_map),
    ]
}

// ------------------------------------------------------------------------------------------------
// Running one case
// ------------------------------------------------------------------------------------------------

#[derive(Clone, Debug, PartialEq, Eq, Hash)]
pub struct Obs {
    faults: Vec<(String, String)>,
    obj_log: BTreeMap<u8, Vec<u8>>,
    drv_log: Vec<u8>,
    polls: BTreeMap<u8, u32>,
    consumed: Vec<(u8, u8)>,
    received: Vec<Vec<u8>>,
    side: Vec<u8>,
    init_calls: BTreeMap<u8, u32>,
    sched: Vec<u8>,
    stream_polled_after_end: u32,
}

fn run_case(sc: &Scen, c: &Case, mut sched: Sched) -> Obs {
    let w: W = Rc::new(RefCell::new(World::default()));
    w.borrow_mut().pend = c.pend.iter().copied().collect();
    let r = catch(|| (sc.run)(c, &w, &mut sched));
    if let Err(m) = r {
        // A RefCell may be left borrowed by the unwinding code; `try_borrow_mut` guards that.
        let kind = if m.starts_with("VF-SCRIPT: init future") {
            "init-future-polled-after-completion".to_string()
        } else {
            let short: String = m.chars().filter(|ch| ch.is_ascii_alphanumeric() || *ch == ' ').take(48).collect();
            format!("panic:{}", short.trim().replace(' ', "_"))
        };
        match w.try_borrow_mut() {
            Ok(mut ww) => {
                if !ww.faults.iter().any(|(k, _)| *k == kind) {
                    ww.faults.push((kind, format!("panicked: {m}")));
                }
            }
            Err(_) => {
                println!("MACHINERY-ERROR: recorder still borrowed after a panic ({m})");
                std::process::exit(2);
            }
        }
    }
    let ww = w.borrow();
    Obs {
        faults: ww.faults.clone(),
        obj_log: ww.obj_log.clone(),
        drv_log: ww.drv_log.clone(),
        polls: ww.polls.clone(),
        consumed: ww.consumed.iter().copied().collect(),
        received: ww.sinks.iter().map(|s| s.items.clone()).collect(),
        side: ww.side.clone(),
        init_calls: ww.init_calls.clone(),
        sched: sched.recorded(),
        stream_polled_after_end: ww.stream_polled_after_end,
    }
}

fn ev_name(code: u8) -> &'static str {
    match code {
        10 => "poll_ready->Pending",
        11 => "poll_ready->Ready",
        20 => "start_send",
        30 => "poll_flush->Pending",
        31 => "poll_flush->Ready",
        40 => "poll_close->Pending",
        41 => "poll_close->Ready",
        50 => "poll_next->Pending",
        51 => "poll_next->Item",
        52 => "poll_next->None",
        60 => "poll->Pending",
        61 => "poll->Ready",
        _ => "?",
    }
}
fn obs_json(o: &Obs) -> Value {
    json!({
        "faults": o.faults.iter().map(|(k,d)| json!({"kind":k,"detail":d})).collect::<Vec<_>>(),
        "received_by_sink": o.received,
        "closure_side_log": o.side,
        "init_calls": o.init_calls.iter().map(|(k,v)| (k.to_string(), json!(v))).collect::<BTreeMap<_,_>>(),
        "object_logs": o.obj_log.iter().map(|(k,v)| (obj_name(*k), json!(v.iter().map(|c| ev_name(*c)).collect::<Vec<_>>()))).collect::<BTreeMap<_,_>>(),
        "driver_log": o.drv_log,
        "pendings_consumed": o.consumed.iter().map(|(o,i)| format!("{} poll#{}", obj_name(*o), i)).collect::<Vec<_>>(),
        "sched": o.sched,
    })
}

pub fn replay(v: &Value) -> bool {
    let Some(c) = case_from(v) else {
        println!("MACHINERY-ERROR: replay case is not a C14 case");
        std::process::exit(2);
    };
    let scs = scenarios();
    let Some(sc) = scs.iter().find(|s| s.name == c.scen) else {
        println!("MACHINERY-ERROR: unknown scenario {}", c.scen);
        std::process::exit(2);
    };
    let tries = if sc.hash_order { 16 } else { 1 };
    let mut violated = false;
    for t in 0..tries {
        let o = run_case(sc, &c, Sched::Replay(c.sched.clone(), 0));
        if t == 0 || !o.faults.is_empty() {
            println!("{}", vf_explore::serde_json::to_string_pretty(&obs_json(&o)).unwrap());
        }
        if !o.faults.is_empty() {
            violated = true;
            break;
        }
    }
    violated
}

// ------------------------------------------------------------------------------------------------
// Exploration
// ------------------------------------------------------------------------------------------------

struct Shard {
    scen: usize,
    len: usize,
    first: u8,
}

pub fn run(rep: &mut Report) {
    let thorough = rep.thorough();
    let max_len: usize = if thorough { 4 } else { 3 };
    let k: usize = if thorough { 3 } else { 2 };
    rep.rule = "one case = (scenario, item symbols, flush-after-item flags, scenario parameter, pending script, interleaving); \
                non-trivial = at least one item and at least one scripted object polled; distinct by the EFFECTIVE case \
                (only pendings that were actually answered count)"
        .into();
    rep.explanation = "real sinktools adaptors driven with the hand-written Sink protocol (poll_ready until Ready, start_send, optional \
                       poll_flush, finally poll_close; futures polled until Ready) with a noop waker; every downstream is a checking sink: \
                       start_send needs a preceding poll_ready->Ready(Ok) with no start_send in between and must not follow a completed close; \
                       at the end each sink must have received exactly the reference sequence (std iterator semantics, keys/indices as address), \
                       every existing downstream is flushed when a flush/send future completes and closed when close completes, init closures ran \
                       at most once (exactly once when items were addressed), scripted init futures panic if polled after completion, \
                       injected try_for_each errors surface and stop consumption at the injected position"
        .into();
    rep.assume("driver re-polls immediately after Pending (noop waker); wake-up behaviour is not part of C14");
    rep.assume("DemuxMap / LazyDemuxSink poll their sinks in std HashMap iteration order, which the harness does not control; pending scripts are per sink and poll index, the oracle is order independent");
    rep.assume("a poll index is counted per scripted object over all of its poll methods; script horizon = polls in the pending-free run + k (a run exceeding it is reported as a cap)");
    rep.assume("scripted input streams are fused; SendStream/SendIter polling their input again after it ended is only counted (observations section)");
    rep.bound("max_items", max_len);
    rep.bound("max_pendings_total_k", k);
    rep.bound("alphabet", "2 or 3 symbols per scenario (3 where the adaptor's behaviour depends on the value)");
    let scs = scenarios();
    let mut shards = vec![];
    for (i, sc) in scs.iter().enumerate() {
        if sc.thorough_only && !thorough {
            continue;
        }
        // the two-actor scenario multiplies by interleavings; keep it one item shorter
        let ml = if sc.name == "lazy_sink_source" { max_len - 1 } else { max_len };
        for len in 0..=ml {
            if len == 0 {
                shards.push(Shard { scen: i, len, first: 0 });
            } else {
                for f in 0..sc.alpha {
                    shards.push(Shard { scen: i, len, first: f as u8 });
                }
            }
        }
    }
    rep.bound("scenarios", json!(scs.iter().filter(|s| thorough || !s.thorough_only).map(|s| s.name).collect::<Vec<_>>()));
    let vm: VioMap = Mutex::new(BTreeMap::new());
    let per_scen: Mutex<BTreeMap<String, Stats>> = Mutex::new(BTreeMap::new());
    let notes: Mutex<BTreeMap<String, u64>> = Mutex::new(BTreeMap::new());
    let horizon_all: Mutex<BTreeSet<String>> = Mutex::new(BTreeSet::new());
    // big shards first
    shards.sort_by_key(|s| std::cmp::Reverse((s.len, scs[s.scen].alpha)));
    let _ = par_map(shards.len(), ncpu().min(16), |si| {
        let sh = &shards[si];
        let sc = &scs[sh.scen];
        let mut st = Stats::new();
        let mut measure_cache: HashMap<(Vec<u8>, Vec<bool>, usize), BTreeMap<u8, u32>> = HashMap::new();
        let mut after_end_runs = 0u64;
        let mut horizon_exceeded: BTreeSet<String> = BTreeSet::new();
        let es = explore(Some(k), 400_000_000, |ch| {
            let mut c = Case { scen: sc.name.to_string(), ..Default::default() };
            for i in 0..sh.len {
                c.syms.push(if i == 0 { sh.first } else { ch.choose_free(sc.alpha) as u8 });
            }
            if sc.has_flush {
                for _ in 0..sh.len {
                    c.flush.push(ch.choose_free(2) == 1);
                }
            }
            let np = (sc.nparam)(sh.len);
            c.param = if np > 1 { ch.choose_free(np) } else { 0 };
            let base = measure_cache
                .entry((c.syms.clone(), c.flush.clone(), c.param))
                .or_insert_with(|| {
                    // pending-free runs under both extreme interleavings (identical for one-actor scenarios)
                    let mut m = run_case(sc, &c, Sched::Const(0)).polls;
                    for (o, n) in run_case(sc, &c, Sched::Const(1)).polls {
                        let e = m.entry(o).or_insert(0);
                        *e = (*e).max(n);
                    }
                    m
                })
                .clone();
            // One Pending makes the driver retry one top-level call; a retry polls an object at most
            // once more for sinks, at most twice more for the send futures (poll_ready + poll_flush).
            let hz = |n: u32| n as usize + k * if sc.has_flush { 1 } else { 2 };
            for (obj, n) in &base {
                for idx in 0..hz(*n) {
                    if ch.choose(2) == 1 {
                        c.pend.push((*obj, idx as u8));
                    }
                }
            }
            let o = run_case(sc, &c, Sched::Explore(ch, vec![]));
            c.sched = o.sched.clone();
            st.eval();
            for (obj, n) in &o.polls {
                let h = hz(base.get(obj).copied().unwrap_or(0));
                if *n as usize > h && o.faults.is_empty() {
                    horizon_exceeded.insert(format!("{}: {} was polled more often than its pending-script horizon (polls in the pending-free run + {}k)", sc.name, obj_name(*obj), if sc.has_flush { 1 } else { 2 }));
                }
            }
            if !c.syms.is_empty() && o.polls.values().any(|n| *n > 0) {
                st.nontrivial(&(&c.scen, &c.syms, &c.flush, c.param, &o.consumed, &c.sched));
            } else if !c.syms.is_empty() {
                // closure-terminated chains have no scripted object; still distinct inputs
                st.nontrivial(&(&c.scen, &c.syms, &c.flush, c.param));
            }
            st.outcome(&(&c.scen, &o.obj_log, &o.drv_log, &o.received, &o.side, o.faults.iter().map(|f| &f.0).collect::<Vec<_>>()));
            if o.stream_polled_after_end > 0 {
                after_end_runs += 1;
            }
            if c.syms.len() >= 2 && !o.consumed.is_empty() {
                st.sample(|| json!({"case": case_json(&c), "observed": obs_json(&o)}));
            }
            if !o.faults.is_empty() {
                // re-execute before reporting
                let tries = if sc.hash_order { 16 } else { 1 };
                let kinds = |o: &Obs| o.faults.iter().map(|f| f.0.clone()).collect::<Vec<_>>();
                let mut reproduced = false;
                for _ in 0..tries {
                    let again = run_case(sc, &c, Sched::Replay(c.sched.clone(), 0));
                    if kinds(&again) == kinds(&o) {
                        reproduced = true;
                        break;
                    }
                }
                if !reproduced {
                    println!("MACHINERY-ERROR: property=C14 failing case does not reproduce: {}", case_json(&c));
                    std::process::exit(2);
                }
                let rank = c.syms.len() * 1000 + c.pend.len() * 100 + c.flush.iter().filter(|b| **b).count() * 10 + c.sched.iter().filter(|b| **b != 0).count();
                for (kind, d) in &o.faults {
                    // The split-step mode of lazy_sink_source (the other half is polled BETWEEN the sink
                    // half's poll_ready and start_send) gets its own key so that a known finding
                    // about that mode can never mask a violation of the atomic-send mode.
                    let scen_key = if sc.name == "lazy_sink_source" && c.param & 1 == 1 { "lazy_sink_source[split-step]" } else { sc.name };
                    record_violation(&vm, format!("C14:{}:{}", scen_key, kind), rank, || (format!("{}: {}", sc.name, d), case_json(&c)));
                }
            }
        });
        horizon_all.lock().unwrap().extend(horizon_exceeded);
        if es.capped {
            st.cap(format!("C14 shard {} len={} first={} capped at {} executions", sc.name, sh.len, sh.first, es.executions));
        }
        if after_end_runs > 0 {
            *notes.lock().unwrap().entry(format!("{}: runs in which the input stream was polled again after it ended", sc.name)).or_insert(0) += after_end_runs;
        }
        per_scen.lock().unwrap().entry(sc.name.to_string()).or_default().merge(st);
        Stats::new()
    });
    let per = per_scen.into_inner().unwrap();
    for (name, st) in per {
        rep.section(&name, st);
    }
    let mut vst = Stats::new();
    for h in horizon_all.into_inner().unwrap() {
        vst.cap(h);
    }
    flush_violations(vm, &mut vst);
    rep.section("~violations", vst);
    rep.sections.insert("observations".into(), json!(notes.into_inner().unwrap()));
}
