//! Engine `vf_sinks`: C14 (sink adaptors) and C15 (merged network sources).
//!
//! Both properties are decided by exhaustive, deviation-bounded enumeration
//! (`vf_explore::explore`) of scripted environments around the REAL `/repo` code
//! (`sinktools`, `hydro_deploy_integration::{MergeSource, TaggedSource}`).
use vf_explore::{Report, cli, quiet_panics};

mod c14;
mod c15;

fn main() {
    let cli = cli();
    quiet_panics();
    if let Some(file) = &cli.replay {
        let txt = std::fs::read_to_string(file).unwrap_or_else(|e| {
            println!("MACHINERY-ERROR: cannot read replay file {file}: {e}");
            std::process::exit(2);
        });
        let v: vf_explore::Value = vf_explore::serde_json::from_str(&txt).unwrap_or_else(|e| {
            println!("MACHINERY-ERROR: replay file is not JSON: {e}");
            std::process::exit(2);
        });
        let case = v.get("case").cloned().unwrap_or(v);
        let violated = match cli.property.as_str() {
            "C14" => c14::replay(&case),
            "C15" => c15::replay(&case),
            p => {
                println!("MACHINERY-ERROR: vf_sinks does not serve property {p}");
                std::process::exit(2);
            }
        };
        std::process::exit(if violated { 1 } else { 0 });
    }
    let mut rep = Report::new(&cli.property, &cli.tier, "vf_sinks");
    match cli.property.as_str() {
        "C14" => c14::run(&mut rep),
        "C15" => c15::run(&mut rep),
        p => {
            println!("MACHINERY-ERROR: vf_sinks does not serve property {p}");
            std::process::exit(2);
        }
    }
    rep.finish();
}
