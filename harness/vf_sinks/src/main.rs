fn main() {}
