//! C15 — merged network sources keep per-sender order and lose nothing.
//!
//! Subject: the real `MergeSource` over 1–5 real `TaggedSource`s (hook H2 constructors), each
//! wrapping a scripted stream. A script is a finite sequence over {Item, Pending} followed by
//! `Ended`; one answer is consumed per poll. ALL scripts within (max items, max pendings) per
//! source are enumerated (plain exhaustive DFS of `vf_explore::explore`, every point a free point).
use std::collections::BTreeMap;
use std::pin::Pin;
use std::sync::{Arc, Mutex};
use std::task::{Context, Poll};

use futures::Stream;
use futures::task::noop_waker_ref;
use hydro_deploy_integration::{MergeSource, TaggedSource};
use vf_explore::{Chooser, Report, Stats, Value, catch, explore, json, ncpu, par_map};

/// Tags deliberately differ from the positional index and are not sorted.
const TAGS: [u32; 5] = [7, 3, 9, 5, 1];

#[derive(Clone, Copy, PartialEq, Eq, Hash, Debug)]
enum A {
    Item,
    Pend,
}
type Script = Vec<A>;

fn script_str(s: &Script) -> String {
    let mut o: String = s.iter().map(|a| if *a == A::Item { 'I' } else { 'P' }).collect();
    o.push('E');
    o
}
fn script_from(s: &str) -> Script {
    s.chars()
        .filter_map(|c| match c {
            'I' => Some(A::Item),
            'P' => Some(A::Pend),
            _ => None,
        })
        .collect()
}

struct Shared {
    scripts: Vec<Script>,
    pos: Vec<usize>,
    ended: Vec<bool>,
    produced: Vec<u8>,
    /// (source, 0 = item / 1 = pending / 2 = ended) in poll order
    events: Vec<(usize, u8)>,
}

struct Src {
    i: usize,
    sh: Arc<Mutex<Shared>>,
}
impl Stream for Src {
    type Item = Result<u8, std::io::Error>;
    fn poll_next(self: Pin<&mut Self>, _cx: &mut Context<'_>) -> Poll<Option<Self::Item>> {
        let i = self.i;
        let mut s = self.sh.lock().unwrap_or_else(|e| e.into_inner());
        if s.ended[i] {
            drop(s);
            panic!("VF-SCRIPT: source {i} polled after it returned Ended");
        }
        let p = s.pos[i];
        s.pos[i] += 1;
        match s.scripts[i].get(p).copied() {
            Some(A::Item) => {
                let v = s.produced[i];
                s.produced[i] += 1;
                s.events.push((i, 0));
                Poll::Ready(Some(Ok(v)))
            }
            Some(A::Pend) => {
                s.events.push((i, 1));
                Poll::Pending
            }
            None => {
                s.ended[i] = true;
                s.events.push((i, 2));
                Poll::Ready(None)
            }
        }
    }
}

#[derive(Clone, Debug, PartialEq, Eq, Hash)]
enum Res {
    Item(u32, u8),
    ErrItem,
    Pending,
    None,
    Panic(String),
}

#[derive(Clone, Debug, PartialEq, Eq, Hash)]
struct Call {
    /// sources whose next scripted answer is an item when the call starts (bit per source)
    ready_mask: u8,
    /// sources that have not yet returned Ended when the call starts
    live_mask: u8,
    res: Res,
    /// what the scripted sources were asked during the call
    polled: Vec<(usize, u8)>,
    /// (poll_cursor, live sources) after the call
    state: Option<(usize, usize)>,
}

#[derive(Clone, Debug, PartialEq, Eq, Hash)]
pub struct Obs {
    calls: Vec<Call>,
    faults: Vec<(String, String)>,
}

fn run_case(scripts: &[Script]) -> Obs {
    let n = scripts.len();
    let sh = Arc::new(Mutex::new(Shared {
        scripts: scripts.to_vec(),
        pos: vec![0; n],
        ended: vec![false; n],
        produced: vec![0; n],
        events: vec![],
    }));
    let sources: Vec<Pin<Box<TaggedSource<u8, Src>>>> = (0..n)
        .map(|i| Box::pin(TaggedSource::verif_new(TAGS[i], Box::pin(Src { i, sh: sh.clone() }))))
        .collect();
    let mut merge: MergeSource<Result<(u32, u8), std::io::Error>, TaggedSource<u8, Src>> =
        MergeSource::verif_new(sources);
    let total: usize = scripts.iter().map(|s| s.len() + 1).sum();
    let horizon = total + 2;
    let mut cx = Context::from_waker(noop_waker_ref());
    let mut calls: Vec<Call> = vec![];
    let mut faults: Vec<(String, String)> = vec![];
    let mut fault = |k: &str, d: String| {
        if !faults.iter().any(|(kk, _)| kk == k) {
            faults.push((k.to_string(), d));
        }
    };
    let mut finished = false;
    for t in 0..horizon {
        let (ready_mask, live_mask, ev0) = {
            let s = sh.lock().unwrap_or_else(|e| e.into_inner());
            let mut rm = 0u8;
            let mut lm = 0u8;
            for i in 0..n {
                if !s.ended[i] {
                    lm |= 1 << i;
                    if s.scripts[i].get(s.pos[i]) == Some(&A::Item) {
                        rm |= 1 << i;
                    }
                }
            }
            (rm, lm, s.events.len())
        };
        let r = catch(|| Pin::new(&mut merge).poll_next(&mut cx));
        let polled: Vec<(usize, u8)> = {
            let s = sh.lock().unwrap_or_else(|e| e.into_inner());
            s.events[ev0..].to_vec()
        };
        let state = catch(|| merge.verif_state()).ok();
        let res = match r {
            Ok(Poll::Ready(Some(Ok((tag, v))))) => Res::Item(tag, v),
            Ok(Poll::Ready(Some(Err(_)))) => Res::ErrItem,
            Ok(Poll::Ready(None)) => Res::None,
            Ok(Poll::Pending) => Res::Pending,
            Err(m) => Res::Panic(m),
        };
        let all_ended_after = {
            let s = sh.lock().unwrap_or_else(|e| e.into_inner());
            s.ended.iter().all(|e| *e)
        };
        // --- per-call oracle -------------------------------------------------------------
        match &res {
            Res::Panic(m) => {
                if m.starts_with("VF-SCRIPT") {
                    fault("polled-after-end", format!("call {t}: {m}"));
                } else {
                    fault("panic", format!("call {t}: poll_next panicked: {m}"));
                }
            }
            Res::None => {
                if !all_ended_after {
                    fault(
                        "early-none",
                        format!("call {t}: Ready(None) although a source has not ended"),
                    );
                }
            }
            Res::ErrItem => fault("unexpected-err", format!("call {t}: Err item never scripted")),
            _ => {}
        }
        if all_ended_after && !matches!(res, Res::None | Res::Panic(_)) {
            fault(
                "missed-none",
                format!("call {t}: the last source ended in this call but it returned {res:?}, not Ready(None)"),
            );
        }
        if let Some((cur, live)) = state {
            if !(cur < live || (cur == 0 && live == 0)) {
                fault(
                    "cursor-invariant",
                    format!("after call {t}: poll_cursor={cur}, live sources={live}"),
                );
            }
        } else {
            fault("panic", format!("after call {t}: verif_state panicked"));
        }
        let stop = matches!(res, Res::None | Res::Panic(_));
        calls.push(Call { ready_mask, live_mask, res, polled, state });
        if stop {
            finished = true;
            break;
        }
    }
    if !finished {
        fault(
            "no-termination",
            format!("no Ready(None) within {horizon} polls (all scripts have {total} answers in total)"),
        );
    }
    // --- whole-run oracle ------------------------------------------------------------------
    // per-source order + multiset + tags
    let mut per: BTreeMap<u32, Vec<u8>> = BTreeMap::new();
    for c in &calls {
        if let Res::Item(tag, v) = &c.res {
            per.entry(*tag).or_default().push(*v);
        }
    }
    let terminated_clean = calls.last().is_some_and(|c| c.res == Res::None);
    for (tag, got) in &per {
        match TAGS[..n].iter().position(|t| t == tag) {
            None => fault("wrong-tag", format!("output carries tag {tag} which no source has")),
            Some(i) => {
                let want: Vec<u8> =
                    (0..scripts[i].iter().filter(|a| **a == A::Item).count() as u8).collect();
                let mut sorted = got.clone();
                sorted.sort();
                let is_prefix_set = sorted.windows(2).all(|w| w[0] != w[1]);
                if !is_prefix_set {
                    fault("repeated-item", format!("source tag {tag}: got {got:?}, produced {want:?}"));
                } else if got.windows(2).any(|w| w[0] > w[1]) {
                    fault("order", format!("source tag {tag}: got {got:?}, produced {want:?}"));
                } else if got.iter().any(|v| !want.contains(v)) {
                    fault("wrong-tag", format!("source tag {tag}: got {got:?}, produced {want:?}"));
                }
            }
        }
    }
    if terminated_clean {
        for i in 0..n {
            let want: Vec<u8> =
                (0..scripts[i].iter().filter(|a| **a == A::Item).count() as u8).collect();
            let got = per.get(&TAGS[i]).cloned().unwrap_or_default();
            let mut g = got.clone();
            g.sort();
            if g != want && g.len() < want.len() {
                fault("lost-item", format!("source tag {}: got {got:?}, produced {want:?}", TAGS[i]));
            }
        }
    }
    // an item consumed from a script but not returned by that call is lost immediately
    for (t, c) in calls.iter().enumerate() {
        let items: Vec<usize> = c.polled.iter().filter(|(_, k)| *k == 0).map(|(i, _)| *i).collect();
        let returned = matches!(c.res, Res::Item(..)) as usize;
        if items.len() > returned && !matches!(c.res, Res::Panic(_)) {
            fault(
                "lost-item",
                format!("call {t}: sources {items:?} handed out an item but the call returned {:?}", c.res),
            );
        }
    }
    // fairness: between two consecutive outputs of X, every other source that had an item ready
    // at the start of every call of the interval was served at least once.
    let served: Vec<Option<usize>> = calls
        .iter()
        .map(|c| match &c.res {
            Res::Item(tag, _) => TAGS[..n].iter().position(|t| t == tag),
            _ => None,
        })
        .collect();
    for x in 0..n {
        let xs: Vec<usize> = (0..calls.len()).filter(|t| served[*t] == Some(x)).collect();
        for w in xs.windows(2) {
            let (t1, t2) = (w[0], w[1]);
            for y in 0..n {
                if y == x {
                    continue;
                }
                let always_ready = (t1 + 1..=t2).all(|t| calls[t].ready_mask >> y & 1 == 1);
                let was_served = (t1 + 1..t2).any(|t| served[t] == Some(y));
                if always_ready && !was_served {
                    fault(
                        "fairness",
                        format!(
                            "source #{x} (tag {}) was served in calls {t1} and {t2}, source #{y} (tag {}) had an item ready at the start of every call in between and was not served",
                            TAGS[x], TAGS[y]
                        ),
                    );
                }
            }
        }
    }
    Obs { calls, faults }
}

fn case_json(scripts: &[Script]) -> Value {
    json!({ "scripts": scripts.iter().map(script_str).collect::<Vec<_>>(),
            "tags": TAGS[..scripts.len()].to_vec() })
}

fn obs_json(o: &Obs) -> Value {
    json!({
        "calls": o.calls.iter().map(|c| json!({
            "ready_mask": c.ready_mask, "live_mask": c.live_mask,
            "result": format!("{:?}", c.res),
            "sources_polled": c.polled.iter().map(|(i,k)| format!("#{i}:{}", ["item","pending","ended"][*k as usize])).collect::<Vec<_>>(),
            "cursor_live_after": c.state.map(|(a,b)| vec![a,b]),
        })).collect::<Vec<_>>(),
        "faults": o.faults.iter().map(|(k,d)| json!({"kind":k,"detail":d})).collect::<Vec<_>>(),
    })
}

pub fn replay(case: &Value) -> bool {
    let scripts: Vec<Script> = case
        .get("scripts")
        .and_then(|s| s.as_array())
        .map(|a| a.iter().filter_map(|x| x.as_str()).map(script_from).collect())
        .unwrap_or_default();
    if scripts.is_empty() || scripts.len() > TAGS.len() {
        println!("MACHINERY-ERROR: replay case needs 1..=5 scripts");
        std::process::exit(2);
    }
    let o = run_case(&scripts);
    println!("{}", vf_explore::serde_json::to_string_pretty(&obs_json(&o)).unwrap());
    !o.faults.is_empty()
}

/// All scripts with at most `mi` items and `mp` pendings, drawn answer by answer.
fn draw_script(ch: &mut Chooser, mi: usize, mp: usize) -> Script {
    let mut s = vec![];
    let (mut ni, mut np) = (0, 0);
    loop {
        // option 0 = Ended (the boring default), then Item, then Pending where still allowed
        let mut opts: Vec<Option<A>> = vec![None];
        if ni < mi {
            opts.push(Some(A::Item));
        }
        if np < mp {
            opts.push(Some(A::Pend));
        }
        match opts[ch.choose_free(opts.len())] {
            None => return s,
            Some(A::Item) => {
                ni += 1;
                s.push(A::Item)
            }
            Some(A::Pend) => {
                np += 1;
                s.push(A::Pend)
            }
        }
    }
}

fn all_scripts(mi: usize, mp: usize) -> Vec<Script> {
    let mut out = vec![];
    explore(None, u64::MAX, |ch| out.push(draw_script(ch, mi, mp)));
    out
}

pub type VioMap = Mutex<BTreeMap<String, (usize, String, Value, u64)>>;

/// Keep, per canonical key, the smallest failing case (rank, then JSON text as a deterministic
/// tie-break) so the reported sample does not depend on thread scheduling.
pub fn record_violation(vm: &VioMap, key: String, rank: usize, make: impl FnOnce() -> (String, Value)) {
    let mut m = vm.lock().unwrap();
    let e = m.entry(key).or_insert((usize::MAX, String::new(), Value::Null, 0));
    e.3 += 1;
    if rank > e.0 {
        return;
    }
    let (what, replay) = make();
    if rank < e.0 || replay.to_string() < e.2.to_string() {
        e.0 = rank;
        e.1 = what;
        e.2 = replay;
    }
}

pub fn flush_violations(vm: VioMap, st: &mut Stats) {
    for (k, (_, what, replay, count)) in vm.into_inner().unwrap() {
        st.violation(k, format!("{what} [{count} failing executions share this key]"), replay);
        st.violations_total += count.saturating_sub(1);
    }
}

pub fn run(rep: &mut Report) {
    let thorough = rep.thorough();
    // (number of sources, max items per source, max pendings per source)
    let configs: Vec<(usize, usize, usize)> = if thorough {
        vec![(1, 3, 3), (2, 4, 4), (3, 3, 3), (3, 4, 3), (4, 3, 2), (5, 2, 2)]
    } else {
        vec![(1, 2, 2), (2, 3, 3), (3, 3, 2), (4, 2, 2)]
    };
    rep.rule = "one case = one tuple of per-source scripts (sequence over {Item,Pending} then Ended, one answer per poll), \
                enumerated exhaustively within (max items, max pendings) per source; non-trivial = at least two sources and \
                at least one item; distinct by the script tuple"
        .into();
    rep.explanation = "real MergeSource over real TaggedSources (hook H2) polled with a noop waker until Ready(None); checked after every \
                       poll: Ready(None) iff all sources ended (the call in which the last one ends returns None), cursor invariant \
                       (poll_cursor < live sources or both 0), no panic, no source polled after Ended, no item consumed but not returned; \
                       at the end: per-source order, multiset equality with correct tags, round-robin fairness (a source with an item \
                       ready at the start of every call between two consecutive outputs of X is served in between)"
        .into();
    rep.assume("readiness of a scripted source is indexed by its own poll count (an answer is consumed only when the source is polled)");
    rep.assume("MultiConnectionSource/TcpMultiConnectionSource in multi_connection.rs contain a textual copy of the same round-robin loop but need real sockets; only MergeSource/TaggedSource are executed");
    rep.assume("consumer never polls again after Ready(None)");
    rep.bound("configs_(sources,max_items,max_pendings)", json!(configs));
    for (n, mi, mp) in configs {
        let firsts = all_scripts(mi, mp);
        let vm: VioMap = Mutex::new(BTreeMap::new());
        let mut st = par_map(firsts.len(), ncpu().min(16), |shard| {
            let mut st = Stats::new();
            let es = explore(None, 200_000_000, |ch| {
                let mut scripts = vec![firsts[shard].clone()];
                for _ in 1..n {
                    scripts.push(draw_script(ch, mi, mp));
                }
                let o = run_case(&scripts);
                st.eval();
                let items: usize = scripts.iter().flatten().filter(|a| **a == A::Item).count();
                if n >= 2 && items >= 1 {
                    st.nontrivial(&scripts);
                }
                st.outcome(&o);
                if n >= 2 && items >= 2 {
                    st.sample(|| json!({"case": case_json(&scripts), "observed": obs_json(&o)}));
                }
                if !o.faults.is_empty() {
                    let again = run_case(&scripts);
                    if again != o {
                        println!(
                            "MACHINERY-ERROR: property=C15 failing case does not reproduce: {}",
                            case_json(&scripts)
                        );
                        std::process::exit(2);
                    }
                    let rank: usize = scripts.iter().map(|s| s.len() + 1).sum::<usize>() + 100 * n;
                    for (k, d) in &o.faults {
                        record_violation(
                            &vm,
                            format!("C15:{k}"),
                            rank,
                            || (format!("{d}; scripts {:?}", scripts.iter().map(script_str).collect::<Vec<_>>()), case_json(&scripts)),
                        );
                    }
                }
            });
            if es.capped {
                st.cap(format!("C15 shard n={n} first={} capped at {} executions", script_str(&firsts[shard]), es.executions));
            }
            st
        });
        flush_violations(vm, &mut st);
        rep.section(&format!("sources={n},items<={mi},pendings<={mp}"), st);
    }
}
