use vf_explore::Value;
use crate::classes::{Acc, Classes};
pub const NAME: &str = "colt(u8,u8,u8)";
pub fn run(_idx: u64, _threads: usize) -> Acc { Acc::new() }
pub fn replay_case(_case: &Value, _verbose: bool) -> Classes { Classes::new() }
