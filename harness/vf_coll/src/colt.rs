//! C08 (thorough): the COLT forest (`lattices::ght::colt`, `ColtType!(u8,u8,u8)`): BFS over histories
//! of `insert` (into the first, height-0 trie) and `ColtGet::get` paths of length 1..=3.
//!
//! Oracle (no more than the statement + the forest's documented purpose):
//!   1. conservation — the multiset union of the four tries' `recursive_iter` is exactly the multiset
//!      of inserted rows (the leaves are column multisets: duplicates are kept);
//!   2. prefix lookup — the nodes returned by `get(k1)[.get(k2)[.get(k3)]]` together hold exactly the
//!      inserted rows with that prefix;
//!   3. well-formedness — inside every trie each row sits under its own key path (`GhtGet` walk), and
//!      `contains` agrees with the trie's own rows.
//! Which trie a row currently lives in (lazy forcing) is NOT judged.
use std::collections::{BTreeMap, HashMap};

use lattices::ColtType;
use lattices::ght::colt::ColtGet;
use lattices::ght::{GeneralizedHashTrieNode, GhtGet};
use variadics::{VariadicExt, var_args, var_expr, var_type};
use vf_explore::{Stats, Value, catch, json};

use crate::c08::{Reveal, Row, all_rows};
use crate::classes::{Acc, Classes};

pub const NAME: &str = "colt(u8,u8,u8)";
type V3 = var_type!(u8, u8, u8);
pub type Forest = ColtType!(u8, u8, u8);
pub type MModel = BTreeMap<Row, usize>;

static K: [u8; 3] = [0, 1, 2];

fn un(r: var_type!(&u8, &u8, &u8)) -> Row {
    let var_args!(a, b, c) = r;
    (*a, *b, *c)
}
fn rows_of<N: GeneralizedHashTrieNode<Schema = V3>>(n: &N) -> Vec<Row> {
    n.recursive_iter().map(un).collect()
}

#[derive(Clone, Debug, PartialEq, Eq, Hash)]
pub enum Op {
    Insert(Row),
    Get(Vec<u8>),
}
fn op_json(op: &Op) -> Value {
    match op {
        Op::Insert(r) => json!({"insert": [r.0, r.1, r.2]}),
        Op::Get(p) => json!({"get": p}),
    }
}
fn op_of(v: &Value) -> Op {
    if let Some(r) = v.get("insert") {
        let a = r.as_array().unwrap();
        Op::Insert((a[0].as_u64().unwrap() as u8, a[1].as_u64().unwrap() as u8, a[2].as_u64().unwrap() as u8))
    } else {
        Op::Get(v["get"].as_array().unwrap().iter().map(|x| x.as_u64().unwrap() as u8).collect())
    }
}
fn op_str(op: &Op) -> String {
    match op {
        Op::Insert(r) => format!("i{}{}{}", r.0, r.1, r.2),
        Op::Get(p) => format!("g{}", p.iter().map(|d| d.to_string()).collect::<String>()),
    }
}
fn hist_str(h: &[Op]) -> String {
    h.iter().map(op_str).collect::<Vec<_>>().join(";")
}
pub fn alphabet() -> Vec<Op> {
    let mut o: Vec<Op> = all_rows().into_iter().map(Op::Insert).collect();
    for a in 0..2u8 {
        o.push(Op::Get(vec![a]));
        for b in 0..2u8 {
            o.push(Op::Get(vec![a, b]));
            for c in 0..2u8 {
                o.push(Op::Get(vec![a, b, c]));
            }
        }
    }
    o
}

/// Structural reveal of the four tries through `GhtGet` (empty children created by `get` included).
pub fn reveal4(f: &Forest) -> [Reveal; 4] {
    let var_args!(t0, t1, t2, t3) = f;
    [
        leaf_rv!(t0, &0u8),
        inner_rv!(t1, |c| leaf_rv!(c, &0u8)),
        inner_rv!(t2, |c| inner_rv!(c, |d| leaf_rv!(d, &0u8))),
        inner_rv!(t3, |c| inner_rv!(c, |d| inner_rv!(d, |e| leaf_rv!(e, &())))),
    ]
}

/// rows of a reveal together with the key path they sit under; also flags structural nonsense
fn walk(r: &Reveal, path: &mut Vec<u8>, out: &mut Vec<(Vec<u8>, Row)>, bad: &mut Vec<String>) {
    match r {
        Reveal::Leaf { rows, spurious } => {
            if *spurious > 0 {
                bad.push(format!("leaf under {path:?} answers iter()/get()"));
            }
            for row in rows {
                out.push((path.clone(), *row));
            }
        }
        Reveal::Inner { heads, children, spurious } => {
            if *spurious > 0 {
                bad.push(format!("inner node under {path:?} yields tuples"));
            }
            let ck: Vec<u8> = children.iter().map(|(h, _)| *h).collect();
            if *heads != ck {
                bad.push(format!("inner node under {path:?}: iter() lists {heads:?} but get() answers for {ck:?}"));
            }
            for (h, c) in children {
                path.push(*h);
                walk(c, path, out, bad);
                path.pop();
            }
        }
    }
}

fn do_insert(f: &mut Forest, r: Row) -> bool {
    f.0.insert(var_expr!(r.0, r.1, r.2))
}

/// `ColtGet::get` along `path`; returns the rows held by the returned nodes.
fn do_get(f: &mut Forest, path: &[u8]) -> Vec<Row> {
    let k: Vec<&'static u8> = path.iter().map(|p| &K[*p as usize]).collect();
    let g1 = ColtGet::get(f.as_mut_var(), k[0]);
    if path.len() == 1 {
        let var_args!(a, b, c) = g1;
        let mut o = rows_of(&*a);
        o.extend(rows_of(&*b));
        o.extend(rows_of(&*c));
        return o;
    }
    let g2 = ColtGet::get(g1, k[1]);
    if path.len() == 2 {
        let var_args!(a, b) = g2;
        let mut o = rows_of(&*a);
        o.extend(rows_of(&*b));
        return o;
    }
    let g3 = ColtGet::get(g2, k[2]);
    let var_args!(a) = g3;
    rows_of(&*a)
}

fn contains4(f: &Forest, r: Row) -> [bool; 4] {
    let var_args!(t0, t1, t2, t3) = f;
    let rr = || var_expr!(&r.0, &r.1, &r.2);
    [t0.contains(rr()), t1.contains(rr()), t2.contains(rr()), t3.contains(rr())]
}

fn model_items(m: &MModel) -> Vec<Row> {
    let mut o = vec![];
    for (r, c) in m {
        for _ in 0..*c {
            o.push(*r);
        }
    }
    o
}
fn model_str(m: &MModel) -> String {
    let parts: Vec<String> = m.iter().map(|(r, c)| format!("{}{}{}x{}", r.0, r.1, r.2, c)).collect();
    format!("{{{}}}", parts.join(","))
}

type Sink<'a> = &'a mut dyn FnMut(&str, String);

pub fn check_state(f: &Forest, m: &MModel, sink: Sink, st: &mut Stats) {
    st.evaluations += 1;
    let r = catch(|| {
        let mut bad: Vec<(&'static str, String)> = vec![];
        let rv = reveal4(f);
        let var_args!(t0, t1, t2, t3) = f;
        let iter_rows: [Vec<Row>; 4] = [rows_of(t0), rows_of(t1), rows_of(t2), rows_of(t3)];
        let mut all: Vec<Row> = iter_rows.iter().flatten().cloned().collect();
        all.sort();
        if all != model_items(m) {
            bad.push(("conservation/wrong", format!("the tries hold {all:?}, inserted were {:?}", model_items(m))));
        }
        for (i, r) in rv.iter().enumerate() {
            let mut located = vec![];
            let mut sbad = vec![];
            walk(r, &mut vec![], &mut located, &mut sbad);
            for s in sbad {
                bad.push(("structure/wrong", format!("trie {i}: {s}")));
            }
            for (path, row) in &located {
                let cols = [row.0, row.1, row.2];
                if path.len() != i || path[..] != cols[..i] {
                    bad.push(("structure/wrong", format!("trie {i}: row {row:?} sits under key path {path:?}")));
                }
            }
            let mut a: Vec<Row> = located.iter().map(|(_, r)| *r).collect();
            a.sort();
            let mut b = iter_rows[i].clone();
            b.sort();
            if a != b {
                bad.push(("recursive_iter/wrong", format!("trie {i}: recursive_iter {b:?} but the GhtGet walk finds {a:?}")));
            }
        }
        for row in all_rows() {
            let c = contains4(f, row);
            for i in 0..4 {
                if c[i] != iter_rows[i].contains(&row) {
                    bad.push(("contains/wrong", format!("trie {i}: contains({row:?}) = {}, its rows are {:?}", c[i], iter_rows[i])));
                }
            }
        }
        bad
    });
    match r {
        Ok(bad) => {
            for (c, d) in bad {
                sink(c, d);
            }
        }
        Err(p) => sink("observe/panic", format!("observing the forest panicked: {p}")),
    }
}

pub fn apply(f: &mut Forest, m: &mut MModel, op: &Op, sink: Sink, st: &mut Stats) {
    st.evaluations += 1;
    st.transitions += 1;
    match op {
        Op::Insert(r) => {
            *m.entry(*r).or_insert(0) += 1;
            if let Err(p) = catch(|| do_insert(f, *r)) {
                sink("insert/panic", format!("insert({r:?}) panicked: {p}"));
            }
        }
        Op::Get(path) => {
            let mut want: Vec<Row> = model_items(m)
                .into_iter()
                .filter(|r| {
                    let cols = [r.0, r.1, r.2];
                    cols[..path.len()] == path[..]
                })
                .collect();
            want.sort();
            match catch(|| do_get(f, path)) {
                Ok(mut got) => {
                    got.sort();
                    st.outcome(&("colt_get", path.len(), got.len()));
                    if got != want {
                        sink("get/wrong", format!("get{path:?} returns nodes holding {got:?}, inserted rows with that prefix: {want:?}"));
                    }
                }
                Err(p) => sink("get/panic", format!("get{path:?} panicked: {p}")),
            }
        }
    }
}

fn record(hist: &[Op], m: &MModel, hits: Vec<(String, String)>, order: (u64, u64), acc: &mut Acc) {
    for (c, d) in hits {
        acc.cl.hit(&format!("{NAME}/{c}"), order, || {
            (
                format!("history={}", hist_str(hist)),
                format!("{NAME} after [{}] (inserted {}): {d}", hist_str(hist), model_str(m)),
                json!({"shape": NAME, "kind": "history", "ops": hist.iter().map(op_json).collect::<Vec<_>>()}),
            )
        });
    }
}

pub fn run(shape_idx: u64, depth: usize) -> Acc {
    let mut acc = Acc::new();
    let ops = alphabet();
    struct S {
        f: Forest,
        m: MModel,
        hist: Vec<Op>,
    }
    let mut index: HashMap<[Reveal; 4], usize> = HashMap::new();
    let mut states: Vec<S> = vec![];
    let mut order = 0u64;
    let root = S { f: Forest::default(), m: MModel::new(), hist: vec![] };
    index.insert(reveal4(&root.f), 0);
    let mut hits = vec![];
    check_state(&root.f, &root.m, &mut |c, d| hits.push((c.to_string(), d)), &mut acc.st);
    record(&root.hist, &root.m, hits, (shape_idx * 10, 0), &mut acc);
    acc.st.states += 1;
    states.push(root);
    let mut frontier = 0usize;
    for _round in 0..depth {
        let n = states.len();
        for s in frontier..n {
            for op in &ops {
                let mut f = states[s].f.clone();
                let mut m = states[s].m.clone();
                let mut hist = states[s].hist.clone();
                hist.push(op.clone());
                let mut hits = vec![];
                apply(&mut f, &mut m, op, &mut |c, d| hits.push((c.to_string(), d)), &mut acc.st);
                order += 1;
                record(&hist, &m, hits, (shape_idx * 10 + 1, order), &mut acc);
                // canon: the four tries' full GhtGet reveal (rows, heads, empty children). The only
                // field not revealed is GhtLeaf::forced, which no code path reads.
                let rv = reveal4(&f);
                if index.contains_key(&rv) {
                    continue;
                }
                index.insert(rv, states.len());
                acc.st.states += 1;
                acc.st.traces += 1;
                acc.st.nontrivial(&(NAME, hist_str(&hist)));
                let mut hits = vec![];
                check_state(&f, &m, &mut |c, d| hits.push((c.to_string(), d)), &mut acc.st);
                record(&hist, &m, hits, (shape_idx * 10, order), &mut acc);
                states.push(S { f, m, hist });
            }
        }
        frontier = n;
    }
    acc.count_n(&format!("{NAME}:states"), states.len() as u64);
    acc
}

pub fn replay_case(case: &Value, verbose: bool) -> Classes {
    let ops: Vec<Op> = case["ops"].as_array().expect("ops").iter().map(op_of).collect();
    let mut acc = Acc::new();
    let mut f = Forest::default();
    let mut m = MModel::new();
    let mut hist = vec![];
    for op in &ops {
        hist.push(op.clone());
        let mut hits = vec![];
        apply(&mut f, &mut m, op, &mut |c, d| hits.push((c.to_string(), d)), &mut acc.st);
        check_state(&f, &m, &mut |c, d| hits.push((c.to_string(), d)), &mut acc.st);
        if verbose {
            println!("  {:8} -> tries hold {:?}", op_str(op), reveal4(&f).iter().map(|r| { let mut o = vec![]; walk(r, &mut vec![], &mut o, &mut vec![]); o.len() }).collect::<Vec<_>>());
            for (c, d) in &hits {
                println!("  observed: {c}: {d}");
            }
        }
        record(&hist, &m, hits, (0, 0), &mut acc);
    }
    acc.cl
}
