//! vf_coll — engine for C08 (generalized hash tries), C09 (algebra law checkers, semiring
//! applications) and C10 (variadic collections). See /verif/DESIGN.md §3.
#[macro_use]
mod c08;
mod c09;
mod c10;
mod classes;
mod colt;
mod semiring;

use vf_explore::{Report, Value, cli, quiet_panics};

fn main() {
    let cli = cli();
    quiet_panics();
    if let Some(path) = &cli.replay {
        let txt = std::fs::read_to_string(path).unwrap_or_else(|e| {
            println!("MACHINERY-ERROR: cannot read replay file {path}: {e}");
            std::process::exit(2)
        });
        let v: Value = vf_explore::serde_json::from_str(&txt).unwrap_or_else(|e| {
            println!("MACHINERY-ERROR: replay file is not JSON: {e}");
            std::process::exit(2)
        });
        let case = &v["case"];
        println!("[vf_coll] replaying {} case {}", cli.property, v["key"]);
        let cl = match cli.property.as_str() {
            "C08" => c08::replay_case(case, true),
            "C09" => c09::replay_case(case, true),
            "C10" => c10::replay_case(case, true),
            other => {
                println!("MACHINERY-ERROR: vf_coll does not serve {other}");
                std::process::exit(2)
            }
        };
        if cl.is_empty() {
            println!("replay: no violation observed");
            std::process::exit(0);
        }
        for (k, h) in &cl.map {
            println!("replay: STILL VIOLATES {k}: {}", h.what);
        }
        std::process::exit(1);
    }
    let mut rep = Report::new(&cli.property, &cli.tier, "vf_coll");
    match cli.property.as_str() {
        "C08" => c08::run(&mut rep),
        "C09" => c09::run(&mut rep),
        "C10" => c10::run(&mut rep),
        other => {
            println!("MACHINERY-ERROR: vf_coll does not serve {other}");
            std::process::exit(2)
        }
    }
    rep.finish();
}
