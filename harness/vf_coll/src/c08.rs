//! C08 — generalized hash tries behave as sets of tuples.
//!
//! Explicit-state BFS over insert/merge histories on REAL tries (`lattices::ght`), four key/value
//! splits of a 3-column u8 schema, rows over {0,1}^3. Reference model: `BTreeSet<(u8,u8,u8)>`.
use std::cmp::Ordering;
use std::collections::{BTreeSet, HashMap};

use lattices::ght::lattice::{
    DeepJoinLatticeBimorphism, GhtBimorphism, GhtCartesianProductBimorphism,
};
use lattices::ght::{GeneralizedHashTrieNode, GhtGet, GhtPrefixIter};
use lattices::{GhtType, IsBot, LatticeBimorphism, Merge};
use variadics::variadic_collections::VariadicHashSetStd;
use variadics::{var_args, var_expr, var_type};
use vf_explore::{Report, Value, catch, json, ncpu};

use crate::classes::{Acc, Classes, par_acc};

pub type Row = (u8, u8, u8);
pub type Model = BTreeSet<Row>;
type V3 = var_type!(u8, u8, u8);

/// Values used for lookups. 0 and 1 are the row domain; 2 never occurs in a row (negative lookups).
static K: [u8; 3] = [0, 1, 2];

fn v(r: Row) -> V3 {
    var_expr!(r.0, r.1, r.2)
}
fn un(r: var_type!(&u8, &u8, &u8)) -> Row {
    let var_args!(a, b, c) = r;
    (*a, *b, *c)
}
pub fn all_rows() -> Vec<Row> {
    let mut o = vec![];
    for a in 0..2 {
        for b in 0..2 {
            for c in 0..2 {
                o.push((a, b, c));
            }
        }
    }
    o
}

/// Flatten a variadic of `&u8` into a Vec.
pub trait Flat {
    fn flat(&self, out: &mut Vec<u8>);
}
impl Flat for () {
    fn flat(&self, _out: &mut Vec<u8>) {}
}
impl<R: Flat> Flat for (&u8, R) {
    fn flat(&self, out: &mut Vec<u8>) {
        out.push(*self.0);
        self.1.flat(out);
    }
}
fn flat<T: Flat>(t: T) -> Vec<u8> {
    let mut o = vec![];
    t.flat(&mut o);
    o
}

/// Full structural reveal of a trie through its public navigation API (`GhtGet`).
/// `heads` = what `iter()` lists (sorted, duplicates kept), `children` = what `get(&h)` answers for
/// h in {0,1,2}; `spurious` counts answers a node of that kind must not give (tuples on an inner
/// node, heads / `get` hits on a leaf).
#[derive(Clone, PartialEq, Eq, PartialOrd, Ord, Hash, Debug)]
pub enum Reveal {
    Leaf { rows: Vec<Row>, spurious: usize },
    Inner { heads: Vec<u8>, children: Vec<(u8, Reveal)>, spurious: usize },
}

/// What a correct trie with `keys` key columns must reveal for the row set `m`.
pub fn expected_reveal(m: &Model, keys: usize) -> Reveal {
    fn go(rows: &[Row], keys: usize, depth: usize) -> Reveal {
        if depth == keys {
            return Reveal::Leaf { rows: rows.to_vec(), spurious: 0 };
        }
        let col = |r: &Row| [r.0, r.1, r.2][depth];
        let mut heads: Vec<u8> = rows.iter().map(col).collect();
        heads.sort();
        heads.dedup();
        let children = heads
            .iter()
            .map(|h| {
                let sub: Vec<Row> = rows.iter().filter(|r| col(r) == *h).cloned().collect();
                (*h, go(&sub, keys, depth + 1))
            })
            .collect();
        Reveal::Inner { heads, children, spurious: 0 }
    }
    let rows: Vec<Row> = m.iter().cloned().collect();
    go(&rows, keys, 0)
}

macro_rules! leaf_rv {
    ($l:expr, $probe:expr) => {{
        let l = $l;
        let mut rows: Vec<Row> = GhtGet::iter_tuples(l).map(un).collect();
        rows.sort();
        let spurious = GhtGet::iter(l).count() + GhtGet::get(l, $probe).is_some() as usize;
        Reveal::Leaf { rows, spurious }
    }};
}
macro_rules! inner_rv {
    ($n:expr, |$c:ident| $child:expr) => {{
        let n = $n;
        let mut heads: Vec<u8> = GhtGet::iter(n).collect();
        heads.sort();
        let mut children = vec![];
        for h in K {
            if let Some($c) = GhtGet::get(n, &h) {
                children.push((h, $child));
            }
        }
        let spurious = GhtGet::iter_tuples(n).count();
        Reveal::Inner { heads, children, spurious }
    }};
}

/// Operations of one trie shape, all routed to the real `/repo` code.
pub trait Trie: Sized + Clone + Default + Send + Sync {
    const NAME: &'static str;
    const KEYS: usize;
    fn ins(&mut self, r: Row) -> bool;
    fn mrg(&mut self, o: Self) -> bool;
    fn mrg_node(&mut self, o: Self) -> bool;
    fn has(&self, r: Row) -> bool;
    fn rows(&self) -> Vec<Row>;
    fn reveal(&self) -> Reveal;
    /// `prefix_iter` for a prefix given as indices into K
    fn prefix(&self, p: &[usize]) -> Vec<Row>;
    /// `find_containing_leaf(row)`: None if not found, else whether that leaf `contains(row)`
    fn leaf_has(&self, r: Row) -> Option<bool>;
    fn pcmp(&self, o: &Self) -> Option<Ordering>;
    fn equ(&self, o: &Self) -> bool;
    fn bot(&self) -> bool;
    fn height_(&self) -> usize;
    fn from_rows(rows: &[Row]) -> Self;
    fn collect_rows(rows: &[Row]) -> Self;
    /// `GeneralizedHashTrieNode::into_iter` / `drain`: None for inner nodes
    fn into_rows(self) -> Option<Vec<Row>>;
    fn drain_rows(&mut self) -> Option<Vec<Row>>;
    /// equi-join on the key columns through `DeepJoinLatticeBimorphism`
    fn join(&self, o: &Self) -> Vec<Vec<u8>>;
    /// full cross product through `GhtCartesianProductBimorphism` (by reference)
    fn cart(&self, o: &Self) -> Vec<Vec<u8>>;
    /// the same through the owning wrapper `GhtBimorphism`
    fn cart_owned(&self, o: &Self) -> Vec<Vec<u8>>;
}

fn sorted<T: Ord>(mut v: Vec<T>) -> Vec<T> {
    v.sort();
    v
}

macro_rules! common_trie_fns {
    () => {
        fn ins(&mut self, r: Row) -> bool {
            GeneralizedHashTrieNode::insert(self, v(r))
        }
        fn mrg(&mut self, o: Self) -> bool {
            Merge::merge(self, o)
        }
        fn mrg_node(&mut self, o: Self) -> bool {
            GeneralizedHashTrieNode::merge_node(self, o)
        }
        fn has(&self, r: Row) -> bool {
            GeneralizedHashTrieNode::contains(self, var_expr!(&r.0, &r.1, &r.2))
        }
        fn rows(&self) -> Vec<Row> {
            sorted(GeneralizedHashTrieNode::recursive_iter(self).map(un).collect())
        }
        fn leaf_has(&self, r: Row) -> Option<bool> {
            GeneralizedHashTrieNode::find_containing_leaf(self, var_expr!(&r.0, &r.1, &r.2))
                .map(|l| GeneralizedHashTrieNode::contains(l, var_expr!(&r.0, &r.1, &r.2)))
        }
        fn pcmp(&self, o: &Self) -> Option<Ordering> {
            PartialOrd::partial_cmp(self, o)
        }
        fn equ(&self, o: &Self) -> bool {
            PartialEq::eq(self, o)
        }
        fn bot(&self) -> bool {
            IsBot::is_bot(self)
        }
        fn height_(&self) -> usize {
            GeneralizedHashTrieNode::height(self)
        }
        fn from_rows(rows: &[Row]) -> Self {
            <Self as GeneralizedHashTrieNode>::new_from(rows.iter().map(|r| v(*r)))
        }
        fn collect_rows(rows: &[Row]) -> Self {
            rows.iter().map(|r| v(*r)).collect()
        }
        fn into_rows(self) -> Option<Vec<Row>> {
            GeneralizedHashTrieNode::into_iter(self).map(|it| {
                sorted(it.map(|r| { let var_args!(a, b, c) = r; (a, b, c) }).collect())
            })
        }
        fn drain_rows(&mut self) -> Option<Vec<Row>> {
            GeneralizedHashTrieNode::drain(self).map(|it| {
                sorted(it.map(|r| { let var_args!(a, b, c) = r; (a, b, c) }).collect())
            })
        }
        fn prefix(&self, p: &[usize]) -> Vec<Row> {
            sorted(match p.len() {
                0 => GhtPrefixIter::prefix_iter(self, var_expr!()).map(un).collect(),
                1 => GhtPrefixIter::prefix_iter(self, var_expr!(&K[p[0]])).map(un).collect(),
                2 => GhtPrefixIter::prefix_iter(self, var_expr!(&K[p[0]], &K[p[1]])).map(un).collect(),
                3 => GhtPrefixIter::prefix_iter(self, var_expr!(&K[p[0]], &K[p[1]], &K[p[2]]))
                    .map(un)
                    .collect(),
                _ => unreachable!(),
            })
        }
    };
}

macro_rules! join_cart_fns {
    ($joinout:ty, $cartout:ty) => {
        fn join(&self, o: &Self) -> Vec<Vec<u8>> {
            type Bim = <(ThisTrie, ThisTrie) as DeepJoinLatticeBimorphism<
                VariadicHashSetStd<$joinout>,
            >>::DeepJoinLatticeBimorphism;
            let mut bim = <Bim as Default>::default();
            let out = bim.call(self, o);
            sorted(out.recursive_iter().map(flat).collect())
        }
        fn cart(&self, o: &Self) -> Vec<Vec<u8>> {
            let mut bim = GhtCartesianProductBimorphism::<$cartout>::default();
            let out = bim.call(self, o);
            sorted(out.recursive_iter().map(flat).collect())
        }
        fn cart_owned(&self, o: &Self) -> Vec<Vec<u8>> {
            let mut bim = GhtBimorphism::new(GhtCartesianProductBimorphism::<$cartout>::default());
            let out = bim.call(self.clone(), o.clone());
            sorted(out.recursive_iter().map(flat).collect())
        }
    };
}

// ---- shape A: () => u8,u8,u8 (a single leaf) ---------------------------------------------------
pub type TA = GhtType!(() => u8, u8, u8: VariadicHashSetStd);
mod shape_a {
    use super::*;
    type ThisTrie = TA;
    impl Trie for TA {
        const NAME: &'static str = "ght(()=>u8,u8,u8)";
        const KEYS: usize = 0;
        common_trie_fns!();
        fn reveal(&self) -> Reveal {
            leaf_rv!(self, &0u8)
        }
        join_cart_fns!(var_type!(u8, u8, u8, u8, u8, u8), GhtType!(u8 => u8, u8, u8, u8, u8: VariadicHashSetStd));
    }
}
// ---- shape B: u8 => u8,u8 ------------------------------------------------------------------------
pub type TB = GhtType!(u8 => u8, u8: VariadicHashSetStd);
mod shape_b {
    use super::*;
    type ThisTrie = TB;
    impl Trie for TB {
        const NAME: &'static str = "ght(u8=>u8,u8)";
        const KEYS: usize = 1;
        common_trie_fns!();
        fn reveal(&self) -> Reveal {
            inner_rv!(self, |c| leaf_rv!(c, &0u8))
        }
        join_cart_fns!(var_type!(u8, u8, u8, u8, u8), GhtType!(u8, u8, u8 => u8, u8, u8: VariadicHashSetStd));
    }
}
// ---- shape C: u8,u8 => u8 ------------------------------------------------------------------------
pub type TC = GhtType!(u8, u8 => u8: VariadicHashSetStd);
mod shape_c {
    use super::*;
    type ThisTrie = TC;
    impl Trie for TC {
        const NAME: &'static str = "ght(u8,u8=>u8)";
        const KEYS: usize = 2;
        common_trie_fns!();
        fn reveal(&self) -> Reveal {
            inner_rv!(self, |c| inner_rv!(c, |d| leaf_rv!(d, &0u8)))
        }
        join_cart_fns!(var_type!(u8, u8, u8, u8), GhtType!(u8, u8, u8, u8, u8 => u8: VariadicHashSetStd));
    }
}
// ---- shape D: u8,u8,u8 => () ---------------------------------------------------------------------
pub type TD = GhtType!(u8, u8, u8 => (): VariadicHashSetStd);
mod shape_d {
    use super::*;
    type ThisTrie = TD;
    impl Trie for TD {
        const NAME: &'static str = "ght(u8,u8,u8=>())";
        const KEYS: usize = 3;
        common_trie_fns!();
        fn reveal(&self) -> Reveal {
            inner_rv!(self, |c| inner_rv!(c, |d| inner_rv!(d, |e| leaf_rv!(e, &()))))
        }
        join_cart_fns!(var_type!(u8, u8, u8), GhtType!(u8, u8, u8, u8, u8, u8 => (): VariadicHashSetStd));
    }
}

// =================================================================================================
// histories
// =================================================================================================

/// History term: ["empty"] | ["insert", term, [a,b,c]] | ["merge", term, term]
pub fn build<T: Trie>(term: &Value) -> (T, Model) {
    let arr = term.as_array().expect("term must be an array");
    match arr[0].as_str().expect("term tag") {
        "empty" => (T::default(), Model::new()),
        "insert" => {
            let (mut t, mut m) = build::<T>(&arr[1]);
            let r = row_of(&arr[2]);
            t.ins(r);
            m.insert(r);
            (t, m)
        }
        "merge" => {
            let (mut t, mut m) = build::<T>(&arr[1]);
            let (t2, m2) = build::<T>(&arr[2]);
            t.mrg(t2);
            m.extend(m2);
            (t, m)
        }
        other => panic!("unknown term tag {other}"),
    }
}
fn row_of(v: &Value) -> Row {
    let a = v.as_array().expect("row");
    (a[0].as_u64().unwrap() as u8, a[1].as_u64().unwrap() as u8, a[2].as_u64().unwrap() as u8)
}
fn row_json(r: Row) -> Value {
    json!([r.0, r.1, r.2])
}
fn model_str(m: &Model) -> String {
    let rows: Vec<String> = m.iter().map(|r| format!("{}{}{}", r.0, r.1, r.2)).collect();
    format!("{{{}}}", rows.join(","))
}

type Sink<'a> = &'a mut dyn FnMut(&str, String);

fn res<R>(r: Result<R, String>, name: &str, sink: Sink) -> Option<R> {
    match r {
        Ok(x) => Some(x),
        Err(p) => {
            sink(&format!("{name}/panic"), format!("{name} panicked: {p}"));
            None
        }
    }
}

/// Everything observable about ONE trie, compared with the set model. `sink(check/kind, text)`.
pub fn check_state<T: Trie>(t: &T, m: &Model, sink: Sink, acc: &mut Acc) {
    let rows_all = all_rows();
    // contains: the 8 domain rows + rows using the absent value 2
    let mut extra = vec![(2, 0, 0), (0, 2, 0), (0, 0, 2), (2, 2, 2)];
    extra.extend(rows_all.iter().cloned());
    for r in extra {
        acc.st.eval();
        if let Some(got) = res(catch(|| t.has(r)), "contains", sink) {
            acc.st.outcome(&("contains", got));
            if got != m.contains(&r) {
                sink("contains/wrong", format!("contains({r:?}) = {got}, model {}", m.contains(&r)));
            }
        }
        if let Some(got) = res(catch(|| t.leaf_has(r)), "find_containing_leaf", sink) {
            let want = if m.contains(&r) { Some(true) } else { None };
            if got != want {
                sink("find_containing_leaf/wrong", format!("find_containing_leaf({r:?}) -> {got:?}, want {want:?}"));
            }
        }
    }
    // recursive_iter as a multiset (a set must list every row exactly once)
    acc.st.eval();
    let want_rows: Vec<Row> = m.iter().cloned().collect();
    if let Some(got) = res(catch(|| t.rows()), "recursive_iter", sink) {
        acc.st.outcome(&("rows", got.len()));
        if got != want_rows {
            sink("recursive_iter/wrong", format!("recursive_iter = {got:?}, model {want_rows:?}"));
        }
    }
    // navigation: iter()/get()/iter_tuples() at every node
    acc.st.eval();
    if let Some(got) = res(catch(|| t.reveal()), "get_iter_walk", sink) {
        let want = expected_reveal(m, T::KEYS);
        if got != want {
            sink("get_iter_walk/wrong", format!("GhtGet walk = {got:?}, expected {want:?}"));
        }
    }
    // prefix_iter for every prefix of length 0..=3 over {0,1,2}
    let mut prefixes: Vec<Vec<usize>> = vec![vec![]];
    for a in 0..3 {
        prefixes.push(vec![a]);
        for b in 0..3 {
            prefixes.push(vec![a, b]);
            for c in 0..3 {
                prefixes.push(vec![a, b, c]);
            }
        }
    }
    for p in &prefixes {
        acc.st.eval();
        let want: Vec<Row> = m
            .iter()
            .filter(|r| {
                let cols = [r.0, r.1, r.2];
                p.iter().enumerate().all(|(i, k)| cols[i] == K[*k])
            })
            .cloned()
            .collect();
        if let Some(got) = res(catch(|| t.prefix(p)), "prefix_iter", sink) {
            acc.st.outcome(&("prefix", p.len(), got.len()));
            if got != want {
                let pv: Vec<u8> = p.iter().map(|k| K[*k]).collect();
                sink("prefix_iter/wrong", format!("prefix_iter({pv:?}) = {got:?}, model {want:?}"));
            }
        }
    }
    // is_bot, height
    acc.st.eval();
    if let Some(got) = res(catch(|| t.bot()), "is_bot", sink) {
        if got != m.is_empty() {
            sink("is_bot/wrong", format!("is_bot = {got}, model empty = {}", m.is_empty()));
        }
    }
    if t.height_() != T::KEYS {
        sink("height/wrong", format!("height {} for {} key columns", t.height_(), T::KEYS));
    }
    // rebuilding from the model's rows gives an equal trie (new_from, FromIterator, clone)
    acc.st.eval();
    let want_reveal = expected_reveal(m, T::KEYS);
    for (name, other) in [
        ("new_from", catch(|| T::from_rows(&want_rows))),
        ("from_iter", catch(|| T::collect_rows(&want_rows))),
        ("clone", catch(|| t.clone())),
    ] {
        if let Some(o) = res(other, name, sink) {
            if o.reveal() != want_reveal {
                sink(&format!("{name}/wrong"), format!("{name} reveals {:?}, expected {want_reveal:?}", o.reveal()));
            }
            match catch(|| (t.equ(&o), o.equ(t), t.pcmp(&o))) {
                Ok((true, true, Some(Ordering::Equal))) => {}
                Ok(x) => sink("eq_rebuilt/wrong", format!("trie vs {name} of the same rows: (==, ==rev, partial_cmp) = {x:?}")),
                Err(p) => sink("eq_rebuilt/panic", format!("comparing with {name} of the same rows panicked: {p}")),
            }
        }
    }
    // leaf-only API: into_iter / drain
    acc.st.eval();
    let want_leaf = if T::KEYS == 0 { Some(want_rows.clone()) } else { None };
    if let Some(got) = res(catch(|| t.clone().into_rows()), "into_iter", sink) {
        if got != want_leaf {
            sink("into_iter/wrong", format!("into_iter -> {got:?}, want {want_leaf:?}"));
        }
    }
    if let Some((got, after)) = res(
        catch(|| {
            let mut c = t.clone();
            let d = c.drain_rows();
            (d, c.rows())
        }),
        "drain",
        sink,
    ) {
        let want_after = if T::KEYS == 0 { vec![] } else { want_rows.clone() };
        if got != want_leaf || after != want_after {
            sink("drain/wrong", format!("drain -> {got:?} leaving {after:?}; want {want_leaf:?} leaving {want_after:?}"));
        }
    }
}

fn model_cmp(a: &Model, b: &Model) -> Option<Ordering> {
    if a == b {
        Some(Ordering::Equal)
    } else if a.is_subset(b) {
        Some(Ordering::Less)
    } else if b.is_subset(a) {
        Some(Ordering::Greater)
    } else {
        None
    }
}

/// Nested-loop relational operators on the models.
fn model_join(a: &Model, b: &Model, keys: usize) -> Vec<Vec<u8>> {
    let mut out = vec![];
    for x in a {
        for y in b {
            let xc = [x.0, x.1, x.2];
            let yc = [y.0, y.1, y.2];
            if xc[..keys] == yc[..keys] {
                let mut r = xc.to_vec();
                r.extend_from_slice(&yc[keys..]);
                out.push(r);
            }
        }
    }
    out.sort();
    out
}
fn model_cart(a: &Model, b: &Model) -> Vec<Vec<u8>> {
    let mut out = vec![];
    for x in a {
        for y in b {
            out.push(vec![x.0, x.1, x.2, y.0, y.1, y.2]);
        }
    }
    out.sort();
    out
}

/// Everything observable about an ordered PAIR of tries.
pub fn check_pair<T: Trie>(a: &T, ma: &Model, b: &T, mb: &Model, sink: Sink, acc: &mut Acc) {
    acc.st.eval();
    let want = model_cmp(ma, mb);
    match catch(|| a.pcmp(b)) {
        Ok(got) => {
            acc.st.outcome(&("pcmp", got));
            if got != want {
                sink("partial_cmp/wrong", format!("partial_cmp = {got:?}, set inclusion says {want:?}"));
            }
        }
        Err(p) => {
            acc.st.outcome(&("pcmp", "panic"));
            sink("partial_cmp/panic", format!("partial_cmp panicked ({p}); set inclusion says {want:?}"));
        }
    }
    acc.st.eval();
    match catch(|| a.equ(b)) {
        Ok(got) => {
            acc.st.outcome(&("eq", got));
            if got != (ma == mb) {
                sink("eq/wrong", format!("== is {got}, models equal: {}", ma == mb));
            }
        }
        Err(p) => sink("eq/panic", format!("== panicked: {p}")),
    }
    acc.st.eval();
    let wj = model_join(ma, mb, T::KEYS);
    if let Some(got) = res(catch(|| a.join(b)), "join", sink) {
        acc.st.outcome(&("join", got.len()));
        if got != wj {
            sink("join/wrong", format!("DeepJoin bimorphism = {got:?}, relational join = {wj:?}"));
        }
    }
    acc.st.eval();
    let wc = model_cart(ma, mb);
    if let Some(got) = res(catch(|| a.cart(b)), "cartesian", sink) {
        acc.st.outcome(&("cart", got.len()));
        if got != wc {
            sink("cartesian/wrong", format!("cartesian product bimorphism has {} rows, cross product {}", got.len(), wc.len()));
        }
    }
    if let Some(got) = res(catch(|| a.cart_owned(b)), "cartesian_owned", sink) {
        if got != wc {
            sink("cartesian_owned/wrong", format!("GhtBimorphism(cartesian) has {} rows, cross product {}", got.len(), wc.len()));
        }
    }
}

#[derive(Clone)]
pub enum Op {
    Insert(Row),
    Merge(Value),
}

/// One transition from a state: run on clones of the real objects, compare with the model.
/// Returns the successor (object, model).
pub fn check_trans<T: Trie>(s: &T, ms: &Model, op: &Op, other: Option<(&T, &Model)>, sink: Sink, acc: &mut Acc) -> (T, Model) {
    acc.st.eval();
    acc.st.transition();
    let mut m2 = ms.clone();
    let before = s.reveal();
    let mut obj = s.clone();
    match op {
        Op::Insert(r) => {
            m2.insert(*r);
            if let Some(ret) = res(catch(|| obj.ins(*r)), "insert", sink) {
                acc.st.outcome(&("insert_ret", ret));
            }
        }
        Op::Merge(_) => {
            let (o, mo) = other.expect("merge needs the other trie");
            let o_before = o.reveal();
            m2.extend(mo.iter().cloned());
            let changed = m2 != *ms;
            if let Some(ret) = res(catch(|| obj.mrg(o.clone())), "merge", sink) {
                acc.st.outcome(&("merge_ret", ret));
                if ret != changed {
                    sink("merge/return", format!("Merge::merge returned {ret}, set grew: {changed}"));
                }
            }
            // merge_node must agree with Merge::merge
            let mut obj2 = s.clone();
            if let Some(ret) = res(catch(|| obj2.mrg_node(o.clone())), "merge_node", sink) {
                if ret != changed {
                    sink("merge_node/return", format!("merge_node returned {ret}, set grew: {changed}"));
                }
                if obj2.reveal() != expected_reveal(&m2, T::KEYS) {
                    sink("merge_node/wrong", format!("after merge_node: {:?}, expected rows {}", obj2.reveal(), model_str(&m2)));
                }
            }
            // the argument was passed by value as a clone; the original must be untouched
            if o.reveal() != o_before {
                sink("merge/aliasing", "merge changed its (cloned) argument's source".to_string());
            }
        }
    }
    let got = obj.reveal();
    let want = expected_reveal(&m2, T::KEYS);
    if got != want {
        let k = match op {
            Op::Insert(_) => "insert/wrong",
            Op::Merge(_) => "merge/wrong",
        };
        sink(k, format!("successor reveals {got:?}, expected rows {}", model_str(&m2)));
    }
    // the receiver's source was cloned; it must be untouched
    if s.reveal() != before {
        sink("clone/aliasing", "operating on a clone changed the original".to_string());
    }
    (obj, m2)
}

struct State<T> {
    obj: T,
    model: Model,
    term: Value,
}

fn class_of(name: &str, check: &str) -> String {
    format!("{name}/{check}")
}

/// BFS over insert/merge histories of one shape; every state, transition and ordered pair of
/// reachable states is checked.
pub fn run_shape<T: Trie>(shape_idx: u64, depth: usize, threads: usize) -> Acc {
    let mut acc = Acc::new();
    let mut states: Vec<State<T>> = vec![];
    let mut index: HashMap<Reveal, usize> = HashMap::new();
    let rows = all_rows();

    let mut order = 0u64;
    let mut add_state = |states: &mut Vec<State<T>>, index: &mut HashMap<Reveal, usize>, acc: &mut Acc, obj: T, model: Model, term: Value| {
        // canon = the full structural reveal of the real object (nothing dropped): two histories are
        // merged only when every node, head and leaf row of their tries coincide.
        let rv = obj.reveal();
        if index.contains_key(&rv) {
            return;
        }
        index.insert(rv, states.len());
        acc.st.state();
        acc.st.trace();
        acc.st.nontrivial(&(T::NAME, "state", model_str(&model)));
        let mut hits: Vec<(String, String)> = vec![];
        let mut a2 = Acc::new();
        check_state(&obj, &model, &mut |c, d| hits.push((c.to_string(), d)), &mut a2);
        acc.merge(a2);
        for (c, d) in hits {
            order += 1;
            let t = term.clone();
            let ms = model_str(&model);
            acc.cl.hit(&class_of(T::NAME, &c), (shape_idx * 10, order), || {
                (format!("state={ms}"), format!("{}: {d} (state {ms})", T::NAME), json!({"shape": T::NAME, "kind": "state", "a": t}))
            });
        }
        acc.st.sample(|| json!({"shape": T::NAME, "state": model_str(&model), "history": term}));
        // A state whose reveal differs from the model's is already reported above; it is not
        // expanded further (a trie that e.g. duplicates rows would make the state space unbounded,
        // while correct states number at most 2^8).
        if obj.reveal() != expected_reveal(&model, T::KEYS) {
            acc.count(&format!("{}:corrupt_states_not_expanded", T::NAME));
            return;
        }
        states.push(State { obj, model, term });
    };

    add_state(&mut states, &mut index, &mut acc, T::default(), Model::new(), json!(["empty"]));
    let mut frontier_start = 0usize;
    for _round in 0..depth {
        let n = states.len();
        let mut succ: Vec<(T, Model, Value)> = vec![];
        let mut torder = 0u64;
        for s in 0..n {
            // inserts only from frontier states (older states were expanded in earlier rounds)
            let mut ops: Vec<(Op, Option<usize>)> = vec![];
            if s >= frontier_start {
                for r in &rows {
                    ops.push((Op::Insert(*r), None));
                }
            }
            for t in 0..n {
                if s >= frontier_start || t >= frontier_start {
                    ops.push((Op::Merge(states[t].term.clone()), Some(t)));
                }
            }
            for (op, t) in ops {
                let mut hits: Vec<(String, String)> = vec![];
                let other = t.map(|t| (&states[t].obj, &states[t].model));
                let mut a2 = Acc::new();
                let (obj, m2) = check_trans(&states[s].obj, &states[s].model, &op, other, &mut |c, d| hits.push((c.to_string(), d)), &mut a2);
                acc.merge(a2);
                let term = match &op {
                    Op::Insert(r) => json!(["insert", states[s].term, row_json(*r)]),
                    Op::Merge(tt) => json!(["merge", states[s].term, tt]),
                };
                let opj = match &op {
                    Op::Insert(r) => json!({"insert": row_json(*r)}),
                    Op::Merge(tt) => json!({"merge": tt}),
                };
                for (c, d) in hits {
                    torder += 1;
                    let ms = model_str(&states[s].model);
                    let os = match (&op, t) {
                        (Op::Insert(r), _) => format!("insert{r:?}"),
                        (Op::Merge(_), Some(t)) => format!("merge{}", model_str(&states[t].model)),
                        _ => unreachable!(),
                    };
                    let a = states[s].term.clone();
                    let opj = opj.clone();
                    acc.cl.hit(&class_of(T::NAME, &c), (shape_idx * 10 + 1, torder), || {
                        (format!("state={ms},op={os}"), format!("{}: {d} (state {ms}, op {os})", T::NAME), json!({"shape": T::NAME, "kind": "trans", "a": a, "op": opj}))
                    });
                }
                succ.push((obj, m2, term));
            }
        }
        frontier_start = n;
        for (obj, m2, term) in succ {
            add_state(&mut states, &mut index, &mut acc, obj, m2, term);
        }
        if states.len() == n {
            break; // fixpoint
        }
    }
    acc.count_n(&format!("{}:states", T::NAME), states.len() as u64);

    // all ordered pairs of reachable states
    let n = states.len();
    let states_ref = &states;
    let pair_acc = par_acc(n, threads, |i| {
        let mut a = Acc::new();
        for j in 0..n {
            let (si, sj) = (&states_ref[i], &states_ref[j]);
            let mut hits: Vec<(String, String)> = vec![];
            check_pair(&si.obj, &si.model, &sj.obj, &sj.model, &mut |c, d| hits.push((c.to_string(), d)), &mut a);
            a.st.nontrivial(&(T::NAME, "pair", i, j));
            for (c, d) in hits {
                let (ma, mb) = (model_str(&si.model), model_str(&sj.model));
                let (ta, tb) = (si.term.clone(), sj.term.clone());
                a.cl.hit(&class_of(T::NAME, &c), (shape_idx * 10 + 2, (i * n + j) as u64), || {
                    (format!("a={ma},b={mb}"), format!("{}: {d} (a={ma}, b={mb})", T::NAME), json!({"shape": T::NAME, "kind": "pair", "a": ta, "b": tb}))
                });
            }
        }
        a
    });
    acc.merge(pair_acc);
    acc
}

/// Re-execute one stored case through plain functions (no explorer).
fn replay_shape<T: Trie>(case: &Value, verbose: bool) -> Classes {
    let mut cl = Classes::new();
    let mut acc = Acc::new();
    let mut hits: Vec<(String, String)> = vec![];
    let (a, ma) = build::<T>(&case["a"]);
    match case["kind"].as_str().unwrap_or("") {
        "state" => check_state(&a, &ma, &mut |c, d| hits.push((c.to_string(), d)), &mut acc),
        "pair" => {
            let (b, mb) = build::<T>(&case["b"]);
            if verbose {
                println!("  a = {}   b = {}", model_str(&ma), model_str(&mb));
            }
            check_pair(&a, &ma, &b, &mb, &mut |c, d| hits.push((c.to_string(), d)), &mut acc)
        }
        "trans" => {
            let op = &case["op"];
            if let Some(r) = op.get("insert") {
                check_trans(&a, &ma, &Op::Insert(row_of(r)), None, &mut |c, d| hits.push((c.to_string(), d)), &mut acc);
            } else {
                let (b, mb) = build::<T>(&op["merge"]);
                check_trans(&a, &ma, &Op::Merge(op["merge"].clone()), Some((&b, &mb)), &mut |c, d| hits.push((c.to_string(), d)), &mut acc);
            }
        }
        other => panic!("unknown case kind {other}"),
    }
    if verbose {
        println!("  state a = {}", model_str(&ma));
    }
    for (c, d) in hits {
        if verbose {
            println!("  observed: {c}: {d}");
        }
        cl.hit(&class_of(T::NAME, &c), (0, 0), || (String::new(), d.clone(), case.clone()));
    }
    cl
}

pub fn replay_case(case: &Value, verbose: bool) -> Classes {
    let shape = case["shape"].as_str().unwrap_or("");
    if shape == TA::NAME {
        replay_shape::<TA>(case, verbose)
    } else if shape == TB::NAME {
        replay_shape::<TB>(case, verbose)
    } else if shape == TC::NAME {
        replay_shape::<TC>(case, verbose)
    } else if shape == TD::NAME {
        replay_shape::<TD>(case, verbose)
    } else if shape == crate::colt::NAME {
        crate::colt::replay_case(case, verbose)
    } else {
        panic!("unknown shape {shape}")
    }
}

pub fn run(rep: &mut Report) {
    let thorough = rep.thorough();
    let depth = if thorough { 5 } else { 3 };
    rep.rule = "BFS rounds over real tries: S0={empty}, S(k+1)=Sk ∪ {insert(s,row)} ∪ {merge(s,t) | s,t in Sk}; \
                states deduplicated by the full structural reveal of the real object (every node's iter()/get()/iter_tuples()); \
                a case is one state, one transition or one ordered pair of reachable states; non-trivial = distinct state / ordered pair"
        .into();
    rep.explanation = "every reachable trie of 4 key/value splits of (u8,u8,u8) is compared with a BTreeSet<(u8,u8,u8)>: contains \
                       (8 rows + 4 absent), find_containing_leaf, recursive_iter as multiset, GhtGet walk (iter/get/iter_tuples at every node, \
                       absent head 2), prefix_iter for all 40 prefixes over {0,1,2}, is_bot, height, new_from/FromIterator/clone rebuilds, \
                       leaf into_iter/drain; every transition checks the successor's reveal and Merge::merge / merge_node return values; \
                       every ordered pair checks partial_cmp and == against set inclusion/equality, the DeepJoin bimorphism against a \
                       nested-loop equi-join on the key columns and GhtCartesianProductBimorphism (by reference and through GhtBimorphism) \
                       against the cross product. The COLT forest ColtType!(u8,u8,u8) (BFS depth 3 quick / 4 thorough over 8 inserts + 14 ColtGet::get paths) is checked against a multiset model: row conservation, prefix lookups through get paths, per-trie well-formedness."
        .into();
    rep.assume("row domain {0,1}^3 (value 2 used only for negative lookups); leaf storage VariadicHashSetStd (Merge/PartialOrd require a VariadicSet)");
    rep.assume("HashMap/RandomState iteration orders are whatever the process draws; every comparison is order-insensitive");
    rep.assume("insert()'s bool return is recorded but not judged (its meaning is not specified)");
    rep.bound("bfs_rounds", depth);
    rep.bound("row_domain", "{0,1}^3");
    rep.bound("shapes", json!([TA::NAME, TB::NAME, TC::NAME, TD::NAME]));
    let threads = ncpu().min(16);
    let mut all = Classes::new();
    let mut counters = std::collections::BTreeMap::new();
    macro_rules! shape {
        ($t:ty, $i:expr) => {{
            let acc = run_shape::<$t>($i, depth, threads);
            all.merge(acc.cl.clone());
            for (k, v) in &acc.counters {
                counters.insert(k.clone(), *v);
            }
            rep.section(<$t>::NAME, acc.st);
        }};
    }
    shape!(TA, 0);
    shape!(TB, 1);
    shape!(TC, 2);
    shape!(TD, 3);
    {
        // COLT forest: BFS depth 3 (quick) / 4 (thorough) over the full alphabet of 8 inserts + 14 get paths
        let colt_depth = if thorough { 4 } else { 3 };
        rep.bound("colt_bfs_depth", colt_depth);
        let acc = crate::colt::run(4, colt_depth);
        all.merge(acc.cl.clone());
        for (k, v) in &acc.counters {
            counters.insert(k.clone(), *v);
        }
        rep.section(crate::colt::NAME, acc.st);
    }
    rep.sections.insert("counters".into(), json!(counters));
    println!("[vf_coll] C08 counters: {counters:?}");
    let mut st = vf_explore::Stats::new();
    let listed = all.emit(&mut st, "C08", &|case| replay_case(case, false));
    rep.section("violation_classes", st);
    rep.sections.insert("violation_classes_all".into(), listed);
}
