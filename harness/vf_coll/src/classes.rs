//! Violation aggregation by *class*.
//!
//! A defect usually shows up in thousands of enumerated cases. `vf_explore::Stats` keeps at most 8
//! distinct keys, and known findings are matched by exact key, so every defect class (for example
//! "GhtInner::partial_cmp panics", "linearity rejects a linear map") gets exactly ONE key:
//! `<class>/<first witness>`, where "first" is the minimum `order` (section number, enumeration
//! index) over all hits — deterministic, independent of thread scheduling.
use std::collections::BTreeMap;

use vf_explore::{Stats, Value};

#[derive(Clone)]
pub struct Hit {
    pub count: u64,
    pub order: (u64, u64),
    pub witness: String,
    pub what: String,
    pub replay: Value,
}

#[derive(Default, Clone)]
pub struct Classes {
    pub map: BTreeMap<String, Hit>,
}

impl Classes {
    pub fn new() -> Self {
        Self::default()
    }
    /// Record a violation of class `class`; `mk` is only evaluated when this hit becomes the
    /// class's first witness.
    pub fn hit(&mut self, class: &str, order: (u64, u64), mk: impl FnOnce() -> (String, String, Value)) {
        match self.map.get_mut(class) {
            Some(h) => {
                h.count += 1;
                if order < h.order {
                    let (witness, what, replay) = mk();
                    h.order = order;
                    h.witness = witness;
                    h.what = what;
                    h.replay = replay;
                }
            }
            None => {
                let (witness, what, replay) = mk();
                self.map.insert(class.to_string(), Hit { count: 1, order, witness, what, replay });
            }
        }
    }
    pub fn merge(&mut self, o: Classes) {
        for (k, h) in o.map {
            match self.map.get_mut(&k) {
                Some(mine) => {
                    mine.count += h.count;
                    if h.order < mine.order {
                        mine.order = h.order;
                        mine.witness = h.witness;
                        mine.what = h.what;
                        mine.replay = h.replay;
                    }
                }
                None => {
                    self.map.insert(k, h);
                }
            }
        }
    }
    pub fn is_empty(&self) -> bool {
        self.map.is_empty()
    }
    #[allow(dead_code)]
    pub fn total(&self) -> u64 {
        self.map.values().map(|h| h.count).sum()
    }
    /// Re-execute each class's first witness through `replay` (must return the classes hit by that
    /// single case); a witness that does not reproduce is a machinery error. Then emit one
    /// violation per class into `st`. Classes whose key is NOT listed in known_findings.json are
    /// emitted first, so that the 8-key cap of `Stats` can never hide a new defect behind known ones.
    /// Returns a JSON list of ALL classes (uncapped) for the evidence file.
    pub fn emit(&self, st: &mut Stats, property: &str, replay: &dyn Fn(&Value) -> Classes) -> Value {
        let known = known_keys(property);
        let mut order: Vec<(&String, &Hit)> = self.map.iter().collect();
        order.sort_by_key(|(class, h)| (known.contains(&format!("{class}/{}", h.witness)), (*class).clone()));
        let mut all = vec![];
        for (class, h) in order {
            let again = replay(&h.replay);
            if !again.map.contains_key(class) {
                println!(
                    "MACHINERY-ERROR: violation class {class} witness {} did not reproduce on re-execution (got {:?})",
                    h.witness,
                    again.map.keys().collect::<Vec<_>>()
                );
                std::process::exit(2);
            }
            let key = format!("{class}/{}", h.witness);
            println!("[vf_coll] violation class {key}: {} case(s)", h.count);
            all.push(vf_explore::json!({"key": key, "cases": h.count, "what": h.what}));
            st.violation(key, format!("{} [{} case(s) of this class]", h.what, h.count), h.replay.clone());
            st.violations_total += h.count - 1;
        }
        Value::Array(all)
    }
}

/// Keys listed for `property` in $VERIF_DIR/known_findings.json (same format vf_explore reads).
pub fn known_keys(property: &str) -> Vec<String> {
    let p = vf_explore::verif_dir().join("known_findings.json");
    let Ok(txt) = std::fs::read_to_string(&p) else { return vec![] };
    let Ok(v) = vf_explore::serde_json::from_str::<Value>(&txt) else { return vec![] };
    let mut out = vec![];
    if let Some(arr) = v.get("findings").and_then(|a| a.as_array()) {
        for f in arr {
            if f.get("property").and_then(|x| x.as_str()) == Some(property) {
                for k in f.get("keys").and_then(|x| x.as_array()).into_iter().flatten() {
                    if let Some(k) = k.as_str() {
                        out.push(k.to_string());
                    }
                }
            }
        }
    }
    out
}

/// A `Stats` + `Classes` pair that worker shards return.
#[derive(Default, Clone)]
pub struct Acc {
    pub st: Stats,
    pub cl: Classes,
    /// free-form named counters (verdict counts etc.), merged by addition
    pub counters: BTreeMap<String, u64>,
}

impl Acc {
    pub fn new() -> Self {
        Self::default()
    }
    pub fn count(&mut self, name: &str) {
        *self.counters.entry(name.to_string()).or_insert(0) += 1;
    }
    pub fn count_n(&mut self, name: &str, n: u64) {
        *self.counters.entry(name.to_string()).or_insert(0) += n;
    }
    pub fn merge(&mut self, o: Acc) {
        self.st.merge(o.st);
        self.cl.merge(o.cl);
        for (k, v) in o.counters {
            *self.counters.entry(k).or_insert(0) += v;
        }
    }
}

/// Like `vf_explore::par_map` but for `Acc`.
pub fn par_acc<F>(n: usize, threads: usize, work: F) -> Acc
where
    F: Fn(usize) -> Acc + Sync,
{
    let next = std::sync::atomic::AtomicUsize::new(0);
    let total = std::sync::Mutex::new(Acc::new());
    let threads = threads.max(1).min(n.max(1));
    std::thread::scope(|sc| {
        for _ in 0..threads {
            sc.spawn(|| {
                let mut local = Acc::new();
                loop {
                    let i = next.fetch_add(1, std::sync::atomic::Ordering::SeqCst);
                    if i >= n {
                        break;
                    }
                    local.merge(work(i));
                }
                total.lock().unwrap().merge(local);
            });
        }
    });
    total.into_inner().unwrap()
}
