//! Violation aggregation by *class*.
//!
//! A defect usually shows up in thousands of enumerated cases. `vf_explore::Stats` keeps at most 8
//! distinct keys, and known findings are matched by exact key, so every defect class (for example
//! "GhtInner::partial_cmp panics", "linearity rejects a linear map") gets exactly ONE key:
//! `<class>/<first witness>`, where "first" is the minimum `order` (section number, enumeration
//! index) over all hits — deterministic, independent of thread scheduling.
use std::collections::BTreeMap;

use vf_explore::{Stats, Value};

#[derive(Clone)]
pub struct Hit {
    pub count: u64,
    pub order: (u64, u64),
    pub witness: String,
    pub what: String,
    pub replay: Value,
}

#[derive(Default, Clone)]
pub struct Classes {
    pub map: BTreeMap<String, Hit>,
}

impl Classes {
    pub fn new() -> Self {
        Self::default()
    }
    /// Record a violation of class `class`; `mk` is only evaluated when this hit becomes the
    /// class's first witness.
    pub fn hit(&mut self, class: &str, order: (u64, u64), mk: impl FnOnce() -> (String, String, Value)) {
        match self.map.get_mut(class) {
            Some(h) => {
                h.count += 1;
                if order < h.order {
                    let (witness, what, replay) = mk();
                    h.order = order;
                    h.witness = witness;
                    h.what = what;
                    h.replay = replay;
                }
            }
            None => {
                let (witness, what, replay) = mk();
                self.map.insert(class.to_string(), Hit { count: 1, order, witness, what, replay });
            }
        }
    }
    pub fn merge(&mut self, o: Classes) {
        for (k, h) in o.map {
            match self.map.get_mut(&k) {
                Some(mine) => {
                    mine.count += h.count;
                    if h.order < mine.order {
                        mine.order = h.order;
                        mine.witness = h.witness;
                        mine.what = h.what;
                        mine.replay = h.replay;
                    }
                }
                None => {
                    self.map.insert(k, h);
                }
            }
        }
    }
    pub fn is_empty(&self) -> bool {
        self.map.is_empty()
    }
    pub fn total(&self) -> u64 {
        self.map.values().map(|h| h.count).sum()
    }
    /// Re-execute each class's first witness through `replay` (must return the classes hit by that
    /// single case); a witness that does not reproduce is a machinery error. Then emit one
    /// violation per class into `st`.
    pub fn emit(&self, st: &mut Stats, replay: &dyn Fn(&Value) -> Classes) {
        for (class, h) in &self.map {
            let again = replay(&h.replay);
            if !again.map.contains_key(class) {
                println!(
                    "MACHINERY-ERROR: violation class {class} witness {} did not reproduce on re-execution (got {:?})",
                    h.witness,
                    again.map.keys().collect::<Vec<_>>()
                );
                std::process::exit(2);
            }
            let key = format!("{class}/{}", h.witness);
            st.violation(key, format!("{} [{} case(s) of this class]", h.what, h.count), h.replay.clone());
            st.violations_total += h.count - 1;
        }
    }
}

/// A `Stats` + `Classes` pair that worker shards return.
#[derive(Default, Clone)]
pub struct Acc {
    pub st: Stats,
    pub cl: Classes,
    /// free-form named counters (verdict counts etc.), merged by addition
    pub counters: BTreeMap<String, u64>,
}

impl Acc {
    pub fn new() -> Self {
        Self::default()
    }
    pub fn count(&mut self, name: &str) {
        *self.counters.entry(name.to_string()).or_insert(0) += 1;
    }
    pub fn count_n(&mut self, name: &str, n: u64) {
        *self.counters.entry(name.to_string()).or_insert(0) += n;
    }
    pub fn merge(&mut self, o: Acc) {
        self.st.merge(o.st);
        self.cl.merge(o.cl);
        for (k, v) in o.counters {
            *self.counters.entry(k).or_insert(0) += v;
        }
    }
}

/// Like `vf_explore::par_map` but for `Acc`.
pub fn par_acc<F>(n: usize, threads: usize, work: F) -> Acc
where
    F: Fn(usize) -> Acc + Sync,
{
    let next = std::sync::atomic::AtomicUsize::new(0);
    let total = std::sync::Mutex::new(Acc::new());
    let threads = threads.max(1).min(n.max(1));
    std::thread::scope(|sc| {
        for _ in 0..threads {
            sc.spawn(|| {
                let mut local = Acc::new();
                loop {
                    let i = next.fetch_add(1, std::sync::atomic::Ordering::SeqCst);
                    if i >= n {
                        break;
                    }
                    local.merge(work(i));
                }
                total.lock().unwrap().merge(local);
            });
        }
    });
    total.into_inner().unwrap()
}
