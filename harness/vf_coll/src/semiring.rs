//! C09, second half: the shipped semiring applications (`lattices::semiring_application`) satisfy the
//! semiring laws they claim, on all triples over a boundary alphabet.
//!
//! Each law instance is a pair of expression trees; both sides are evaluated with the REAL
//! `Addition::add` / `Multiplication::mul` (panics caught) and with an exact model of the claimed
//! structure (`None` = some intermediate value is not representable in the carrier type).
//! Judgement:
//!   * model defined everywhere: both real sides must return exactly the model's value (no panic);
//!   * model undefined somewhere (true value exceeds u32): a panic on either side is a *refusal*
//!     (counted, not a violation); if neither side panics the two real results must still be equal,
//!     otherwise the law is broken silently on representable inputs -> violation.
use std::fmt::Debug;

use lattices::semiring_application::{BinaryTrust, ConfidenceScore, Cost, FuzzyLogic, Multiplicity, U32WithInfinity};
use lattices::{Addition, Multiplication, One, Zero};
use vf_explore::{Value, catch, json};

use crate::classes::{Acc, Classes};

/// Read the single private field of a semiring application (they have no accessor).
fn peek<T, R: Copy>(t: &T) -> R {
    assert_eq!(std::mem::size_of::<T>(), std::mem::size_of::<R>());
    assert_eq!(std::mem::align_of::<T>(), std::mem::align_of::<R>());
    unsafe { std::ptr::read(t as *const T as *const R) }
}
/// Build a semiring application from its single field (only needed for `BinaryTrust(false)`, which
/// no public constructor produces).
fn forge<T, R: Copy>(r: R) -> T {
    assert_eq!(std::mem::size_of::<T>(), std::mem::size_of::<R>());
    assert_eq!(std::mem::align_of::<T>(), std::mem::align_of::<R>());
    unsafe { std::mem::transmute_copy::<R, T>(&r) }
}

pub trait App: Sized {
    type Raw: Copy + PartialEq + Debug;
    const NAME: &'static str;
    const CLAIM: &'static str;
    fn alphabet() -> Vec<Self::Raw>;
    fn make(r: Self::Raw) -> Self;
    fn raw(&self) -> Self::Raw;
    fn add_(&mut self, o: Self);
    fn mul_(&mut self, o: Self);
    fn zero_(&self) -> Self::Raw;
    fn one_(&self) -> Self::Raw;
    /// exact operations of the claimed structure; None = result not representable
    fn m_add(a: Self::Raw, b: Self::Raw) -> Option<Self::Raw>;
    fn m_mul(a: Self::Raw, b: Self::Raw) -> Option<Self::Raw>;
    fn m_zero() -> Self::Raw;
    fn m_one() -> Self::Raw;
}

impl App for BinaryTrust {
    type Raw = bool;
    const NAME: &'static str = "BinaryTrust";
    const CLAIM: &'static str = "({0,1}, OR, AND, False, True)";
    fn alphabet() -> Vec<bool> {
        vec![false, true]
    }
    fn make(r: bool) -> Self {
        if r { BinaryTrust::new() } else { forge::<BinaryTrust, bool>(false) }
    }
    fn raw(&self) -> bool {
        peek::<BinaryTrust, bool>(self)
    }
    fn add_(&mut self, o: Self) {
        Addition::add(self, o)
    }
    fn mul_(&mut self, o: Self) {
        Multiplication::mul(self, o)
    }
    fn zero_(&self) -> bool {
        Zero::zero(self)
    }
    fn one_(&self) -> bool {
        One::one(self)
    }
    fn m_add(a: bool, b: bool) -> Option<bool> {
        Some(a | b)
    }
    fn m_mul(a: bool, b: bool) -> Option<bool> {
        Some(a & b)
    }
    fn m_zero() -> bool {
        false
    }
    fn m_one() -> bool {
        true
    }
}

impl App for Multiplicity {
    type Raw = u32;
    const NAME: &'static str = "Multiplicity";
    const CLAIM: &'static str = "(N, +, *, 0, 1)";
    fn alphabet() -> Vec<u32> {
        vec![0, 1, 2, 3, 65535, 65536, u32::MAX - 1, u32::MAX]
    }
    fn make(r: u32) -> Self {
        Multiplicity::new(r)
    }
    fn raw(&self) -> u32 {
        peek::<Multiplicity, u32>(self)
    }
    fn add_(&mut self, o: Self) {
        Addition::add(self, o)
    }
    fn mul_(&mut self, o: Self) {
        Multiplication::mul(self, o)
    }
    fn zero_(&self) -> u32 {
        Zero::zero(self)
    }
    fn one_(&self) -> u32 {
        One::one(self)
    }
    fn m_add(a: u32, b: u32) -> Option<u32> {
        u32::try_from(a as u64 + b as u64).ok()
    }
    fn m_mul(a: u32, b: u32) -> Option<u32> {
        u32::try_from(a as u64 * b as u64).ok()
    }
    fn m_zero() -> u32 {
        0
    }
    fn m_one() -> u32 {
        1
    }
}

impl App for Cost {
    type Raw = U32WithInfinity;
    const NAME: &'static str = "Cost";
    const CLAIM: &'static str = "(N U Inf, min, +, inf, 0)";
    fn alphabet() -> Vec<U32WithInfinity> {
        use U32WithInfinity::*;
        vec![Finite(0), Finite(1), Finite(2), Finite(u32::MAX - 1), Finite(u32::MAX), Infinity]
    }
    fn make(r: U32WithInfinity) -> Self {
        Cost::new(r)
    }
    fn raw(&self) -> U32WithInfinity {
        peek::<Cost, U32WithInfinity>(self)
    }
    fn add_(&mut self, o: Self) {
        Addition::add(self, o)
    }
    fn mul_(&mut self, o: Self) {
        Multiplication::mul(self, o)
    }
    fn zero_(&self) -> U32WithInfinity {
        Zero::zero(self)
    }
    fn one_(&self) -> U32WithInfinity {
        One::one(self)
    }
    fn m_add(a: U32WithInfinity, b: U32WithInfinity) -> Option<U32WithInfinity> {
        use U32WithInfinity::*;
        Some(match (a, b) {
            (Infinity, x) => x,
            (x, Infinity) => x,
            (Finite(x), Finite(y)) => Finite(if x < y { x } else { y }),
        })
    }
    fn m_mul(a: U32WithInfinity, b: U32WithInfinity) -> Option<U32WithInfinity> {
        use U32WithInfinity::*;
        match (a, b) {
            (Finite(x), Finite(y)) => u32::try_from(x as u64 + y as u64).ok().map(Finite),
            _ => Some(Infinity),
        }
    }
    fn m_zero() -> U32WithInfinity {
        U32WithInfinity::Infinity
    }
    fn m_one() -> U32WithInfinity {
        U32WithInfinity::Finite(0)
    }
}

/// fixed-point helpers: the f64 alphabet is dyadic, so products of up to three values are exact
/// multiples of 2^-12.
fn fix(x: f64) -> u64 {
    let f = x * 4096.0;
    assert!(f.fract() == 0.0 && f >= 0.0, "alphabet value {x} is not a multiple of 2^-12");
    f as u64
}
fn unfix(n: u64) -> f64 {
    n as f64 / 4096.0
}

impl App for ConfidenceScore {
    type Raw = f64;
    const NAME: &'static str = "ConfidenceScore";
    const CLAIM: &'static str = "([0,1], max, *, 0, 1)";
    fn alphabet() -> Vec<f64> {
        vec![0.0, 0.25, 0.5, 1.0]
    }
    fn make(r: f64) -> Self {
        ConfidenceScore::new(r)
    }
    fn raw(&self) -> f64 {
        peek::<ConfidenceScore, f64>(self)
    }
    fn add_(&mut self, o: Self) {
        Addition::add(self, o)
    }
    fn mul_(&mut self, o: Self) {
        Multiplication::mul(self, o)
    }
    fn zero_(&self) -> f64 {
        Zero::zero(self)
    }
    fn one_(&self) -> f64 {
        One::one(self)
    }
    fn m_add(a: f64, b: f64) -> Option<f64> {
        Some(unfix(fix(a).max(fix(b))))
    }
    fn m_mul(a: f64, b: f64) -> Option<f64> {
        let p = fix(a) * fix(b);
        assert!(p % 4096 == 0, "product {a}*{b} leaves the 2^-12 grid");
        Some(unfix(p / 4096))
    }
    fn m_zero() -> f64 {
        0.0
    }
    fn m_one() -> f64 {
        1.0
    }
}

impl App for FuzzyLogic {
    type Raw = f64;
    const NAME: &'static str = "FuzzyLogic";
    const CLAIM: &'static str = "([0,1], max, min, 0, 1)";
    fn alphabet() -> Vec<f64> {
        vec![0.0, 0.25, 0.5, 1.0]
    }
    fn make(r: f64) -> Self {
        FuzzyLogic::new(r)
    }
    fn raw(&self) -> f64 {
        peek::<FuzzyLogic, f64>(self)
    }
    fn add_(&mut self, o: Self) {
        Addition::add(self, o)
    }
    fn mul_(&mut self, o: Self) {
        Multiplication::mul(self, o)
    }
    fn zero_(&self) -> f64 {
        Zero::zero(self)
    }
    fn one_(&self) -> f64 {
        One::one(self)
    }
    fn m_add(a: f64, b: f64) -> Option<f64> {
        Some(unfix(fix(a).max(fix(b))))
    }
    fn m_mul(a: f64, b: f64) -> Option<f64> {
        Some(unfix(fix(a).min(fix(b))))
    }
    fn m_zero() -> f64 {
        0.0
    }
    fn m_one() -> f64 {
        1.0
    }
}

/// Expression over the three quantified variables and the two constants.
#[derive(Clone, Debug)]
enum E {
    A,
    B,
    C,
    Zero,
    One,
    Add(Box<E>, Box<E>),
    Mul(Box<E>, Box<E>),
}
fn add(l: E, r: E) -> E {
    E::Add(Box::new(l), Box::new(r))
}
fn mul(l: E, r: E) -> E {
    E::Mul(Box::new(l), Box::new(r))
}

/// the laws of a semiring (arity = number of quantified variables)
fn laws() -> Vec<(&'static str, usize, E, E)> {
    use E::*;
    vec![
        ("add_associative", 3, add(add(A, B), C), add(A, add(B, C))),
        ("add_commutative", 2, add(A, B), add(B, A)),
        ("add_zero_right", 1, add(A, Zero), A),
        ("add_zero_left", 1, add(Zero, A), A),
        ("mul_associative", 3, mul(mul(A, B), C), mul(A, mul(B, C))),
        ("mul_one_right", 1, mul(A, One), A),
        ("mul_one_left", 1, mul(One, A), A),
        ("zero_absorbs_right", 1, mul(A, Zero), Zero),
        ("zero_absorbs_left", 1, mul(Zero, A), Zero),
        ("left_distributive", 3, mul(A, add(B, C)), add(mul(A, B), mul(A, C))),
        ("right_distributive", 3, mul(add(B, C), A), add(mul(B, A), mul(C, A))),
    ]
}

fn eval_real<T: App>(e: &E, env: &[T::Raw; 3]) -> T {
    match e {
        E::A => T::make(env[0]),
        E::B => T::make(env[1]),
        E::C => T::make(env[2]),
        // the constants are the ones the type itself reports through Zero / One
        E::Zero => {
            let probe = T::make(env[0]);
            T::make(probe.zero_())
        }
        E::One => {
            let probe = T::make(env[0]);
            T::make(probe.one_())
        }
        E::Add(l, r) => {
            let mut x = eval_real::<T>(l, env);
            let y = eval_real::<T>(r, env);
            x.add_(y);
            x
        }
        E::Mul(l, r) => {
            let mut x = eval_real::<T>(l, env);
            let y = eval_real::<T>(r, env);
            x.mul_(y);
            x
        }
    }
}
fn eval_model<T: App>(e: &E, env: &[T::Raw; 3]) -> Option<T::Raw> {
    Some(match e {
        E::A => env[0],
        E::B => env[1],
        E::C => env[2],
        E::Zero => T::m_zero(),
        E::One => T::m_one(),
        E::Add(l, r) => T::m_add(eval_model::<T>(l, env)?, eval_model::<T>(r, env)?)?,
        E::Mul(l, r) => T::m_mul(eval_model::<T>(l, env)?, eval_model::<T>(r, env)?)?,
    })
}

fn judge<T: App>(law: &str, lhs: &E, rhs: &E, env: [T::Raw; 3], arity: usize, order: (u64, u64), acc: &mut Acc) {
    acc.st.eval();
    let rl = catch(|| eval_real::<T>(lhs, &env).raw());
    let rr = catch(|| eval_real::<T>(rhs, &env).raw());
    let ml = eval_model::<T>(lhs, &env);
    let mr = eval_model::<T>(rhs, &env);
    acc.st.nontrivial(&(T::NAME, law, format!("{:?}", &env[..arity])));
    let vars = format!("{:?}", &env[..arity]);
    let hit = |kind: &str, text: String, acc: &mut Acc| {
        let envs: Vec<String> = env.iter().map(|x| format!("{x:?}")).collect();
        acc.cl.hit(&format!("semiring::{}/{law}/{kind}", T::NAME), order, || {
            (
                format!("vars={vars}"),
                format!("{} claims {}: law {law} with (a,b,c)[..{arity}] = {vars}: {text}", T::NAME, T::CLAIM),
                json!({"semiring": T::NAME, "law": law, "env": envs}),
            )
        });
    };
    match (ml, mr) {
        (Some(a), Some(b)) => {
            // the model is a semiring: both sides agree in the claimed structure
            assert!(a == b, "oracle bug: model violates {law} on {vars}");
            match (&rl, &rr) {
                (Ok(x), Ok(y)) => {
                    acc.count(&format!("semiring/{}:law_instances_exact", T::NAME));
                    acc.st.outcome(&(T::NAME, "exact", format!("{x:?}")));
                    if *x != a || *y != b {
                        hit("wrong-value", format!("lhs = {x:?}, rhs = {y:?}, exact value {a:?}"), acc);
                    }
                }
                _ => {
                    acc.st.outcome(&(T::NAME, "panic-in-range"));
                    hit("panics-in-range", format!("lhs -> {rl:?}, rhs -> {rr:?} although every intermediate value ({a:?}) is representable"), acc);
                }
            }
        }
        _ => match (&rl, &rr) {
            (Ok(x), Ok(y)) => {
                acc.count(&format!("semiring/{}:overflow_silent", T::NAME));
                acc.st.outcome(&(T::NAME, "overflow-silent", x == y));
                if x != y {
                    hit(
                        "law-broken-by-silent-overflow",
                        format!("lhs = {x:?}, rhs = {y:?} (no panic; an intermediate exceeds the carrier type; exact lhs {ml:?}, exact rhs {mr:?})"),
                        acc,
                    );
                }
            }
            _ => {
                acc.count(&format!("semiring/{}:overflow_refused_by_panic", T::NAME));
                acc.st.outcome(&(T::NAME, "overflow-refused", rl.is_ok(), rr.is_ok()));
            }
        },
    }
}

fn self_test<T: App>() {
    for r in T::alphabet() {
        let back = T::make(r).raw();
        if back != r {
            println!("MACHINERY-ERROR: semiring {}: field access self-test failed ({r:?} read back as {back:?})", T::NAME);
            std::process::exit(2);
        }
    }
}

fn run_app<T: App>(sec: u64, app_idx: u64, acc: &mut Acc) {
    self_test::<T>();
    let al = T::alphabet();
    // the identities the type reports must be the claimed ones
    acc.st.eval();
    let probe = T::make(al[0]);
    if probe.zero_() != T::m_zero() || probe.one_() != T::m_one() {
        let (z, o) = (probe.zero_(), probe.one_());
        acc.cl.hit(&format!("semiring::{}/constants/wrong-value", T::NAME), (sec, app_idx << 32), || {
            (String::from("zero,one"), format!("{} reports zero = {z:?}, one = {o:?}; claimed {}", T::NAME, T::CLAIM), json!({"semiring": T::NAME, "law": "constants", "env": []}))
        });
    }
    let mut idx = app_idx << 32;
    for (law, arity, lhs, rhs) in laws() {
        let n = al.len();
        let total = n.pow(arity as u32);
        for k in 0..total {
            let env = [al[k % n], al[(k / n) % n], al[(k / n / n) % n]];
            idx += 1;
            judge::<T>(law, &lhs, &rhs, env, arity, (sec, idx), acc);
        }
    }
}

pub fn run(sec: u64) -> Acc {
    // BinaryTrust(false) is forged: check the forged `true` is indistinguishable from the real one
    let t: BinaryTrust = forge::<BinaryTrust, bool>(true);
    if t != BinaryTrust::new() || format!("{:?}", BinaryTrust::make(false)) != "BinaryTrust(false)" {
        println!("MACHINERY-ERROR: BinaryTrust layout self-test failed");
        std::process::exit(2);
    }
    let mut acc = Acc::new();
    run_app::<BinaryTrust>(sec, 0, &mut acc);
    run_app::<Multiplicity>(sec, 1, &mut acc);
    run_app::<Cost>(sec, 2, &mut acc);
    run_app::<ConfidenceScore>(sec, 3, &mut acc);
    run_app::<FuzzyLogic>(sec, 4, &mut acc);
    acc
}

fn replay_app<T: App>(case: &Value, verbose: bool) -> Classes {
    let mut acc = Acc::new();
    let al = T::alphabet();
    let law = case["law"].as_str().unwrap_or("");
    if law == "constants" {
        run_app::<T>(0, 0, &mut acc);
        acc.cl.map.retain(|k, _| k.contains("/constants/"));
        return acc.cl;
    }
    let envs: Vec<T::Raw> = case["env"]
        .as_array()
        .expect("env")
        .iter()
        .map(|s| {
            let s = s.as_str().unwrap();
            *al.iter().find(|x| format!("{x:?}") == s).unwrap_or_else(|| panic!("value {s} not in alphabet"))
        })
        .collect();
    let env = [envs[0], envs[1], envs[2]];
    for (l, arity, lhs, rhs) in laws() {
        if l == law {
            if verbose {
                let rl = catch(|| eval_real::<T>(&lhs, &env).raw());
                let rr = catch(|| eval_real::<T>(&rhs, &env).raw());
                println!("  {} {law} on {:?}: real lhs = {rl:?}, real rhs = {rr:?}, exact lhs = {:?}, exact rhs = {:?}", T::NAME, &env[..arity], eval_model::<T>(&lhs, &env), eval_model::<T>(&rhs, &env));
            }
            judge::<T>(l, &lhs, &rhs, env, arity, (0, 0), &mut acc);
        }
    }
    acc.cl
}

pub fn replay_case(case: &Value, verbose: bool) -> Classes {
    match case["semiring"].as_str().unwrap_or("") {
        "BinaryTrust" => replay_app::<BinaryTrust>(case, verbose),
        "Multiplicity" => replay_app::<Multiplicity>(case, verbose),
        "Cost" => replay_app::<Cost>(case, verbose),
        "ConfidenceScore" => replay_app::<ConfidenceScore>(case, verbose),
        "FuzzyLogic" => replay_app::<FuzzyLogic>(case, verbose),
        other => panic!("unknown semiring {other}"),
    }
}
