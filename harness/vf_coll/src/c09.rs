use vf_explore::{Report, Value};
use crate::classes::Classes;
pub fn run(_rep: &mut Report) {}
pub fn replay_case(_case: &Value, _verbose: bool) -> Classes { Classes::new() }
