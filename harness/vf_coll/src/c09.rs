//! C09 — algebra law checkers are exact (`lattices::algebra`), shipped semirings satisfy their laws.
//!
//! Product enumeration: every operation table over carriers {0}, {0,1}, {0,1,2}, every candidate
//! identity / zero / one element, every unary (inverse) table; each checker's verdict is compared
//! with an independent brute-force evaluation of the law's definition (`o_*` functions below, written
//! from the doc comments in algebra.rs, evaluated over all tuples without consulting the checker).
use lattices::algebra as alg;
use vf_explore::{Report, Stats, Value, json, ncpu};

use crate::classes::{Acc, Classes, par_acc};

pub type Tab = [[u8; 3]; 3];
pub type Un = [u8; 3];

#[derive(Clone, Copy, Debug, PartialEq, Eq, Hash)]
#[repr(usize)]
pub enum Ck {
    Associativity,
    Commutativity,
    Idempotency,
    Semigroup,
    Identity,
    Monoid,
    CommutativeMonoid,
    AbsorbingElement,
    NoNonzeroZeroDivisors,
    Inverse,
    Group,
    AbelianGroup,
    NonzeroInverse,
    SingleProps,
    LeftDistributes,
    RightDistributes,
    Distributive,
    Semiring,
    Ring,
    CommutativeRing,
    IntegralDomain,
    Field,
    Linearity,
    Bilinearity,
}
pub const NCK: usize = 24;
pub const CK_NAMES: [&str; NCK] = [
    "associativity",
    "commutativity",
    "idempotency",
    "semigroup",
    "identity",
    "monoid",
    "commutative_monoid",
    "absorbing_element",
    "no_nonzero_zero_divisors",
    "inverse",
    "group",
    "abelian_group",
    "nonzero_inverse",
    "get_single_function_properties",
    "left_distributes",
    "right_distributes",
    "distributive",
    "semiring",
    "ring",
    "commutative_ring",
    "integral_domain",
    "field",
    "linearity",
    "bilinearity",
];
const ALL_CK: [Ck; NCK] = [
    Ck::Associativity,
    Ck::Commutativity,
    Ck::Idempotency,
    Ck::Semigroup,
    Ck::Identity,
    Ck::Monoid,
    Ck::CommutativeMonoid,
    Ck::AbsorbingElement,
    Ck::NoNonzeroZeroDivisors,
    Ck::Inverse,
    Ck::Group,
    Ck::AbelianGroup,
    Ck::NonzeroInverse,
    Ck::SingleProps,
    Ck::LeftDistributes,
    Ck::RightDistributes,
    Ck::Distributive,
    Ck::Semiring,
    Ck::Ring,
    Ck::CommutativeRing,
    Ck::IntegralDomain,
    Ck::Field,
    Ck::Linearity,
    Ck::Bilinearity,
];
fn ck_by_name(s: &str) -> Ck {
    ALL_CK[CK_NAMES.iter().position(|n| *n == s).unwrap_or_else(|| panic!("unknown checker {s}"))]
}

/// One case for the fixed-carrier checkers. Meaning of the parameters per checker:
/// identity/monoid/commutative_monoid: e = `zero`; absorbing_element: z = `zero`;
/// no_nonzero_zero_divisors: zero = `zero`; inverse/group/abelian_group: e = `zero`, b = `b`;
/// nonzero_inverse: e = `one`, zero = `zero`, b = `b`;
/// get_single_function_properties: e = `zero`, b = `b`, z = `one`;
/// two-operation checkers: (f, g, zero, one, inverse_f = `b`, inverse_g = `b2`).
#[derive(Clone, Copy, Debug)]
pub struct Case {
    pub ck: Ck,
    pub n: usize,
    pub f: Tab,
    pub g: Tab,
    pub zero: u8,
    pub one: u8,
    pub b: Un,
    pub b2: Un,
}

// ---- the real checkers -----------------------------------------------------------------------------

fn r(x: Result<(), &'static str>) -> u32 {
    x.is_ok() as u32
}

pub fn run_checker_n<const N: usize>(c: &Case) -> u32 {
    let items: [u8; N] = core::array::from_fn(|i| i as u8);
    let (ft, gt, bt, b2t) = (c.f, c.g, c.b, c.b2);
    let f = move |a: u8, b: u8| ft[a as usize][b as usize];
    let g = move |a: u8, b: u8| gt[a as usize][b as usize];
    let b = move |a: u8| bt[a as usize];
    let b2 = move |a: u8| b2t[a as usize];
    let (zero, one) = (c.zero, c.one);
    match c.ck {
        Ck::Associativity => r(alg::associativity(&items, &f)),
        Ck::Commutativity => r(alg::commutativity(&items, &f)),
        Ck::Idempotency => r(alg::idempotency(&items, &f)),
        Ck::Semigroup => r(alg::semigroup(&items, &f)),
        Ck::Identity => r(alg::identity(&items, &f, zero)),
        Ck::Monoid => r(alg::monoid(&items, &f, zero)),
        Ck::CommutativeMonoid => r(alg::commutative_monoid(&items, &f, zero)),
        Ck::AbsorbingElement => r(alg::absorbing_element(&items, &f, zero)),
        Ck::NoNonzeroZeroDivisors => r(alg::no_nonzero_zero_divisors(&items, &f, zero)),
        Ck::Inverse => r(alg::inverse(&items, &f, zero, &b)),
        Ck::Group => r(alg::group(&items, &f, zero, &b)),
        Ck::AbelianGroup => r(alg::abelian_group(&items, &f, zero, &b)),
        Ck::NonzeroInverse => r(alg::nonzero_inverse(&items, &f, one, zero, &b)),
        Ck::SingleProps => {
            let props = alg::get_single_function_properties(&items, &f, zero, &b, one);
            let names = ["associativity", "commutativity", "idempotency", "identity", "inverse", "absorbing_element"];
            let mut mask = 0u32;
            let mut last = None;
            for p in props {
                let i = names.iter().position(|n| *n == p).map(|i| i as u32).unwrap_or(31);
                // the documented output lists properties in the fixed order above, each once
                if let Some(l) = last {
                    if i <= l {
                        mask |= 1 << 30;
                    }
                }
                last = Some(i);
                mask |= 1 << i;
            }
            mask
        }
        Ck::LeftDistributes => r(alg::left_distributes(&items, &f, &g)),
        Ck::RightDistributes => r(alg::right_distributes(&items, &f, &g)),
        Ck::Distributive => r(alg::distributive(&items, &f, &g)),
        Ck::Semiring => r(alg::semiring(&items, &f, &g, zero, one)),
        Ck::Ring => r(alg::ring(&items, &f, &g, zero, one, &b)),
        Ck::CommutativeRing => r(alg::commutative_ring(&items, &f, &g, zero, one, &b)),
        Ck::IntegralDomain => r(alg::integral_domain(&items, &f, &g, zero, one, &b)),
        Ck::Field => r(alg::field(&items, &f, &g, zero, one, &b, &b2)),
        Ck::Linearity | Ck::Bilinearity => unreachable!(),
    }
}
pub fn run_checker(c: &Case) -> u32 {
    match c.n {
        1 => run_checker_n::<1>(c),
        2 => run_checker_n::<2>(c),
        3 => run_checker_n::<3>(c),
        n => panic!("carrier size {n}"),
    }
}

// ---- the independent oracle ------------------------------------------------------------------------
// Plain index arithmetic on the tables; each function evaluates the documented definition over all
// tuples of the carrier {0..n-1}.

fn o_assoc(t: &Tab, n: usize) -> bool {
    let mut ok = true;
    for a in 0..n {
        for b in 0..n {
            for c in 0..n {
                ok &= t[t[a][b] as usize][c] == t[a][t[b][c] as usize];
            }
        }
    }
    ok
}
fn o_comm(t: &Tab, n: usize) -> bool {
    let mut ok = true;
    for a in 0..n {
        for b in 0..n {
            ok &= t[a][b] == t[b][a];
        }
    }
    ok
}
fn o_idem(t: &Tab, n: usize) -> bool {
    (0..n).filter(|&a| t[a][a] as usize != a).count() == 0
}
fn o_ident(t: &Tab, n: usize, e: u8) -> bool {
    let e = e as usize;
    (0..n).filter(|&a| t[a][e] as usize != a || t[e][a] as usize != a).count() == 0
}
fn o_absorb(t: &Tab, n: usize, z: u8) -> bool {
    let zi = z as usize;
    (0..n).filter(|&a| t[a][zi] != z || t[zi][a] != z).count() == 0
}
fn o_inverse(t: &Tab, n: usize, e: u8, b: &Un) -> bool {
    (0..n).filter(|&a| t[a][b[a] as usize] != e || t[b[a] as usize][a] != e).count() == 0
}
fn o_nonzero_inverse(t: &Tab, n: usize, e: u8, zero: u8, b: &Un) -> bool {
    (0..n).filter(|&a| a as u8 != zero && (t[a][b[a] as usize] != e || t[b[a] as usize][a] != e)).count() == 0
}
fn o_nzd(t: &Tab, n: usize, zero: u8) -> bool {
    let mut bad = 0;
    for a in 0..n {
        for b in 0..n {
            if a as u8 != zero && b as u8 != zero && t[a][b] == zero {
                bad += 1;
            }
        }
    }
    bad == 0
}
fn o_monoid(t: &Tab, n: usize, e: u8) -> bool {
    o_assoc(t, n) && o_ident(t, n, e)
}
fn o_cmonoid(t: &Tab, n: usize, e: u8) -> bool {
    o_monoid(t, n, e) && o_comm(t, n)
}
fn o_group(t: &Tab, n: usize, e: u8, b: &Un) -> bool {
    o_monoid(t, n, e) && o_inverse(t, n, e, b)
}
/// a(b+c) = ab + ac   (f is +, g is juxtaposition)
fn o_ldist(f: &Tab, g: &Tab, n: usize) -> bool {
    let mut ok = true;
    for a in 0..n {
        for b in 0..n {
            for c in 0..n {
                ok &= g[a][f[b][c] as usize] == f[g[a][b] as usize][g[a][c] as usize];
            }
        }
    }
    ok
}
/// (b+c)a = ba + ca
fn o_rdist(f: &Tab, g: &Tab, n: usize) -> bool {
    let mut ok = true;
    for a in 0..n {
        for b in 0..n {
            for c in 0..n {
                ok &= g[f[b][c] as usize][a] == f[g[b][a] as usize][g[c][a] as usize];
            }
        }
    }
    ok
}
/// "two associative operations f, g with identities zero, one; f commutative; g distributes over f;
/// the zero of f absorbing for g"
fn o_semiring(c: &Case) -> bool {
    o_cmonoid(&c.f, c.n, c.zero)
        && o_monoid(&c.g, c.n, c.one)
        && o_absorb(&c.g, c.n, c.zero)
        && o_ldist(&c.f, &c.g, c.n)
        && o_rdist(&c.f, &c.g, c.n)
}
fn o_ring(c: &Case) -> bool {
    o_semiring(c) && o_inverse(&c.f, c.n, c.zero, &c.b)
}
fn o_cring(c: &Case) -> bool {
    o_ring(c) && o_comm(&c.g, c.n)
}

pub fn oracle(c: &Case) -> u32 {
    let n = c.n;
    let t = &c.f;
    let v = match c.ck {
        Ck::Associativity | Ck::Semigroup => o_assoc(t, n),
        Ck::Commutativity => o_comm(t, n),
        Ck::Idempotency => o_idem(t, n),
        Ck::Identity => o_ident(t, n, c.zero),
        Ck::Monoid => o_monoid(t, n, c.zero),
        Ck::CommutativeMonoid => o_cmonoid(t, n, c.zero),
        Ck::AbsorbingElement => o_absorb(t, n, c.zero),
        Ck::NoNonzeroZeroDivisors => o_nzd(t, n, c.zero),
        Ck::Inverse => o_inverse(t, n, c.zero, &c.b),
        Ck::Group => o_group(t, n, c.zero, &c.b),
        Ck::AbelianGroup => o_group(t, n, c.zero, &c.b) && o_comm(t, n),
        Ck::NonzeroInverse => o_nonzero_inverse(t, n, c.one, c.zero, &c.b),
        Ck::SingleProps => {
            let bits = [
                o_assoc(t, n),
                o_comm(t, n),
                o_idem(t, n),
                o_ident(t, n, c.zero),
                o_inverse(t, n, c.zero, &c.b),
                o_absorb(t, n, c.one),
            ];
            return bits.iter().enumerate().map(|(i, b)| (*b as u32) << i).sum();
        }
        Ck::LeftDistributes => o_ldist(&c.f, &c.g, n),
        Ck::RightDistributes => o_rdist(&c.f, &c.g, n),
        Ck::Distributive => o_ldist(&c.f, &c.g, n) && o_rdist(&c.f, &c.g, n),
        Ck::Semiring => o_semiring(c),
        Ck::Ring => o_ring(c),
        Ck::CommutativeRing => o_cring(c),
        // "a NONZERO commutative ring with no nonzero zero divisors": nonzero ring = zero != one
        Ck::IntegralDomain => o_cring(c) && c.zero != c.one && o_nzd(&c.g, n, c.zero),
        // "a commutative ring where every element [except zero, see nonzero_inverse] has a
        // multiplicative inverse"
        Ck::Field => o_cring(c) && o_nonzero_inverse(&c.g, n, c.one, c.zero, &c.b2),
        Ck::Linearity | Ck::Bilinearity => unreachable!(),
    };
    v as u32
}

// ---- bookkeeping -----------------------------------------------------------------------------------

/// per-checker verdict counts: [checker][0 = rejected, 1 = accepted]
#[derive(Clone)]
pub struct Tally {
    pub n: [[u64; 2]; NCK],
    /// checker verdict != brute-force law
    pub mism: [u64; NCK],
    pub track_all: bool,
}
impl Tally {
    pub fn new(track_all: bool) -> Self {
        Tally { n: [[0; 2]; NCK], mism: [0; NCK], track_all }
    }
    pub fn fold(&self, acc: &mut Acc, section: &str) {
        for (i, name) in CK_NAMES.iter().enumerate() {
            if self.mism[i] > 0 {
                acc.count_n(&format!("{section}/{name}:disagreements_with_law"), self.mism[i]);
            }
            for v in 0..2 {
                if self.n[i][v] > 0 {
                    acc.count_n(&format!("{name}:{}", if v == 1 { "accepted" } else { "rejected" }), self.n[i][v]);
                    acc.count_n(&format!("{section}/{name}:{}", if v == 1 { "accepted" } else { "rejected" }), self.n[i][v]);
                }
            }
        }
    }
}

fn tab_flat(t: &Tab, n: usize) -> Vec<u8> {
    let mut o = vec![];
    for a in 0..n {
        for b in 0..n {
            o.push(t[a][b]);
        }
    }
    o
}
fn digits(v: &[u8]) -> String {
    v.iter().map(|d| char::from(b'0' + d)).collect()
}
fn uses_g(ck: Ck) -> bool {
    (ck as usize) >= (Ck::LeftDistributes as usize)
}

pub fn case_json(c: &Case) -> Value {
    json!({"checker": CK_NAMES[c.ck as usize], "n": c.n, "f": tab_flat(&c.f, c.n), "g": tab_flat(&c.g, c.n),
           "zero": c.zero, "one": c.one, "b": c.b[..c.n].to_vec(), "b2": c.b2[..c.n].to_vec()})
}
fn case_witness(c: &Case) -> String {
    let mut s = format!("n={},f={}", c.n, digits(&tab_flat(&c.f, c.n)));
    if uses_g(c.ck) {
        s += &format!(",g={}", digits(&tab_flat(&c.g, c.n)));
    }
    s += &format!(",zero={},one={},b={},b2={}", c.zero, c.one, digits(&c.b[..c.n]), digits(&c.b2[..c.n]));
    s
}
fn tab_of(v: &Value, n: usize) -> Tab {
    let mut t = [[0u8; 3]; 3];
    if let Some(a) = v.as_array() {
        for (i, x) in a.iter().enumerate() {
            t[i / n][i % n] = x.as_u64().unwrap() as u8;
        }
    }
    t
}
fn un_of(v: &Value) -> Un {
    let mut t = [0u8; 3];
    if let Some(a) = v.as_array() {
        for (i, x) in a.iter().enumerate() {
            t[i] = x.as_u64().unwrap() as u8;
        }
    }
    t
}

/// Execute the checker and the oracle for one case and compare.
#[inline]
pub fn judge(c: &Case, order: (u64, u64), acc: &mut Acc, tally: &mut Tally) {
    let got = run_checker(c);
    let want = oracle(c);
    acc.st.evaluations += 1;
    if c.ck != Ck::SingleProps {
        tally.n[c.ck as usize][got as usize & 1] += 1;
    } else {
        tally.n[c.ck as usize][(got != 0) as usize] += 1;
    }
    if tally.track_all || want != 0 {
        // non-trivial rule: small families record every case; the huge families record the cases in
        // which the law holds (the checker must go through every tuple to accept)
        acc.st.nontrivial(&(c.ck as usize, c.n, c.f, if uses_g(c.ck) { c.g } else { [[0; 3]; 3] }, c.zero, c.one, c.b, c.b2));
    }
    if got != want {
        tally.mism[c.ck as usize] += 1;
        let kind = if c.ck == Ck::SingleProps {
            "wrong-list"
        } else if got == 1 {
            "accepts-when-law-fails"
        } else {
            "rejects-when-law-holds"
        };
        let class = format!("algebra::{}/{kind}", CK_NAMES[c.ck as usize]);
        acc.cl.hit(&class, order, || {
            (
                case_witness(c),
                format!("{} returned {got} but brute-force evaluation of its law gives {want} on {}", CK_NAMES[c.ck as usize], case_witness(c)),
                case_json(c),
            )
        });
    }
}

fn pow(n: usize, e: usize) -> usize {
    n.pow(e as u32)
}
pub fn tab_from(idx: usize, n: usize) -> Tab {
    let mut t = [[0u8; 3]; 3];
    let mut x = idx;
    for a in 0..n {
        for b in 0..n {
            t[a][b] = (x % n) as u8;
            x /= n;
        }
    }
    t
}
pub fn un_from(idx: usize, n: usize) -> Un {
    let mut t = [0u8; 3];
    let mut x = idx;
    for a in 0..n {
        t[a] = (x % n) as u8;
        x /= n;
    }
    t
}

fn outcome_marks(st: &mut Stats, tally: &Tally) {
    for i in 0..NCK {
        for v in 0..2 {
            if tally.n[i][v] > 0 {
                st.outcome(&(i, v));
            }
        }
    }
}

/// All single-operation checkers on every table of carrier size n.
fn single_section(sec: u64, n: usize, threads: usize) -> Acc {
    let nt = pow(n, n * n);
    let nu = pow(n, n);
    let name = format!("single/n={n}");
    par_acc(nt, threads, |fi| {
        let mut acc = Acc::new();
        let mut tally = Tally::new(n < 3);
        let f = tab_from(fi, n);
        let zt = [[0u8; 3]; 3];
        let base = Case { ck: Ck::Associativity, n, f, g: zt, zero: 0, one: 0, b: [0; 3], b2: [0; 3] };
        let mut idx = (fi as u64) << 20;
        let mut go = |c: Case, acc: &mut Acc, tally: &mut Tally| {
            idx += 1;
            judge(&c, (sec, idx), acc, tally);
        };
        for ck in [Ck::Associativity, Ck::Commutativity, Ck::Idempotency, Ck::Semigroup] {
            go(Case { ck, ..base }, &mut acc, &mut tally);
        }
        for e in 0..n as u8 {
            for ck in [Ck::Identity, Ck::Monoid, Ck::CommutativeMonoid, Ck::AbsorbingElement, Ck::NoNonzeroZeroDivisors] {
                go(Case { ck, zero: e, ..base }, &mut acc, &mut tally);
            }
            for bi in 0..nu {
                let b = un_from(bi, n);
                for ck in [Ck::Inverse, Ck::Group, Ck::AbelianGroup] {
                    go(Case { ck, zero: e, b, ..base }, &mut acc, &mut tally);
                }
                for z in 0..n as u8 {
                    go(Case { ck: Ck::NonzeroInverse, zero: e, one: z, b, ..base }, &mut acc, &mut tally);
                    go(Case { ck: Ck::SingleProps, zero: e, one: z, b, ..base }, &mut acc, &mut tally);
                }
            }
        }
        outcome_marks(&mut acc.st, &tally);
        tally.fold(&mut acc, &name);
        acc
    })
}

/// Two-operation checkers on f-tables `fs` x ALL g-tables of carrier size n. The parameter-free
/// distributivity checkers and `semiring` (all zero/one) run on every (f, g); `flags[g] & 1` selects
/// the g for which ring / commutative_ring / integral_domain run (all zero, one, inverse_f) and
/// `flags[g] & 2` those for which `field` runs (additionally all inverse_g); `flags[g] & 4` = only the
/// three distributivity checkers for this g.
fn pair_section(sec: u64, name: &str, n: usize, fs: &[usize], flags: &[u8], track_all: bool, threads: usize) -> Acc {
    let nt = pow(n, n * n);
    let nu = pow(n, n);
    // shard = (f, block of g) so that 16 threads stay busy even for few f
    let blocks = if nt >= 64 { 64 } else { 1 };
    let per = nt.div_ceil(blocks);
    par_acc(fs.len() * blocks, threads, |shard| {
        let mut acc = Acc::new();
        let mut tally = Tally::new(track_all);
        let fi = fs[shard / blocks];
        let blk = shard % blocks;
        let f = tab_from(fi, n);
        for gi in (blk * per)..((blk + 1) * per).min(nt) {
            let g = tab_from(gi, n);
            let base = Case { ck: Ck::Distributive, n, f, g, zero: 0, one: 0, b: [0; 3], b2: [0; 3] };
            let mut idx = ((fi * nt + gi) as u64) << 16;
            let mut go = |c: Case, acc: &mut Acc, tally: &mut Tally| {
                idx += 1;
                judge(&c, (sec, idx), acc, tally);
            };
            for ck in [Ck::LeftDistributes, Ck::RightDistributes, Ck::Distributive] {
                go(Case { ck, ..base }, &mut acc, &mut tally);
            }
            if flags[gi] & 4 != 0 {
                continue;
            }
            for zero in 0..n as u8 {
                for one in 0..n as u8 {
                    go(Case { ck: Ck::Semiring, zero, one, ..base }, &mut acc, &mut tally);
                    if flags[gi] & 1 == 0 {
                        continue;
                    }
                    for bi in 0..nu {
                        let b = un_from(bi, n);
                        for ck in [Ck::Ring, Ck::CommutativeRing, Ck::IntegralDomain] {
                            go(Case { ck, zero, one, b, ..base }, &mut acc, &mut tally);
                        }
                        if flags[gi] & 2 == 0 {
                            continue;
                        }
                        for b2i in 0..nu {
                            let b2 = un_from(b2i, n);
                            go(Case { ck: Ck::Field, zero, one, b, b2, ..base }, &mut acc, &mut tally);
                        }
                    }
                }
            }
        }
        outcome_marks(&mut acc.st, &tally);
        tally.fold(&mut acc, name);
        acc
    })
}

// ---- linearity / bilinearity -----------------------------------------------------------------------

pub type Tab6 = [[u8; 6]; 6];

#[derive(Clone, Copy)]
pub struct LinCase {
    pub ns: usize,
    pub nr: usize,
    pub f: Tab6,
    pub g: Tab6,
    pub q: [u8; 6],
}
#[derive(Clone, Copy)]
pub struct BilCase {
    pub ns: usize,
    pub nt: usize,
    pub nr: usize,
    pub f: Tab,
    pub h: Tab,
    pub g: Tab,
    pub q: Tab,
}

const ITEMS6: [u8; 6] = [0, 1, 2, 3, 4, 5];

fn run_linearity(c: &LinCase) -> bool {
    let (f, g, q) = (c.f, c.g, c.q);
    alg::linearity(
        &ITEMS6[..c.ns],
        move |a: u8, b: u8| f[a as usize][b as usize],
        move |a: u8, b: u8| g[a as usize][b as usize],
        move |a: u8| q[a as usize],
    )
    .is_ok()
}
/// q(a+b) = q(a) + q(b) for all a, b (q is a homomorphism from (S,f) to (R,g))
fn o_linearity(c: &LinCase) -> bool {
    let mut ok = true;
    for a in 0..c.ns {
        for b in 0..c.ns {
            ok &= c.q[c.f[a][b] as usize] == c.g[c.q[a] as usize][c.q[b] as usize];
        }
    }
    ok
}
fn run_bilinearity(c: &BilCase) -> bool {
    let (f, h, g, q) = (c.f, c.h, c.g, c.q);
    alg::bilinearity(
        &ITEMS6[..c.ns],
        &ITEMS6[..c.nt],
        move |a: u8, b: u8| f[a as usize][b as usize],
        move |a: u8, b: u8| h[a as usize][b as usize],
        move |a: u8, b: u8| g[a as usize][b as usize],
        move |a: u8, b: u8| q[a as usize][b as usize],
    )
    .is_ok()
}
/// q(a+b, c) = q(a,c) + q(b,c)  and  q(a, c+d) = q(a,c) + q(a,d)
fn o_bilinearity(c: &BilCase) -> bool {
    let mut ok = true;
    for a in 0..c.ns {
        for b in 0..c.ns {
            for x in 0..c.nt {
                ok &= c.q[c.f[a][b] as usize][x] == c.g[c.q[a][x] as usize][c.q[b][x] as usize];
            }
        }
    }
    for a in 0..c.ns {
        for x in 0..c.nt {
            for y in 0..c.nt {
                ok &= c.q[a][c.h[x][y] as usize] == c.g[c.q[a][x] as usize][c.q[a][y] as usize];
            }
        }
    }
    ok
}

fn tab6_flat(t: &Tab6, n: usize) -> Vec<u8> {
    let mut o = vec![];
    for a in 0..n {
        for b in 0..n {
            o.push(t[a][b]);
        }
    }
    o
}
fn tab6_of(v: &Value, n: usize) -> Tab6 {
    let mut t = [[0u8; 6]; 6];
    for (i, x) in v.as_array().unwrap().iter().enumerate() {
        t[i / n][i % n] = x.as_u64().unwrap() as u8;
    }
    t
}
fn tab_to6(t: &Tab) -> Tab6 {
    let mut o = [[0u8; 6]; 6];
    for a in 0..3 {
        for b in 0..3 {
            o[a][b] = t[a][b];
        }
    }
    o
}
fn lin_witness(c: &LinCase) -> String {
    format!("S={},R={},f={},g={},q={}", c.ns, c.nr, digits(&tab6_flat(&c.f, c.ns)), digits(&tab6_flat(&c.g, c.nr)), digits(&c.q[..c.ns]))
}
fn lin_json(c: &LinCase) -> Value {
    json!({"checker": "linearity", "ns": c.ns, "nr": c.nr, "f": tab6_flat(&c.f, c.ns), "g": tab6_flat(&c.g, c.nr), "q": c.q[..c.ns].to_vec()})
}
fn judge_lin(c: &LinCase, order: (u64, u64), track: bool, acc: &mut Acc, tally: &mut Tally) {
    let got = run_linearity(c);
    let want = o_linearity(c);
    acc.st.evaluations += 1;
    tally.n[Ck::Linearity as usize][got as usize] += 1;
    if track || want {
        acc.st.nontrivial(&("lin", c.ns, c.nr, c.f, c.g, c.q));
    }
    if got != want {
        tally.mism[Ck::Linearity as usize] += 1;
        let kind = if got { "accepts-when-law-fails" } else { "rejects-when-law-holds" };
        acc.cl.hit(&format!("algebra::linearity/{kind}"), order, || {
            (
                lin_witness(c),
                format!("linearity returned {} but q(f(a,b)) == g(q(a),q(b)) for all a,b is {want} on {}", if got { "Ok" } else { "Err" }, lin_witness(c)),
                lin_json(c),
            )
        });
    }
}
fn bil_witness(c: &BilCase) -> String {
    let mut q = vec![];
    for a in 0..c.ns {
        for b in 0..c.nt {
            q.push(c.q[a][b]);
        }
    }
    format!("S={},T={},R={},f={},h={},g={},q={}", c.ns, c.nt, c.nr, digits(&tab_flat(&c.f, c.ns)), digits(&tab_flat(&c.h, c.nt)), digits(&tab_flat(&c.g, c.nr)), digits(&q))
}
fn bil_json(c: &BilCase) -> Value {
    let mut q = vec![];
    for a in 0..c.ns {
        for b in 0..c.nt {
            q.push(c.q[a][b]);
        }
    }
    json!({"checker": "bilinearity", "ns": c.ns, "nt": c.nt, "nr": c.nr, "f": tab_flat(&c.f, c.ns), "h": tab_flat(&c.h, c.nt), "g": tab_flat(&c.g, c.nr), "q": q})
}
fn judge_bil(c: &BilCase, order: (u64, u64), track: bool, acc: &mut Acc, tally: &mut Tally) {
    let got = run_bilinearity(c);
    let want = o_bilinearity(c);
    acc.st.evaluations += 1;
    tally.n[Ck::Bilinearity as usize][got as usize] += 1;
    if track || want {
        acc.st.nontrivial(&("bil", c.ns, c.nt, c.nr, c.f, c.h, c.g, c.q));
    }
    if got != want {
        tally.mism[Ck::Bilinearity as usize] += 1;
        let kind = if got { "accepts-when-law-fails" } else { "rejects-when-law-holds" };
        acc.cl.hit(&format!("algebra::bilinearity/{kind}"), order, || {
            (bil_witness(c), format!("bilinearity returned {} but the law is {want} on {}", if got { "Ok" } else { "Err" }, bil_witness(c)), bil_json(c))
        });
    }
}

/// linearity over f in `fs` (tables on S), g in `gs` (tables on R), all maps q: S -> R.
fn lin_section(sec: u64, name: &str, ns: usize, nr: usize, fs: &[usize], gs: &[usize], track: bool, threads: usize) -> Acc {
    let nq = pow(nr, ns);
    par_acc(fs.len(), threads, |k| {
        let mut acc = Acc::new();
        let mut tally = Tally::new(track);
        let f = tab_to6(&tab_from(fs[k], ns));
        for (gk, gi) in gs.iter().enumerate() {
            let g = tab_to6(&tab_from(*gi, nr));
            for qi in 0..nq {
                let mut q = [0u8; 6];
                let mut x = qi;
                for a in 0..ns {
                    q[a] = (x % nr) as u8;
                    x /= nr;
                }
                let c = LinCase { ns, nr, f, g, q };
                judge_lin(&c, (sec, ((k * gs.len() + gk) * nq + qi) as u64), track, &mut acc, &mut tally);
            }
        }
        outcome_marks(&mut acc.st, &tally);
        tally.fold(&mut acc, name);
        acc
    })
}

/// bilinearity over f in `fs` (on S), h in `hs` (on T), g in `gs` (on R), all maps q: S x T -> R.
fn bil_section(sec: u64, name: &str, ns: usize, nt: usize, nr: usize, fs: &[usize], hs: &[usize], gs: &[usize], track: bool, threads: usize) -> Acc {
    let nq = pow(nr, ns * nt);
    par_acc(fs.len() * hs.len(), threads, |k| {
        let mut acc = Acc::new();
        let mut tally = Tally::new(track);
        let f = tab_from(fs[k / hs.len()], ns);
        let h = tab_from(hs[k % hs.len()], nt);
        for (gk, gi) in gs.iter().enumerate() {
            let g = tab_from(*gi, nr);
            for qi in 0..nq {
                let mut q = [[0u8; 3]; 3];
                let mut x = qi;
                for a in 0..ns {
                    for b in 0..nt {
                        q[a][b] = (x % nr) as u8;
                        x /= nr;
                    }
                }
                let c = BilCase { ns, nt, nr, f, h, g, q };
                judge_bil(&c, (sec, ((k * gs.len() + gk) * nq + qi) as u64), track, &mut acc, &mut tally);
            }
        }
        outcome_marks(&mut acc.st, &tally);
        tally.fold(&mut acc, name);
        acc
    })
}

/// Multiplication table of the symmetric group S3 (elements = permutations of {0,1,2} in
/// lexicographic order; product = composition "apply right factor first").
pub fn s3_table() -> Tab6 {
    let perms: [[u8; 3]; 6] = [[0, 1, 2], [0, 2, 1], [1, 0, 2], [1, 2, 0], [2, 0, 1], [2, 1, 0]];
    let mut t = [[0u8; 6]; 6];
    for a in 0..6 {
        for b in 0..6 {
            let c: [u8; 3] = core::array::from_fn(|i| perms[a][perms[b][i] as usize]);
            t[a][b] = perms.iter().position(|p| *p == c).unwrap() as u8;
        }
    }
    t
}

/// linearity with f = g = the group S3, all 6^6 maps q: S3 -> S3 (the smallest carrier on which
/// "group operation" does not imply "commutative").
fn lin_s3_section(sec: u64, threads: usize) -> Acc {
    let t = s3_table();
    par_acc(36, threads, |k| {
        let mut acc = Acc::new();
        let mut tally = Tally::new(true);
        for rest in 0..1296usize {
            let qi = k * 1296 + rest;
            let mut q = [0u8; 6];
            let mut x = qi;
            for a in 0..6 {
                q[a] = (x % 6) as u8;
                x /= 6;
            }
            let c = LinCase { ns: 6, nr: 6, f: t, g: t, q };
            judge_lin(&c, (sec, qi as u64), true, &mut acc, &mut tally);
        }
        outcome_marks(&mut acc.st, &tally);
        tally.fold(&mut acc, "linearity/S3");
        acc
    })
}

// ---- replay ------------------------------------------------------------------------------------------

pub fn replay_case(case: &Value, verbose: bool) -> Classes {
    if case.get("semiring").is_some() {
        return crate::semiring::replay_case(case, verbose);
    }
    let mut acc = Acc::new();
    let mut tally = Tally::new(true);
    let name = case["checker"].as_str().expect("checker name");
    match name {
        "linearity" => {
            let (ns, nr) = (case["ns"].as_u64().unwrap() as usize, case["nr"].as_u64().unwrap() as usize);
            let mut q = [0u8; 6];
            for (i, x) in case["q"].as_array().unwrap().iter().enumerate() {
                q[i] = x.as_u64().unwrap() as u8;
            }
            let c = LinCase { ns, nr, f: tab6_of(&case["f"], ns), g: tab6_of(&case["g"], nr), q };
            if verbose {
                println!("  linearity: checker Ok = {}, law holds = {}  ({})", run_linearity(&c), o_linearity(&c), lin_witness(&c));
            }
            judge_lin(&c, (0, 0), true, &mut acc, &mut tally);
        }
        "bilinearity" => {
            let (ns, nt, nr) = (case["ns"].as_u64().unwrap() as usize, case["nt"].as_u64().unwrap() as usize, case["nr"].as_u64().unwrap() as usize);
            let mut q = [[0u8; 3]; 3];
            for (i, x) in case["q"].as_array().unwrap().iter().enumerate() {
                q[i / nt][i % nt] = x.as_u64().unwrap() as u8;
            }
            let c = BilCase { ns, nt, nr, f: tab_of(&case["f"], ns), h: tab_of(&case["h"], nt), g: tab_of(&case["g"], nr), q };
            if verbose {
                println!("  bilinearity: checker Ok = {}, law holds = {}  ({})", run_bilinearity(&c), o_bilinearity(&c), bil_witness(&c));
            }
            judge_bil(&c, (0, 0), true, &mut acc, &mut tally);
        }
        _ => {
            let n = case["n"].as_u64().unwrap() as usize;
            let c = Case {
                ck: ck_by_name(name),
                n,
                f: tab_of(&case["f"], n),
                g: tab_of(&case["g"], n),
                zero: case["zero"].as_u64().unwrap() as u8,
                one: case["one"].as_u64().unwrap() as u8,
                b: un_of(&case["b"]),
                b2: un_of(&case["b2"]),
            };
            if verbose {
                println!("  {name}: checker -> {}, brute-force law -> {}  ({})", run_checker(&c), oracle(&c), case_witness(&c));
            }
            judge(&c, (0, 0), &mut acc, &mut tally);
        }
    }
    acc.cl
}

// ---- driver ------------------------------------------------------------------------------------------

pub fn run(rep: &mut Report) {
    let thorough = rep.thorough();
    let threads = ncpu().min(16);
    rep.rule = "product enumeration of (checker, carrier, operation tables, identity/zero/one candidates, inverse tables); \
                one case = one checker call compared with the brute-force law; families below ~5M cases record every case as \
                non-trivial, the larger ones record the cases in which the law holds"
        .into();
    rep.explanation = "every law checker of lattices::algebra is run on real closures over lookup tables and compared with an independent \
                       evaluation of the documented definition over all tuples (checker(...).is_ok() <=> law holds; for \
                       get_single_function_properties the returned list must equal the list of laws that hold); the shipped semiring \
                       applications are run on all triples of a boundary alphabet and compared with exact arithmetic in the claimed structure"
        .into();
    rep.assume("carriers are [0..n) as u8 with n in {1,2,3} (plus the 6-element group S3 for linearity); operations are total lookup tables");
    rep.assume("integral_domain's law is taken from its doc comment: NONZERO commutative ring (zero != one) without nonzero zero divisors; field's from its doc comment + nonzero_inverse's");
    rep.assume("semiring applications expose no accessor: values are read (and BinaryTrust(false) is built) through a same-size transmute of the single-field struct, self-tested at start-up");
    rep.bound("carrier_sizes", json!([1, 2, 3]));

    let mut all = Classes::new();
    let mut counters = std::collections::BTreeMap::<String, u64>::new();
    let mut sec = 0u64;
    let mut last = std::time::Instant::now();
    let mut fold = |rep: &mut Report, name: &str, acc: Acc, all: &mut Classes, counters: &mut std::collections::BTreeMap<String, u64>| {
        println!("[vf_coll] C09 section {name}: {} evaluations, {:.1}s", acc.st.evaluations, last.elapsed().as_secs_f64());
        last = std::time::Instant::now();
        all.merge(acc.cl.clone());
        for (k, v) in &acc.counters {
            *counters.entry(k.clone()).or_insert(0) += v;
        }
        rep.section(name, acc.st);
    };

    // single-operation checkers: all tables
    for n in [1usize, 2, 3] {
        sec += 1;
        let acc = single_section(sec, n, threads);
        fold(rep, &format!("single/n={n}"), acc, &mut all, &mut counters);
    }
    // index sets of special tables on 3 elements
    let all3: Vec<usize> = (0..19683).collect();
    let assoc3: Vec<usize> = all3.iter().cloned().filter(|i| o_assoc(&tab_from(*i, 3), 3)).collect();
    let cm3: Vec<usize> = all3.iter().cloned().filter(|i| (0..3).any(|e| o_cmonoid(&tab_from(*i, 3), 3, e))).collect();
    rep.bound("assoc_tables_n3", assoc3.len());
    rep.bound("commutative_monoid_tables_n3", cm3.len());
    let all2: Vec<usize> = (0..16).collect();
    let all1: Vec<usize> = vec![0];

    // two-operation checkers
    sec += 1;
    let acc = pair_section(sec, "pair/n=1", 1, &all1, &[3], true, threads);
    fold(rep, "pair/n=1 (all f x all g, all params)", acc, &mut all, &mut counters);
    sec += 1;
    let acc = pair_section(sec, "pair/n=2", 2, &all2, &[3; 16], true, threads);
    fold(rep, "pair/n=2 (all 16x16, all params)", acc, &mut all, &mut counters);
    sec += 1;
    if thorough {
        let flags: Vec<u8> = all3.iter().map(|g| 1 | if o_comm(&tab_from(*g, 3), 3) { 2 } else { 0 }).collect();
        let acc = pair_section(sec, "pair/n=3/cm", 3, &cm3, &flags, false, threads);
        fold(rep, "pair/n=3 (f in commutative-monoid tables x all g: dist*, semiring, ring, commutative_ring, integral_domain with all zero/one/inverse_f; field for commutative g with all inverse_g)", acc, &mut all, &mut counters);
        sec += 1;
        let rest: Vec<usize> = all3.iter().cloned().filter(|i| !cm3.contains(i)).collect();
        let acc = pair_section(sec, "pair/n=3/rest", 3, &rest, &vec![4u8; 19683], false, threads);
        fold(rep, "pair/n=3 (remaining f x all g: left_distributes, right_distributes, distributive)", acc, &mut all, &mut counters);
    } else {
        let flags: Vec<u8> = all3.iter().map(|g| if o_assoc(&tab_from(*g, 3), 3) { 3 } else { 0 }).collect();
        let acc = pair_section(sec, "pair/n=3/cm", 3, &cm3, &flags, false, threads);
        fold(rep, "pair/n=3 (f in commutative-monoid tables x all g: dist*, semiring with all zero/one; ring, commutative_ring, integral_domain, field for associative g with all zero/one/inverse_f/inverse_g)", acc, &mut all, &mut counters);
    }

    // linearity
    for (ns, nr) in [(1usize, 1usize), (2, 2), (2, 3), (3, 2)] {
        sec += 1;
        let fs: Vec<usize> = (0..pow(ns, ns * ns)).collect();
        let gs: Vec<usize> = (0..pow(nr, nr * nr)).collect();
        let name = format!("linearity/S={ns},R={nr}");
        let acc = lin_section(sec, &name, ns, nr, &fs, &gs, ns * nr < 6, threads);
        fold(rep, &format!("{name} (all f, g, q)"), acc, &mut all, &mut counters);
    }
    sec += 1;
    if thorough {
        let acc = lin_section(sec, "linearity/S=3,R=3", 3, 3, &assoc3, &all3, false, threads);
        fold(rep, "linearity/S=3,R=3 (f associative x all g, all q)", acc, &mut all, &mut counters);
        sec += 1;
        let nonassoc: Vec<usize> = all3.iter().cloned().filter(|i| !assoc3.contains(i)).collect();
        let acc = lin_section(sec, "linearity/S=3,R=3/b", 3, 3, &nonassoc, &assoc3, false, threads);
        fold(rep, "linearity/S=3,R=3 (remaining f x g associative, all q)", acc, &mut all, &mut counters);
    } else {
        let acc = lin_section(sec, "linearity/S=3,R=3", 3, 3, &assoc3, &assoc3, false, threads);
        fold(rep, "linearity/S=3,R=3 (f, g associative, all q)", acc, &mut all, &mut counters);
    }
    sec += 1;
    let acc = lin_s3_section(sec, threads);
    fold(rep, "linearity/S3 (f = g = symmetric group S3, all 46656 maps q)", acc, &mut all, &mut counters);

    // bilinearity
    sec += 1;
    let acc = bil_section(sec, "bilinearity/2,2,2", 2, 2, 2, &all2, &all2, &all2, true, threads);
    fold(rep, "bilinearity/S=T=R=2 (all f, h, g, q)", acc, &mut all, &mut counters);
    sec += 1;
    if thorough {
        let acc = bil_section(sec, "bilinearity/2,2,3", 2, 2, 3, &all2, &all2, &all3, false, threads);
        fold(rep, "bilinearity/S=T=2,R=3 (all f, h, g, q)", acc, &mut all, &mut counters);
        sec += 1;
        let acc = bil_section(sec, "bilinearity/3,2,2", 3, 2, 2, &all3, &all2, &all2, false, threads);
        fold(rep, "bilinearity/S=3,T=R=2 (all f, h, g, q)", acc, &mut all, &mut counters);
        sec += 1;
        let acc = bil_section(sec, "bilinearity/2,3,2", 2, 3, 2, &all2, &all3, &all2, false, threads);
        fold(rep, "bilinearity/S=2,T=3,R=2 (all f, h, g, q)", acc, &mut all, &mut counters);
    } else {
        let acc = bil_section(sec, "bilinearity/2,2,3", 2, 2, 3, &all2, &all2, &assoc3, false, threads);
        fold(rep, "bilinearity/S=T=2,R=3 (all f, h; g associative; all q)", acc, &mut all, &mut counters);
    }

    // shipped semiring applications
    sec += 1;
    let acc = crate::semiring::run(sec);
    fold(rep, "semiring_applications", acc, &mut all, &mut counters);

    // vacuity guard per checker: both verdicts must occur
    let mut verdicts = serde_json_map();
    for name in CK_NAMES {
        let a = counters.get(&format!("{name}:accepted")).cloned().unwrap_or(0);
        let r = counters.get(&format!("{name}:rejected")).cloned().unwrap_or(0);
        verdicts.insert(name.to_string(), json!({"accepted": a, "rejected": r}));
        println!("[vf_coll] C09 {name:32} accepted={a:>12} rejected={r:>12}");
        if a == 0 || r == 0 {
            println!("MACHINERY-ERROR: property=C09 checker {name} produced only one verdict (accepted={a}, rejected={r})");
            std::process::exit(2);
        }
    }
    rep.sections.insert("verdict_counts".into(), Value::Object(verdicts));
    let per_section: std::collections::BTreeMap<&String, &u64> = counters.iter().filter(|(k, _)| k.contains('/')).collect();
    rep.sections.insert("verdict_counts_per_section".into(), json!(per_section));

    let mut st = Stats::new();
    let listed = all.emit(&mut st, "C09", &|case| replay_case(case, false));
    rep.section("violation_classes", st);
    rep.sections.insert("violation_classes_all".into(), listed);
}

fn serde_json_map() -> vf_explore::serde_json::Map<String, Value> {
    vf_explore::serde_json::Map::new()
}
