//! C10 — variadic collections behave as sets / multisets of tuples.
//!
//! Every history (no deduplication: the hash tables' hidden capacity may matter) of
//! insert / extend / drain operations over the tuple domain {0,1}x{0,1} is executed on the REAL
//! `VariadicHashSet`, `VariadicCountedHashSet`, `VariadicColumnMultiset`; after every operation the
//! object is compared with a `BTreeMap<tuple, count>` model. All pairs of distinct reachable
//! contents are then compared with `==`.
use std::collections::BTreeMap;
use std::hash::{BuildHasherDefault, DefaultHasher};

use variadics::variadic_collections::{VariadicCollection, VariadicColumnMultiset, VariadicCountedHashSet, VariadicHashSet};
use variadics::{var_args, var_expr, var_type};
use vf_explore::{Report, Stats, Value, catch, json, ncpu};

use crate::classes::{Acc, Classes, par_acc};

pub type Tup = (u8, u8);
type V2 = var_type!(u8, u8);
/// Deterministic hasher (SipHash, zero keys): a failing history reproduces bit-for-bit.
type H = BuildHasherDefault<DefaultHasher>;
pub type Model = BTreeMap<Tup, usize>;

fn v(t: Tup) -> V2 {
    var_expr!(t.0, t.1)
}
fn un(r: var_type!(&u8, &u8)) -> Tup {
    let var_args!(a, b) = r;
    (*a, *b)
}
fn own(r: V2) -> Tup {
    let var_args!(a, b) = r;
    (a, b)
}
const DOM: [Tup; 4] = [(0, 0), (0, 1), (1, 0), (1, 1)];
/// tuples that are never inserted (negative membership)
const ABSENT: [Tup; 2] = [(2, 2), (0, 2)];

fn sorted(mut x: Vec<Tup>) -> Vec<Tup> {
    x.sort();
    x
}

pub trait Coll: Sized + Clone + Default + Send + Sync {
    const NAME: &'static str;
    /// keeps each distinct tuple once
    const IS_SET: bool;
    fn ins(&mut self, t: Tup) -> bool;
    fn ext(&mut self, ts: &[Tup]);
    /// drain(): take `k` items (usize::MAX = all), then drop the iterator
    fn drain_take(&mut self, k: usize) -> Vec<Tup>;
    fn len_(&self) -> usize;
    fn empty(&self) -> bool;
    fn has(&self, t: Tup) -> bool;
    /// inherent `get`: None = the type has no `get`; Some(None) = not found; Some(Some((tuple, count)))
    fn get_(&self, t: Tup) -> Option<Option<(Tup, usize)>>;
    fn items(&self) -> Vec<Tup>;
    fn into_items(self) -> Vec<Tup>;
    /// `==` (None = the type has no PartialEq)
    fn equ(&self, o: &Self) -> Option<bool>;
    /// FromIterator (None = not implemented for the type)
    fn collect_from(ts: &[Tup]) -> Option<Self>;
}

impl Coll for VariadicHashSet<V2, H> {
    const NAME: &'static str = "VariadicHashSet";
    const IS_SET: bool = true;
    fn ins(&mut self, t: Tup) -> bool {
        VariadicCollection::insert(self, v(t))
    }
    fn ext(&mut self, ts: &[Tup]) {
        Extend::extend(self, ts.iter().map(|t| v(*t)))
    }
    fn drain_take(&mut self, k: usize) -> Vec<Tup> {
        sorted(VariadicCollection::drain(self).take(k).map(own).collect())
    }
    fn len_(&self) -> usize {
        VariadicCollection::len(self)
    }
    fn empty(&self) -> bool {
        VariadicCollection::is_empty(self)
    }
    fn has(&self, t: Tup) -> bool {
        VariadicCollection::contains(self, var_expr!(&t.0, &t.1))
    }
    fn get_(&self, t: Tup) -> Option<Option<(Tup, usize)>> {
        Some(self.get(var_expr!(&t.0, &t.1)).map(|r| ((r.0, r.1.0), 1)))
    }
    fn items(&self) -> Vec<Tup> {
        sorted(VariadicCollection::iter(self).map(un).collect())
    }
    fn into_items(self) -> Vec<Tup> {
        sorted(IntoIterator::into_iter(self).map(own).collect())
    }
    fn equ(&self, o: &Self) -> Option<bool> {
        Some(self == o)
    }
    fn collect_from(ts: &[Tup]) -> Option<Self> {
        Some(ts.iter().map(|t| v(*t)).collect())
    }
}

impl Coll for VariadicCountedHashSet<V2, H> {
    const NAME: &'static str = "VariadicCountedHashSet";
    const IS_SET: bool = false;
    fn ins(&mut self, t: Tup) -> bool {
        VariadicCollection::insert(self, v(t))
    }
    fn ext(&mut self, ts: &[Tup]) {
        Extend::extend(self, ts.iter().map(|t| v(*t)))
    }
    fn drain_take(&mut self, k: usize) -> Vec<Tup> {
        sorted(VariadicCollection::drain(self).take(k).map(own).collect())
    }
    fn len_(&self) -> usize {
        VariadicCollection::len(self)
    }
    fn empty(&self) -> bool {
        VariadicCollection::is_empty(self)
    }
    fn has(&self, t: Tup) -> bool {
        VariadicCollection::contains(self, var_expr!(&t.0, &t.1))
    }
    fn get_(&self, t: Tup) -> Option<Option<(Tup, usize)>> {
        Some(self.get(var_expr!(&t.0, &t.1)).map(|(r, c)| ((r.0, r.1.0), *c)))
    }
    fn items(&self) -> Vec<Tup> {
        sorted(VariadicCollection::iter(self).map(un).collect())
    }
    fn into_items(self) -> Vec<Tup> {
        sorted(IntoIterator::into_iter(self).map(own).collect())
    }
    fn equ(&self, o: &Self) -> Option<bool> {
        Some(self == o)
    }
    fn collect_from(ts: &[Tup]) -> Option<Self> {
        Some(ts.iter().map(|t| v(*t)).collect())
    }
}

impl Coll for VariadicColumnMultiset<V2> {
    const NAME: &'static str = "VariadicColumnMultiset";
    const IS_SET: bool = false;
    fn ins(&mut self, t: Tup) -> bool {
        VariadicCollection::insert(self, v(t))
    }
    fn ext(&mut self, ts: &[Tup]) {
        Extend::extend(self, ts.iter().map(|t| v(*t)))
    }
    fn drain_take(&mut self, k: usize) -> Vec<Tup> {
        sorted(VariadicCollection::drain(self).take(k).map(own).collect())
    }
    fn len_(&self) -> usize {
        VariadicCollection::len(self)
    }
    fn empty(&self) -> bool {
        VariadicCollection::is_empty(self)
    }
    fn has(&self, t: Tup) -> bool {
        VariadicCollection::contains(self, var_expr!(&t.0, &t.1))
    }
    fn get_(&self, _t: Tup) -> Option<Option<(Tup, usize)>> {
        None
    }
    fn items(&self) -> Vec<Tup> {
        sorted(VariadicCollection::iter(self).map(un).collect())
    }
    fn into_items(self) -> Vec<Tup> {
        sorted(IntoIterator::into_iter(self).map(own).collect())
    }
    fn equ(&self, _o: &Self) -> Option<bool> {
        None
    }
    fn collect_from(_ts: &[Tup]) -> Option<Self> {
        None
    }
}

#[derive(Clone, Debug, PartialEq, Eq, Hash)]
pub enum Op {
    Insert(Tup),
    Extend(Vec<Tup>),
    DrainAll,
    /// take one item from `drain()`, then drop the iterator
    DrainTake1,
}

fn op_json(op: &Op) -> Value {
    match op {
        Op::Insert(t) => json!({"insert": [t.0, t.1]}),
        Op::Extend(ts) => json!({"extend": ts.iter().map(|t| json!([t.0, t.1])).collect::<Vec<_>>()}),
        Op::DrainAll => json!("drain"),
        Op::DrainTake1 => json!("drain_take1"),
    }
}
fn tup_of(v: &Value) -> Tup {
    let a = v.as_array().unwrap();
    (a[0].as_u64().unwrap() as u8, a[1].as_u64().unwrap() as u8)
}
fn op_of(v: &Value) -> Op {
    if let Some(s) = v.as_str() {
        return match s {
            "drain" => Op::DrainAll,
            "drain_take1" => Op::DrainTake1,
            other => panic!("unknown op {other}"),
        };
    }
    if let Some(t) = v.get("insert") {
        return Op::Insert(tup_of(t));
    }
    Op::Extend(v["extend"].as_array().unwrap().iter().map(tup_of).collect())
}
fn op_str(op: &Op) -> String {
    let t = |t: &Tup| format!("{}{}", t.0, t.1);
    match op {
        Op::Insert(x) => format!("i{}", t(x)),
        Op::Extend(ts) => format!("e[{}]", ts.iter().map(t).collect::<Vec<_>>().join(",")),
        Op::DrainAll => "d".into(),
        Op::DrainTake1 => "d1".into(),
    }
}
fn hist_str(h: &[Op]) -> String {
    h.iter().map(op_str).collect::<Vec<_>>().join(";")
}

/// full alphabet: 4 inserts, extend with every sequence of length 0..=2 (21), 2 drains = 27 ops
pub fn alphabet_full() -> Vec<Op> {
    let mut o: Vec<Op> = DOM.iter().map(|t| Op::Insert(*t)).collect();
    o.push(Op::Extend(vec![]));
    for a in DOM {
        o.push(Op::Extend(vec![a]));
    }
    for a in DOM {
        for b in DOM {
            o.push(Op::Extend(vec![a, b]));
        }
    }
    o.push(Op::DrainAll);
    o.push(Op::DrainTake1);
    o
}
/// reduced alphabet for the deepest level: 4 inserts, extend with every unordered pair (10), 2 drains
pub fn alphabet_reduced() -> Vec<Op> {
    let mut o: Vec<Op> = DOM.iter().map(|t| Op::Insert(*t)).collect();
    for (i, a) in DOM.iter().enumerate() {
        for b in &DOM[i..] {
            o.push(Op::Extend(vec![*a, *b]));
        }
    }
    o.push(Op::DrainAll);
    o.push(Op::DrainTake1);
    o
}

fn model_items(m: &Model) -> Vec<Tup> {
    let mut o = vec![];
    for (t, c) in m {
        for _ in 0..*c {
            o.push(*t);
        }
    }
    o
}
fn model_add<C: Coll>(m: &mut Model, t: Tup) {
    let e = m.entry(t).or_insert(0);
    if C::IS_SET {
        *e = 1;
    } else {
        *e += 1;
    }
}
fn model_str(m: &Model) -> String {
    let parts: Vec<String> = m.iter().map(|(t, c)| format!("{}{}x{}", t.0, t.1, c)).collect();
    format!("{{{}}}", parts.join(","))
}

type Sink<'a> = &'a mut dyn FnMut(&str, String);

/// Apply one operation to the real object and the model; judges what the operation itself returns.
pub fn apply<C: Coll>(obj: &mut C, m: &mut Model, op: &Op, sink: Sink, st: &mut Stats) {
    st.evaluations += 1;
    st.transitions += 1;
    match op {
        Op::Insert(t) => {
            model_add::<C>(m, *t);
            match catch(|| obj.ins(*t)) {
                Ok(r) => st.outcome(&(C::NAME, "insert_ret", r)),
                Err(p) => sink("insert/panic", format!("insert({t:?}) panicked: {p}")),
            }
        }
        Op::Extend(ts) => {
            for t in ts {
                model_add::<C>(m, *t);
            }
            if let Err(p) = catch(|| obj.ext(ts)) {
                sink("extend/panic", format!("extend({ts:?}) panicked: {p}"));
            }
        }
        Op::DrainAll => {
            let want = model_items(m);
            m.clear();
            match catch(|| obj.drain_take(usize::MAX)) {
                Ok(got) => {
                    st.outcome(&(C::NAME, "drain", got.len()));
                    if got != want {
                        sink("drain/wrong", format!("drain() yielded {got:?}, model holds {want:?}"));
                    }
                }
                Err(p) => sink("drain/panic", format!("drain() panicked: {p}")),
            }
        }
        Op::DrainTake1 => {
            let want = model_items(m);
            m.clear();
            match catch(|| obj.drain_take(1)) {
                Ok(got) => {
                    // the single item must be one of the held tuples (none if empty)
                    let ok = if want.is_empty() { got.is_empty() } else { got.len() == 1 && want.contains(&got[0]) };
                    if !ok {
                        sink("drain/wrong", format!("first item of drain() = {got:?}, model holds {want:?}"));
                    }
                }
                Err(p) => sink("drain/panic", format!("drain() (partially consumed) panicked: {p}")),
            }
        }
    }
}

/// Compare every observation of one object with the model.
pub fn check_node<C: Coll>(obj: &C, m: &Model, detail: bool, sink: Sink, st: &mut Stats) {
    st.evaluations += 1;
    let want_items = model_items(m);
    let r = catch(|| {
        let mut bad: Vec<(&'static str, String)> = vec![];
        let len = obj.len_();
        if len != want_items.len() {
            bad.push(("len/wrong", if detail { format!("len() = {len}, model has {} element(s)", want_items.len()) } else { String::new() }));
        }
        if obj.empty() != want_items.is_empty() {
            bad.push(("is_empty/wrong", if detail { format!("is_empty() = {}, model has {} element(s)", obj.empty(), want_items.len()) } else { String::new() }));
        }
        for t in DOM.iter().chain(ABSENT.iter()) {
            let present = m.get(t).cloned().unwrap_or(0);
            if obj.has(*t) != (present > 0) {
                bad.push(("contains/wrong", if detail { format!("contains({t:?}) = {}, model count {present}", obj.has(*t)) } else { String::new() }));
            }
            if let Some(g) = obj.get_(*t) {
                let want = if present > 0 { Some((*t, present)) } else { None };
                if g != want {
                    bad.push(("get/wrong", if detail { format!("get({t:?}) = {g:?}, model says {want:?}") } else { String::new() }));
                }
            }
        }
        let it = obj.items();
        if it != want_items {
            bad.push(("iter/wrong", if detail { format!("iter() = {it:?}, model {want_items:?}") } else { String::new() }));
        }
        let c = obj.clone();
        if let Some(e) = obj.equ(&c) {
            if !e || c.equ(obj) != Some(true) {
                bad.push(("eq/wrong", if detail { "a clone is not == to its original".to_string() } else { String::new() }));
            }
        }
        if c.len_() != len || c.items() != it {
            bad.push(("clone/wrong", if detail { format!("clone has len {} items {:?}", c.len_(), c.items()) } else { String::new() }));
        }
        let into = c.into_items();
        if into != want_items {
            bad.push(("into_iter/wrong", if detail { format!("into_iter() = {into:?}, model {want_items:?}") } else { String::new() }));
        }
        // a collection rebuilt from the model's content (different insertion history / capacity)
        let mut fresh = C::default();
        fresh.ext(&want_items);
        if let (Some(a), Some(b)) = (obj.equ(&fresh), fresh.equ(obj)) {
            if !a || !b {
                bad.push(("eq/wrong", if detail { format!("not == to a fresh collection extended with the same content {want_items:?} ({a}, reverse {b})") } else { String::new() }));
            }
        }
        if let Some(col) = C::collect_from(&want_items) {
            if obj.equ(&col) != Some(true) || col.items() != want_items {
                bad.push(("from_iter/wrong", if detail { format!("FromIterator of {want_items:?} gives {:?}, == is {:?}", col.items(), obj.equ(&col)) } else { String::new() }));
            }
        }
        // one more insert must make the two differ, unless a set already holds the tuple
        for t in DOM {
            let mut more = obj.clone();
            more.ins(t);
            let same = C::IS_SET && m.contains_key(&t);
            if let (Some(a), Some(b)) = (obj.equ(&more), more.equ(obj)) {
                if a != same || b != same {
                    bad.push(("eq/wrong", if detail { format!("== with a clone that additionally got {t:?}: {a} / reverse {b}, expected {same}") } else { String::new() }));
                }
            }
        }
        (bad, len)
    });
    match r {
        Ok((bad, len)) => {
            st.outcome(&(C::NAME, "len", len));
            for (c, d) in bad {
                sink(c, d);
            }
        }
        Err(p) => sink("observe/panic", format!("an observation panicked: {p}")),
    }
}

struct Ctx<'a> {
    ops_by_level: &'a [Vec<Op>],
    coll_idx: u64,
}

fn hist_order(h: &[Op], full: &[Op]) -> u64 {
    // shorter histories first, then lexicographic in the full alphabet's order
    let mut code = 0u64;
    for op in h {
        let i = full.iter().position(|o| o == op).unwrap_or(0) as u64;
        code = code * 28 + i + 1;
    }
    ((h.len() as u64) << 40) | code
}

/// content -> shortest/first history reaching it
type Reps = BTreeMap<Vec<Tup>, Vec<Op>>;

fn dfs<C: Coll>(ctx: &Ctx, obj: &C, m: &Model, hist: &mut Vec<Op>, acc: &mut Acc, reps: &mut Reps, full: &[Op]) {
    // the state reached by `hist`
    acc.st.states += 1;
    acc.st.traces += 1;
    let mut hits: Vec<(String, String)> = vec![];
    check_node(obj, m, false, &mut |c, d| hits.push((c.to_string(), d)), &mut acc.st);
    if !hits.is_empty() {
        // details are formatted only when one of the hits becomes its class's first witness
        let order = (ctx.coll_idx * 10, hist_order(hist, full));
        let need = hits.iter().any(|(c, _)| match acc.cl.map.get(&format!("{}/{c}", C::NAME)) {
            Some(h) => order < h.order,
            None => true,
        });
        if need {
            hits.clear();
            let mut scratch = Stats::new();
            check_node(obj, m, true, &mut |c, d| hits.push((c.to_string(), d)), &mut scratch);
        }
    }
    let content = model_items(m);
    match reps.get(&content) {
        Some(h) if h.len() <= hist.len() => {}
        _ => {
            reps.insert(content, hist.clone());
        }
    }
    record_hits::<C>(ctx.coll_idx, hist, m, hits, acc, full);
    let level = hist.len();
    if level >= ctx.ops_by_level.len() {
        return;
    }
    for op in &ctx.ops_by_level[level] {
        let mut o2 = obj.clone();
        let mut m2 = m.clone();
        let mut hits: Vec<(String, String)> = vec![];
        apply(&mut o2, &mut m2, op, &mut |c, d| hits.push((c.to_string(), d)), &mut acc.st);
        hist.push(op.clone());
        record_hits::<C>(ctx.coll_idx, hist, &m2, hits, acc, full);
        dfs(ctx, &o2, &m2, hist, acc, reps, full);
        hist.pop();
    }
}

fn record_hits<C: Coll>(coll_idx: u64, hist: &[Op], m: &Model, hits: Vec<(String, String)>, acc: &mut Acc, full: &[Op]) {
    for (c, d) in hits {
        let order = (coll_idx * 10, hist_order(hist, full));
        acc.cl.hit(&format!("{}/{c}", C::NAME), order, || {
            (
                format!("history={}", hist_str(hist)),
                format!("{} after [{}] (model {}): {d}", C::NAME, hist_str(hist), model_str(m)),
                json!({"coll": C::NAME, "kind": "history", "ops": hist.iter().map(op_json).collect::<Vec<_>>()}),
            )
        });
    }
}

/// Replay a history on a FRESH object (no clones), checking after every operation.
fn replay_history<C: Coll>(ops: &[Op], verbose: bool) -> Classes {
    let mut cl = Classes::new();
    let mut st = Stats::new();
    let mut obj = C::default();
    let mut m = Model::new();
    let mut hits: Vec<(String, String)> = vec![];
    check_node(&obj, &m, true, &mut |c, d| hits.push((c.to_string(), d)), &mut st);
    for (i, op) in ops.iter().enumerate() {
        apply(&mut obj, &mut m, op, &mut |c, d| hits.push((c.to_string(), format!("step {i}: {d}"))), &mut st);
        check_node(&obj, &m, true, &mut |c, d| hits.push((c.to_string(), format!("after step {i} ({}): {d}", op_str(op)))), &mut st);
        if verbose {
            println!("  step {i} {:12} -> len {} items {:?}   model {}", op_str(op), obj.len_(), obj.items(), model_str(&m));
        }
    }
    for (c, d) in hits {
        if verbose {
            println!("  observed: {c}: {d}");
        }
        cl.hit(&format!("{}/{c}", C::NAME), (0, 0), || (String::new(), d.clone(), Value::Null));
    }
    cl
}

fn build<C: Coll>(ops: &[Op]) -> (C, Model) {
    let mut obj = C::default();
    let mut m = Model::new();
    let mut st = Stats::new();
    for op in ops {
        apply(&mut obj, &mut m, op, &mut |_, _| {}, &mut st);
    }
    (obj, m)
}

fn replay_pair<C: Coll>(a: &[Op], b: &[Op], verbose: bool) -> Classes {
    let mut cl = Classes::new();
    let (oa, ma) = build::<C>(a);
    let (ob, mb) = build::<C>(b);
    let got = catch(|| oa.equ(&ob));
    if verbose {
        println!("  a = {} (reveals {:?}), b = {} (reveals {:?}): == -> {got:?}", model_str(&ma), oa.items(), model_str(&mb), ob.items());
    }
    match got {
        Ok(Some(e)) if e == (ma == mb) => {}
        Ok(None) => {}
        Ok(Some(e)) => cl.hit(&format!("{}/eq_pair/wrong", C::NAME), (0, 0), || (String::new(), format!("== is {e}, models equal: {}", ma == mb), Value::Null)),
        Err(p) => cl.hit(&format!("{}/eq_pair/panic", C::NAME), (0, 0), || (String::new(), format!("== panicked: {p}"), Value::Null)),
    }
    cl
}

fn ops_of(v: &Value) -> Vec<Op> {
    v.as_array().expect("ops").iter().map(op_of).collect()
}

fn replay_coll<C: Coll>(case: &Value, verbose: bool) -> Classes {
    match case["kind"].as_str().unwrap_or("") {
        "history" => replay_history::<C>(&ops_of(&case["ops"]), verbose),
        "pair" => replay_pair::<C>(&ops_of(&case["a"]), &ops_of(&case["b"]), verbose),
        other => panic!("unknown case kind {other}"),
    }
}

pub fn replay_case(case: &Value, verbose: bool) -> Classes {
    match case["coll"].as_str().unwrap_or("") {
        "VariadicHashSet" => replay_coll::<VariadicHashSet<V2, H>>(case, verbose),
        "VariadicCountedHashSet" => replay_coll::<VariadicCountedHashSet<V2, H>>(case, verbose),
        "VariadicColumnMultiset" => replay_coll::<VariadicColumnMultiset<V2>>(case, verbose),
        other => panic!("unknown collection {other}"),
    }
}

fn run_coll<C: Coll>(coll_idx: u64, ops_by_level: &[Vec<Op>], threads: usize) -> Acc {
    let full = alphabet_full();
    let ctx = Ctx { ops_by_level, coll_idx };
    // shard on the first two operations
    let l0 = &ops_by_level[0];
    let l1 = &ops_by_level[1];
    let shards: Vec<(Op, Op)> = l0.iter().flat_map(|a| l1.iter().map(move |b| (a.clone(), b.clone()))).collect();
    let reps_all = std::sync::Mutex::new(Reps::new());
    let mut acc = Acc::new();
    // root and depth-1 states (the shards check depth >= 2)
    {
        let mut reps = Reps::new();
        let top = Ctx { ops_by_level: &ops_by_level[..1], coll_idx };
        dfs(&top, &C::default(), &Model::new(), &mut vec![], &mut acc, &mut reps, &full);
        reps_all.lock().unwrap().extend(reps);
    }
    let shard_acc = par_acc(shards.len(), threads, |i| {
        let mut a = Acc::new();
        let mut reps = Reps::new();
        let (op0, op1) = &shards[i];
        let mut obj = C::default();
        let mut m = Model::new();
        // depth-1 and depth-2 transitions were/are judged: the first op in the block above (checked
        // there), the second here
        let mut sink_st = Stats::new();
        apply(&mut obj, &mut m, op0, &mut |_, _| {}, &mut sink_st);
        let mut hits: Vec<(String, String)> = vec![];
        apply(&mut obj, &mut m, op1, &mut |c, d| hits.push((c.to_string(), d)), &mut a.st);
        let mut hist = vec![op0.clone(), op1.clone()];
        record_hits::<C>(coll_idx, &hist, &m, hits, &mut a, &full);
        dfs(&ctx, &obj, &m, &mut hist, &mut a, &mut reps, &full);
        let mut g = reps_all.lock().unwrap();
        for (k, h) in reps {
            match g.get(&k) {
                Some(old) if (old.len(), hist_order(old, &full)) <= (h.len(), hist_order(&h, &full)) => {}
                _ => {
                    g.insert(k, h);
                }
            }
        }
        a
    });
    acc.merge(shard_acc);
    let reps = reps_all.into_inner().unwrap();
    for k in reps.keys() {
        acc.st.nontrivial(&(C::NAME, "content", k.clone()));
    }
    acc.count_n(&format!("{}:distinct_contents", C::NAME), reps.len() as u64);

    // all ordered pairs of distinct reachable contents, rebuilt from their histories
    let built: Vec<(C, Model, &Vec<Op>)> = reps.values().map(|h| { let (o, m) = build::<C>(h); (o, m, h) }).collect();
    if built.first().map(|b| b.0.equ(&b.0).is_some()).unwrap_or(false) {
        let n = built.len();
        let built_ref = &built;
        let pa = par_acc(n, threads, |i| {
            let mut a = Acc::new();
            for j in 0..n {
                let (oa, ma, ha) = &built_ref[i];
                let (ob, mb, hb) = &built_ref[j];
                a.st.evaluations += 1;
                a.st.nontrivial(&(C::NAME, "pair", i, j));
                let got = catch(|| oa.equ(ob));
                let order = (coll_idx * 10 + 1, (i * n + j) as u64);
                let mk = |d: String| {
                    (
                        format!("a={},b={}", hist_str(ha), hist_str(hb)),
                        format!("{}: {d} (a reached by [{}] = {}, b by [{}] = {})", C::NAME, hist_str(ha), model_str(ma), hist_str(hb), model_str(mb)),
                        json!({"coll": C::NAME, "kind": "pair", "a": ha.iter().map(op_json).collect::<Vec<_>>(), "b": hb.iter().map(op_json).collect::<Vec<_>>()}),
                    )
                };
                match got {
                    Ok(Some(e)) => {
                        a.st.outcome(&(C::NAME, "eq_pair", e));
                        if e != (ma == mb) {
                            a.cl.hit(&format!("{}/eq_pair/wrong", C::NAME), order, || mk(format!("== is {e}, models equal: {}", ma == mb)));
                        }
                    }
                    Ok(None) => {}
                    Err(p) => a.cl.hit(&format!("{}/eq_pair/panic", C::NAME), order, || mk(format!("== panicked: {p}"))),
                }
            }
            a
        });
        acc.merge(pa);
    }
    acc
}

pub fn run(rep: &mut Report) {
    let thorough = rep.thorough();
    let threads = ncpu().min(16);
    let full = alphabet_full();
    let reduced = alphabet_reduced();
    let ops_by_level: Vec<Vec<Op>> = if thorough {
        vec![full.clone(), full.clone(), reduced.clone(), reduced.clone(), reduced.clone(), reduced.clone()]
    } else {
        vec![full.clone(), full.clone(), full.clone(), full.clone()]
    };
    rep.rule = "every operation sequence (a tree, NOT deduplicated, because hidden hash-table capacity depends on the path) over the op alphabet; \
                one case = one state reached by one history, compared with the model; non-trivial = distinct reachable content and \
                ordered pairs of distinct contents"
        .into();
    rep.explanation = "after every operation: len, is_empty, contains (4 domain + 2 absent tuples), get (tuple and count), iter and into_iter as \
                       multisets, clone, == with clone / with a fresh collection of the same content / with FromIterator / with a clone holding \
                       one more tuple; drain must yield exactly the content and leave the collection empty (also when dropped after one item); \
                       then == on every ordered pair of distinct reachable contents rebuilt from their shortest histories. Model: BTreeMap<tuple,count> \
                       (count capped at 1 for VariadicHashSet)."
        .into();
    rep.assume("hasher = BuildHasherDefault<DefaultHasher> (fixed SipHash keys) so that every history is bit-for-bit reproducible; hash seeds are not enumerated");
    rep.assume("insert()'s bool return is recorded but not judged; VariadicColumnMultiset has no get / PartialEq / FromIterator, those checks are skipped for it");
    rep.assume("a drain() iterator dropped after one item must leave the collection empty (std drain semantics); only self-consistency is otherwise demanded");
    rep.bound("tuple_domain", "{0,1}x{0,1}");
    rep.bound("depth", ops_by_level.len());
    rep.bound("ops_per_level", json!(ops_by_level.iter().map(|l| l.len()).collect::<Vec<_>>()));
    rep.bound("alphabet_full", json!(full.iter().map(op_str).collect::<Vec<_>>()));
    rep.bound("alphabet_reduced", json!(reduced.iter().map(op_str).collect::<Vec<_>>()));
    let mut all = Classes::new();
    let mut counters = BTreeMap::new();
    macro_rules! coll {
        ($t:ty, $i:expr) => {{
            let t0 = std::time::Instant::now();
            let acc = run_coll::<$t>($i, &ops_by_level, threads);
            println!("[vf_coll] C10 {}: {} states, {} evaluations, {:.1}s", <$t>::NAME, acc.st.states, acc.st.evaluations, t0.elapsed().as_secs_f64());
            all.merge(acc.cl.clone());
            for (k, v) in &acc.counters {
                counters.insert(k.clone(), *v);
            }
            rep.section(<$t>::NAME, acc.st);
        }};
    }
    coll!(VariadicHashSet<V2, H>, 0);
    coll!(VariadicCountedHashSet<V2, H>, 1);
    coll!(VariadicColumnMultiset<V2>, 2);
    println!("[vf_coll] C10 counters: {counters:?}");
    rep.sections.insert("counters".into(), json!(counters));
    let mut st = Stats::new();
    let listed = all.emit(&mut st, "C10", &|case| replay_case(case, false));
    rep.section("violation_classes", st);
    rep.sections.insert("violation_classes_all".into(), listed);
}
