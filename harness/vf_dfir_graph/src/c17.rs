//! C17 — `topo_sort`, `SubgraphMerge`, `UnionFind` against own reference models.
use std::collections::BTreeSet;

use dfir_lang::graph::GraphNodeId;
use dfir_lang::graph::graph_algorithms::{SubgraphMerge, topo_sort};
use dfir_lang::union_find::UnionFind;
use slotmap::SlotMap;
use vf_explore::{Report, Stats, Value, catch, combi, json, ncpu, par_map};

use crate::{Viol, Viols};

// ------------------------------------------------------------------------------------------
// topo_sort

/// adjacency as bitmask: bit (i*n + j) set = edge i -> j.
fn has(mask: u32, n: usize, i: usize, j: usize) -> bool {
    mask >> (i * n + j) & 1 == 1
}

fn acyclic(mask: u32, n: usize) -> bool {
    // own Kahn
    let mut alive: Vec<bool> = vec![true; n];
    loop {
        let mut progress = false;
        for v in 0..n {
            if alive[v] && !(0..n).any(|p| alive[p] && has(mask, n, p, v)) {
                alive[v] = false;
                progress = true;
            }
        }
        if !progress {
            break;
        }
    }
    alive.iter().all(|a| !a)
}

/// pred-order mode: 0 ascending, 1 descending, 2 every predecessor listed twice.
fn preds_of(mask: u32, n: usize, v: usize, mode: u8) -> Vec<u8> {
    let mut p: Vec<u8> = (0..n).filter(|&i| has(mask, n, i, v)).map(|i| i as u8).collect();
    match mode {
        1 => p.reverse(),
        2 => p = p.iter().flat_map(|&x| [x, x]).collect(),
        _ => {}
    }
    p
}

pub fn topo_case(n: usize, mask: u32, order: &[u8], mode: u8) -> (String, Option<(String, String)>) {
    let preds: Vec<Vec<u8>> = (0..n).map(|v| preds_of(mask, n, v, mode)).collect();
    let res = catch(|| topo_sort(order.iter().copied(), |v| preds[v as usize].iter().copied()));
    let dag = acyclic(mask, n);
    let describe = || format!("n={n} edges={:?} node order={:?} pred mode={mode}", edges_of(mask, n), order);
    match res {
        Err(p) => ("panic".into(), Some(("C17/topo_sort/panic".into(), format!("topo_sort panicked ({p}) on {}", describe())))),
        Ok(Ok(ord)) => {
            if !dag {
                return ("ok".into(), Some(("C17/topo_sort/ok-on-cyclic".into(), format!("returned Ok({ord:?}) on a cyclic graph: {}", describe()))));
            }
            let mut sorted = ord.clone();
            sorted.sort();
            if sorted != (0..n as u8).collect::<Vec<_>>() {
                return ("ok".into(), Some(("C17/topo_sort/not-a-permutation".into(), format!("Ok({ord:?}) is not a permutation of the nodes: {}", describe()))));
            }
            let pos = |x: u8| ord.iter().position(|&y| y == x).unwrap();
            for i in 0..n {
                for j in 0..n {
                    if has(mask, n, i, j) && pos(i as u8) >= pos(j as u8) {
                        return ("ok".into(), Some(("C17/topo_sort/order-violates-edge".into(), format!("Ok({ord:?}) puts {j} before its predecessor {i}: {}", describe()))));
                    }
                }
            }
            ("ok".into(), None)
        }
        Ok(Err(cyc)) => {
            let tag = format!("cycle{}", cyc.len());
            if dag {
                return (tag, Some(("C17/topo_sort/err-on-dag".into(), format!("returned Err({cyc:?}) on an acyclic graph: {}", describe()))));
            }
            let set: BTreeSet<u8> = cyc.iter().copied().collect();
            if cyc.is_empty() || set.len() != cyc.len() || cyc.iter().any(|&x| x as usize >= n) {
                return (tag, Some(("C17/topo_sort/cycle-repeats-node".into(), format!("Err({cyc:?}) is empty or lists a node twice: {}", describe()))));
            }
            let k = cyc.len();
            let fwd = (0..k).all(|i| has(mask, n, cyc[i] as usize, cyc[(i + 1) % k] as usize));
            let bwd = (0..k).all(|i| has(mask, n, cyc[(i + 1) % k] as usize, cyc[i] as usize));
            if !(fwd || bwd) {
                return (tag, Some(("C17/topo_sort/cycle-not-genuine".into(), format!("Err({cyc:?}) is not a cycle of the graph (some consecutive pair or the closing pair is not an edge): {}", describe()))));
            }
            (tag, None)
        }
    }
}

fn edges_of(mask: u32, n: usize) -> Vec<(usize, usize)> {
    let mut e = vec![];
    for i in 0..n {
        for j in 0..n {
            if has(mask, n, i, j) {
                e.push((i, j));
            }
        }
    }
    e
}

fn topo_section(thorough: bool, viols: &Viols) -> Stats {
    let mut plan: Vec<(usize, Vec<Vec<u8>>, Vec<u8>)> = vec![];
    for n in 1..=4usize {
        let ids: Vec<u8> = (0..n as u8).collect();
        plan.push((n, combi::permutations(&ids), if thorough { vec![0, 1, 2] } else { vec![0, 1] }));
    }
    if thorough {
        plan.push((5, vec![vec![0, 1, 2, 3, 4], vec![4, 3, 2, 1, 0], vec![2, 0, 4, 1, 3]], vec![0]));
    }
    let mut total = Stats::new();
    for (n, orders, modes) in plan {
        let graphs: u64 = 1u64 << (n * n);
        let shards = 64usize.min(graphs as usize);
        let s = par_map(shards, ncpu().min(16), |sh| {
            let mut st = Stats::new();
            let lo = graphs * sh as u64 / shards as u64;
            let hi = graphs * (sh as u64 + 1) / shards as u64;
            for mask in lo..hi {
                let mask = mask as u32;
                st.nontrivial(&(n, mask));
                for ord in &orders {
                    for &mode in &modes {
                        st.eval();
                        let (tag, v) = topo_case(n, mask, ord, mode);
                        st.outcome(&tag);
                        if mask % 9973 == 1 && mode == 0 {
                            st.sample(|| json!({"section": "topo_sort", "n": n, "edges": edges_of(mask, n), "order": ord, "result": tag}));
                        }
                        if let Some((key, what)) = v {
                            viols.push(Viol {
                                key,
                                what,
                                size: n * 100 + mask.count_ones() as usize,
                                case: json!({"kind": "topo_sort", "n": n, "mask": mask, "order": ord, "mode": mode}),
                            });
                        }
                    }
                }
            }
            st
        });
        total.merge(s);
    }
    total
}

// ------------------------------------------------------------------------------------------
// SubgraphMerge

/// DAG on n nodes as a bitmask over ordered pairs (i, j), i != j, bit i*n+j = edge i -> j.
fn all_dags(n: usize) -> Vec<u32> {
    let mut out = vec![];
    for mask in 0..(1u32 << (n * n)) {
        if (0..n).any(|i| has(mask, n, i, i)) {
            continue;
        }
        if acyclic(mask, n) {
            out.push(mask);
        }
    }
    out
}

/// All labelled DAGs on n nodes with at most `max_edges` edges (no self-loops).
fn sparse_dags(n: usize, max_edges: usize) -> Vec<u32> {
    let pairs: Vec<(usize, usize)> = (0..n).flat_map(|a| (0..n).filter(move |&b| b != a).map(move |b| (a, b))).collect();
    let mut out = vec![];
    for sub in combi::subsets_upto(pairs.len(), max_edges) {
        let mask = sub.iter().fold(0u32, |m, &i| m | 1 << (pairs[i].0 * n + pairs[i].1));
        if acyclic(mask, n) {
            out.push(mask);
        }
    }
    out
}

struct Model {
    n: usize,
    mask: u32,
    class: Vec<usize>,
    enemies: Vec<(usize, usize)>,
}
impl Model {
    fn quotient_cyclic(&self, class: &[usize]) -> bool {
        // own Kahn over classes; edges inside one class are ignored.
        let ids: BTreeSet<usize> = class.iter().copied().collect();
        let mut alive: BTreeSet<usize> = ids.clone();
        loop {
            let mut progress = false;
            for &c in &ids {
                if !alive.contains(&c) {
                    continue;
                }
                let has_pred = (0..self.n).any(|p| {
                    (0..self.n).any(|v| {
                        class[v] == c && class[p] != c && alive.contains(&class[p]) && has(self.mask, self.n, p, v)
                    })
                });
                if !has_pred {
                    alive.remove(&c);
                    progress = true;
                }
            }
            if !progress {
                break;
            }
        }
        !alive.is_empty()
    }
    /// Expected answer of try_merge(u, v); applies the merge when it must succeed.
    fn try_merge(&mut self, u: usize, v: usize) -> (bool, &'static str) {
        let (cu, cv) = (self.class[u], self.class[v]);
        if cu == cv {
            return (true, "same");
        }
        let conflict = self.enemies.iter().any(|&(a, b)| {
            (self.class[a] == cu && self.class[b] == cv) || (self.class[a] == cv && self.class[b] == cu)
        });
        if conflict {
            return (false, "enemy");
        }
        let merged: Vec<usize> = self.class.iter().map(|&c| if c == cv { cu } else { c }).collect();
        if self.quotient_cyclic(&merged) {
            return (false, "cycle");
        }
        self.class = merged;
        (true, "merged")
    }
}

pub fn merge_case(n: usize, mask: u32, enemies: &[(usize, usize)], hist: &[(usize, usize)], pred_desc: bool) -> (String, Option<(String, String)>) {
    let describe = || format!("n={n} dag edges={:?} enemies={:?} history={:?} preds_desc={pred_desc}", edges_of(mask, n), enemies, hist);
    let mut sm: SlotMap<GraphNodeId, ()> = SlotMap::with_key();
    let keys: Vec<GraphNodeId> = (0..n).map(|_| sm.insert(())).collect();
    let idx = |k: GraphNodeId| keys.iter().position(|&x| x == k).unwrap();
    let preds: Vec<Vec<GraphNodeId>> = (0..n)
        .map(|v| {
            let mut p: Vec<GraphNodeId> = (0..n).filter(|&i| has(mask, n, i, v)).map(|i| keys[i]).collect();
            if pred_desc {
                p.reverse();
            }
            p
        })
        .collect();
    let run = catch(|| {
        let mut m = SubgraphMerge::new(
            keys.iter().copied(),
            |k| preds[idx(k)].iter().copied(),
            enemies.iter().map(|&(a, b)| (keys[a], keys[b])),
        )
        .map_err(|c| format!("new() reported a cycle {:?} on a DAG", c.iter().map(|&k| idx(k)).collect::<Vec<_>>()))?;
        let mut model = Model { n, mask, class: (0..n).collect(), enemies: enemies.to_vec() };
        let mut tags = String::new();
        for (step, &(u, v)) in hist.iter().enumerate() {
            let got = m.try_merge(keys[u], keys[v]);
            let (exp, why) = model.try_merge(u, v);
            tags.push_str(&why[..1]);
            if got != exp {
                return Err(format!(
                    "RESULT step {step}: try_merge({u},{v}) returned {got}, expected {exp} ({why}); groups before: {:?}",
                    model.class
                ));
            }
            // Invariants after the try_merge that ends this history (every prefix is its own
            // history, so this is 'after every try_merge').
            if step + 1 != hist.len() {
                continue;
            }
            let groups: Vec<Vec<usize>> = m.subgraphs().map(|s| s.iter().map(|&k| idx(k)).collect()).collect();
            let flat: Vec<usize> = groups.iter().flatten().copied().collect();
            let mut sorted = flat.clone();
            sorted.sort();
            if sorted != (0..n).collect::<Vec<_>>() {
                return Err(format!("PERM step {step}: subgraphs() = {groups:?} is not a partition of the nodes"));
            }
            // groups == model classes (each slice is exactly one class => classes are contiguous ranges)
            for g in &groups {
                let c = model.class[g[0]];
                let members: Vec<usize> = (0..n).filter(|&x| model.class[x] == c).collect();
                let mut gs = g.clone();
                gs.sort();
                if gs != members {
                    return Err(format!("GROUPS step {step}: subgraphs() = {groups:?} but merged classes are {:?}", model.class));
                }
            }
            // concatenation is a topological order of the node DAG
            let pos = |x: usize| flat.iter().position(|&y| y == x).unwrap();
            for i in 0..n {
                for j in 0..n {
                    if has(mask, n, i, j) && pos(i) >= pos(j) {
                        return Err(format!("TOPO step {step}: order {flat:?} puts {j} before its predecessor {i}"));
                    }
                }
            }
            // no group contains an enemy pair
            for &(a, b) in enemies {
                if groups.iter().any(|g| g.contains(&a) && g.contains(&b)) {
                    return Err(format!("ENEMY step {step}: enemies {a},{b} share a group in {groups:?}"));
                }
            }
            // quotient graph of the implementation's grouping is acyclic
            let mut cls = vec![0usize; n];
            for (gi, g) in groups.iter().enumerate() {
                for &x in g {
                    cls[x] = gi;
                }
            }
            if model.quotient_cyclic(&cls) {
                return Err(format!("QCYCLE step {step}: quotient graph of {groups:?} is cyclic"));
            }
            // same_set == model
            for a in 0..n {
                for b in 0..n {
                    let s = m.same_set(keys[a], keys[b]);
                    if s != (model.class[a] == model.class[b]) {
                        return Err(format!("SAMESET step {step}: same_set({a},{b}) = {s}, model classes {:?}", model.class));
                    }
                }
            }
        }
        Ok(tags)
    });
    match run {
        Err(p) => ("panic".into(), Some(("C17/subgraph_merge/panic".into(), format!("panicked ({p}): {}", describe())))),
        Ok(Err(msg)) => {
            let kind = msg.split(' ').next().unwrap_or("X").to_lowercase();
            (kind.clone(), Some((format!("C17/subgraph_merge/{kind}"), format!("{msg}: {}", describe()))))
        }
        Ok(Ok(tags)) => (tags, None),
    }
}

fn merge_section(thorough: bool, viols: &Viols) -> (Stats, Value) {
    // per n: list of (max enemy-set size, history lengths over ALL ordered pairs incl. (u,u),
    //                 extra history lengths over pairs u != v only)
    type Sub = (usize, std::ops::RangeInclusive<usize>, std::ops::RangeInclusive<usize>);
    // (n, max edges of the DAG (None = all DAGs), sub-plans)
    let plans: Vec<(usize, Option<usize>, Vec<Sub>)> = if thorough {
        vec![
            (2, None, vec![(1, 1..=4, 1..=0)]),
            (3, None, vec![(2, 1..=4, 1..=0)]),
            (4, None, vec![(2, 1..=3, 1..=0), (1, 1..=0, 4..=4)]),
            // 5 nodes, sparse DAGs, up to 3 enemy pairs (both merged groups can carry enemy sets of
            // different sizes)
            (5, Some(2), vec![(3, 1..=2, 1..=0)]),
            (5, Some(1), vec![(3, 1..=0, 3..=3)]),
        ]
    } else {
        vec![
            (2, None, vec![(1, 1..=3, 1..=0)]),
            (3, None, vec![(1, 1..=3, 1..=0)]),
            (4, None, vec![(1, 1..=2, 3..=3)]),
            (5, Some(1), vec![(3, 1..=2, 1..=0)]),
        ]
    };
    let mut total = Stats::new();
    let mut info = vec![];
    for (n, max_edges, subs) in plans {
        let dags = match max_edges {
            None => all_dags(n),
            Some(k) => sparse_dags(n, k),
        };
        let pairs: Vec<(usize, usize)> = (0..n).flat_map(|a| (a + 1..n).map(move |b| (a, b))).collect();
        let full: Vec<(usize, usize)> = (0..n).flat_map(|a| (0..n).map(move |b| (a, b))).collect();
        let distinct: Vec<(usize, usize)> = full.iter().copied().filter(|&(a, b)| a != b).collect();
        for (max_en, full_lens, pair_lens) in subs {
            let enemy_sets: Vec<Vec<(usize, usize)>> = combi::subsets_upto(pairs.len(), max_en)
                .into_iter()
                .map(|s| s.into_iter().map(|i| pairs[i]).collect())
                .collect();
            let mut hists: Vec<Vec<(usize, usize)>> = vec![];
            for l in full_lens.clone() {
                hists.extend(combi::sequences(&full, l));
            }
            for l in pair_lens.clone() {
                hists.extend(combi::sequences(&distinct, l));
            }
            info.push(json!({"n": n, "max_dag_edges": max_edges, "dags": dags.len(), "enemy_sets": enemy_sets.len(), "max_enemies": max_en,
                "histories": hists.len(), "lengths_all_ops": format!("{full_lens:?}"), "lengths_distinct_pairs": format!("{pair_lens:?}")}));
            let jobs: Vec<(u32, usize)> = dags.iter().flat_map(|&d| (0..enemy_sets.len()).map(move |e| (d, e))).collect();
            let s = par_map(jobs.len(), ncpu().min(16), |j| {
                let (mask, ei) = jobs[j];
                let mut st = Stats::new();
                st.nontrivial(&(n, mask, ei, enemy_sets[ei].len()));
                for h in &hists {
                    // predecessor lists in descending order as a second iteration order (thorough, short histories)
                    let modes: &[bool] = if thorough && h.len() <= 3 && mask.count_ones() >= 2 { &[false, true] } else { &[false] };
                    for &desc in modes {
                        st.eval();
                        st.state();
                        st.transition();
                        st.trace();
                        let (tag, v) = merge_case(n, mask, &enemy_sets[ei], h, desc);
                        st.outcome(&tag);
                        if j % 97 == 3 && h.len() == 3 && !desc {
                            st.sample(|| json!({"section": "subgraph_merge", "n": n, "dag": edges_of(mask, n), "enemies": enemy_sets[ei], "history": h, "answers": tag}));
                        }
                        if let Some((key, what)) = v {
                            viols.push(Viol {
                                key,
                                what,
                                size: n * 1000 + h.len() * 100 + mask.count_ones() as usize,
                                case: json!({"kind": "subgraph_merge", "n": n, "mask": mask, "enemies": enemy_sets[ei], "history": h, "desc": desc}),
                            });
                        }
                    }
                }
                st
            });
            total.merge(s);
        }
    }
    (total, json!(info))
}

// ------------------------------------------------------------------------------------------
// UnionFind

#[derive(Clone, Copy, Debug, PartialEq, Eq, Hash)]
pub enum UfOp {
    Union(usize, usize),
    Find(usize),
    Same(usize, usize),
}

pub fn uf_case(nk: usize, hist: &[UfOp]) -> (String, Option<(String, String)>) {
    let describe = || format!("keys={nk} history={hist:?}");
    let mut sm: SlotMap<GraphNodeId, ()> = SlotMap::with_key();
    let keys: Vec<GraphNodeId> = (0..nk).map(|_| sm.insert(())).collect();
    let idx = |k: GraphNodeId| keys.iter().position(|&x| x == k);
    let run = catch(|| {
        let mut uf: UnionFind<GraphNodeId> = UnionFind::new();
        let mut class: Vec<usize> = (0..nk).collect();
        let mut tags = String::new();
        for (step, op) in hist.iter().enumerate() {
            match *op {
                UfOp::Union(a, b) => {
                    let r = uf.union(keys[a], keys[b]);
                    let (ca, cb) = (class[a], class[b]);
                    for c in class.iter_mut() {
                        if *c == cb {
                            *c = ca;
                        }
                    }
                    let Some(ri) = idx(r) else { return Err(format!("UNION step {step}: returned a foreign key")) };
                    if class[ri] != ca {
                        return Err(format!("UNION step {step}: union({a},{b}) returned representative {ri} outside the merged class"));
                    }
                    tags.push(if ca == cb { 'u' } else { 'U' });
                }
                UfOp::Find(a) => {
                    let r = uf.find(keys[a]);
                    let Some(ri) = idx(r) else { return Err(format!("FIND step {step}: returned a foreign key")) };
                    if class[ri] != class[a] {
                        return Err(format!("FIND step {step}: find({a}) = {ri} is in another class ({class:?})"));
                    }
                    tags.push('f');
                }
                UfOp::Same(a, b) => {
                    let s = uf.same_set(keys[a], keys[b]);
                    if s != (class[a] == class[b]) {
                        return Err(format!("SAME step {step}: same_set({a},{b}) = {s}, model classes {class:?}"));
                    }
                    tags.push(if s { 'S' } else { 's' });
                }
            }
        }
        // Full connectivity reveal at the end of the history (every prefix is its own history).
        let reps: Vec<usize> = (0..nk).map(|a| idx(uf.find(keys[a])).unwrap_or(usize::MAX)).collect();
        for a in 0..nk {
            for b in 0..nk {
                if (reps[a] == reps[b]) != (class[a] == class[b]) {
                    return Err(format!("REVEAL find() representatives {reps:?} disagree with model classes {class:?}"));
                }
                let s = uf.same_set(keys[a], keys[b]);
                if s != (class[a] == class[b]) {
                    return Err(format!("REVEAL same_set({a},{b}) = {s}, model classes {class:?}"));
                }
            }
        }
        let nclasses = class.iter().collect::<BTreeSet<_>>().len();
        Ok(format!("{tags}/{nclasses}"))
    });
    match run {
        Err(p) => ("panic".into(), Some(("C17/union_find/panic".into(), format!("panicked ({p}): {}", describe())))),
        Ok(Err(msg)) => {
            let kind = msg.split(' ').next().unwrap_or("X").to_lowercase();
            (kind.clone(), Some((format!("C17/union_find/{kind}"), format!("{msg}: {}", describe()))))
        }
        Ok(Ok(t)) => (t, None),
    }
}

fn uf_section(thorough: bool, viols: &Viols) -> Stats {
    let nk = 4;
    let mut ops = vec![];
    for a in 0..nk {
        ops.push(UfOp::Find(a));
        for b in 0..nk {
            ops.push(UfOp::Union(a, b));
            ops.push(UfOp::Same(a, b));
        }
    }
    let len = if thorough { 4 } else { 3 };
    // shard on the first op
    let s = par_map(ops.len() + 1, ncpu().min(16), |i| {
        let mut st = Stats::new();
        let hists: Vec<Vec<UfOp>> = if i == ops.len() {
            vec![vec![]]
        } else {
            combi::sequences_upto(&ops, len - 1)
                .into_iter()
                .map(|mut t| {
                    t.insert(0, ops[i]);
                    t
                })
                .collect()
        };
        for h in hists {
            st.eval();
            st.state();
            st.transition();
            st.trace();
            let (tag, v) = uf_case(nk, &h);
            st.nontrivial(&tag); // distinct (answer pattern, number of classes) behaviours
            st.outcome(&tag);
            if h.len() == 3 && i % 11 == 2 {
                st.sample(|| json!({"section": "union_find", "history": format!("{h:?}"), "answers": tag}));
            }
            if let Some((key, what)) = v {
                viols.push(Viol {
                    key,
                    what,
                    size: h.len(),
                    case: json!({"kind": "union_find", "keys": nk, "history": h.iter().map(|o| match *o {
                        UfOp::Union(a, b) => json!(["union", a, b]),
                        UfOp::Find(a) => json!(["find", a]),
                        UfOp::Same(a, b) => json!(["same", a, b]),
                    }).collect::<Vec<_>>()}),
                });
            }
        }
        st
    });
    s
}

// ------------------------------------------------------------------------------------------

pub fn run(rep: &mut Report, viols: &Viols) {
    let thorough = rep.thorough();
    rep.rule = "topo_sort: a case = (digraph on n nodes incl. self-loops, node iteration order, predecessor listing mode); distinct = distinct (n, edge set). SubgraphMerge: a case = (labelled DAG, symmetric enemy set, history of try_merge calls), every history rebuilt from scratch (no state dedup: hidden state cannot be revealed); distinct = (DAG, enemy set). UnionFind: a case = history of union/find/same_set over 4 keys; distinct = distinct answer patterns.".into();
    rep.explanation = "Real dfir_lang::graph::graph_algorithms::{topo_sort, SubgraphMerge} and dfir_lang::union_find::UnionFind executed on every case; compared with own Kahn acyclicity test, own partition model with enemy/quotient-cycle prediction of each try_merge answer, and invariants (contiguous groups = model classes, concatenation topological, no enemy pair inside a group, quotient acyclic, same_set == model) after every try_merge.".into();
    rep.assume("4-node DAGs: histories of the maximal length use only pairs u != v and enemy sets of size <= 1; shorter histories use every ordered pair incl. try_merge(u,u) and the full enemy bound (see bounds.subgraph_merge_plans)");
    rep.assume("cycle returned by topo_sort is accepted in either consistent direction (the statement only says 'genuine cycle')");
    rep.bound("topo_sort_max_nodes_all_orders", 4);
    rep.bound("topo_sort_n5_orders", if thorough { 3 } else { 0 });
    rep.bound("union_find_keys", 4);
    rep.bound("union_find_history_len", if thorough { 4 } else { 3 });
    let t = topo_section(thorough, viols);
    rep.section("topo_sort", t);
    let (m, info) = merge_section(thorough, viols);
    rep.bounds.insert("subgraph_merge_plans".into(), info);
    rep.section("subgraph_merge", m);
    let u = uf_section(thorough, viols);
    rep.section("union_find", u);
}

pub fn replay(case: &Value) -> Option<(String, String)> {
    let us = |v: &Value| v.as_u64().unwrap() as usize;
    match case["kind"].as_str().unwrap_or("") {
        "topo_sort" => {
            let order: Vec<u8> = case["order"].as_array().unwrap().iter().map(|x| x.as_u64().unwrap() as u8).collect();
            let (tag, v) = topo_case(us(&case["n"]), case["mask"].as_u64().unwrap() as u32, &order, case["mode"].as_u64().unwrap() as u8);
            println!("observed: {tag}");
            v
        }
        "subgraph_merge" => {
            let pairs = |v: &Value| -> Vec<(usize, usize)> {
                v.as_array().unwrap().iter().map(|p| (us(&p[0]), us(&p[1]))).collect()
            };
            let (tag, v) = merge_case(us(&case["n"]), case["mask"].as_u64().unwrap() as u32, &pairs(&case["enemies"]), &pairs(&case["history"]), case["desc"].as_bool().unwrap_or(false));
            println!("observed: {tag}");
            v
        }
        "union_find" => {
            let hist: Vec<UfOp> = case["history"]
                .as_array()
                .unwrap()
                .iter()
                .map(|o| match o[0].as_str().unwrap() {
                    "union" => UfOp::Union(us(&o[1]), us(&o[2])),
                    "find" => UfOp::Find(us(&o[1])),
                    _ => UfOp::Same(us(&o[1]), us(&o[2])),
                })
                .collect();
            let (tag, v) = uf_case(us(&case["keys"]), &hist);
            println!("observed: {tag}");
            v
        }
        _ => None,
    }
}
