//! Bounded-exhaustive DFIR program family (DESIGN C18 **E**).
//!
//! A program = multiset of operator nodes (one representative operator per compiler-relevant
//! class) × a perfect matching of all output slots to all input slots (so every digraph shape with
//! those arities, cycles and self-loops included) × reference decoration (`#x`, `#mut x`,
//! `#{N} x` pointing at `handoff()/singleton()/optional()` nodes) × declaration-order variant.
//! Loop contexts are *derived*: `batch()/batch_lazy()` enter child loop k of their input's context,
//! `all_iterations()` leaves to the parent. Everything is plain data (`Send`); the surface text is
//! parsed inside the worker.
use std::collections::BTreeSet;

#[derive(Clone, Copy, PartialEq, Eq, Hash, PartialOrd, Ord, Debug)]
pub enum Kind {
    Src,
    Sink,
    Map,
    Fold,
    Union1,
    Union2,
    Union3,
    Tee1,
    Tee2,
    Tee3,
    /// unary tee whose single arm is written with an explicit index: `t[0] -> ..`
    Tee1P,
    /// unary union whose single arm is written `-> [0]x` / `-> [1]x`
    Union1P0,
    Union1P1,
    Join,
    Diff,
    Part,
    Unzip,
    Demux,
    State,
    DeferTick,
    DeferTickLazy,
    Rfb,
    Batch0,
    Batch1,
    BatchLazy0,
    AllIter,
    HoffVec0,
    HoffVec1,
    HoffSing0,
    HoffSing1,
    HoffOpt0,
    HoffOpt1,
    SrcRef,
}
use Kind::*;

impl Kind {
    pub fn n_in(self) -> usize {
        match self {
            Src | SrcRef => 0,
            Union2 | Join | Diff => 2,
            Union3 => 3,
            _ => 1,
        }
    }
    pub fn n_out(self) -> usize {
        match self {
            Sink | HoffVec0 | HoffSing0 | HoffOpt0 => 0,
            Tee2 | Part | Unzip | Demux | State => 2,
            Tee3 => 3,
            _ => 1,
        }
    }
    pub fn in_port(self, slot: usize) -> Option<&'static str> {
        match self {
            Join => Some(["0", "1"][slot]),
            Diff => Some(["pos", "neg"][slot]),
            Union1P0 => Some("0"),
            Union1P1 => Some("1"),
            _ => None,
        }
    }
    pub fn out_port(self, slot: usize) -> Option<&'static str> {
        match self {
            Part => Some(["a", "b"][slot]),
            Unzip => Some(["0", "1"][slot]),
            Demux => Some(["A", "B"][slot]),
            State => Some(["items", "state"][slot]),
            Tee1P => Some("0"),
            _ => None,
        }
    }
    pub fn in_sym(self) -> bool {
        matches!(self, Union2 | Union3)
    }
    pub fn out_sym(self) -> bool {
        matches!(self, Tee2 | Tee3)
    }
    pub fn is_hoff(self) -> bool {
        matches!(self, HoffVec0 | HoffVec1 | HoffSing0 | HoffSing1 | HoffOpt0 | HoffOpt1)
    }
    /// Operators whose argument closure can carry `#x` references in this family.
    pub fn can_ref(self) -> bool {
        matches!(self, Map | Sink | SrcRef)
    }
    pub fn is_base(self) -> bool {
        matches!(self, Src | Sink | Map | Union2 | Tee2 | Join)
    }
    pub fn name(self) -> &'static str {
        match self {
            Src => "source_iter",
            Sink => "for_each",
            Map => "map",
            Fold => "fold",
            Union1 | Union2 | Union3 | Union1P0 | Union1P1 => "union",
            Tee1 | Tee2 | Tee3 | Tee1P => "tee",
            Join => "join",
            Diff => "difference",
            Part => "partition",
            Unzip => "unzip",
            Demux => "demux_enum",
            State => "state",
            DeferTick => "defer_tick",
            DeferTickLazy => "defer_tick_lazy",
            Rfb => "resolve_futures_blocking",
            Batch0 | Batch1 => "batch",
            BatchLazy0 => "batch_lazy",
            AllIter => "all_iterations",
            HoffVec0 | HoffVec1 => "handoff",
            HoffSing0 | HoffSing1 => "singleton",
            HoffOpt0 | HoffOpt1 => "optional",
            SrcRef => "iter_ref",
        }
    }
}

#[derive(Clone, Copy, PartialEq, Eq, Hash, PartialOrd, Ord, Debug)]
pub struct Ref {
    /// referencing node
    pub node: usize,
    /// referenced handoff node
    pub target: usize,
    pub is_mut: bool,
    pub group: Option<u32>,
}

/// (src node, src slot, dst node, dst slot)
pub type Edge = (usize, usize, usize, usize);

#[derive(Clone, PartialEq, Eq, Hash, Debug)]
pub struct Prog {
    pub kinds: Vec<Kind>,
    pub edges: Vec<Edge>,
    pub refs: Vec<Ref>,
}

#[derive(Clone, Copy, PartialEq, Eq, Hash, Debug)]
pub struct Order {
    pub node_rev: bool,
    pub edge_rev: bool,
}

impl Prog {
    /// Loop context of every node as a path of child indices (empty = root); `None` if the
    /// derivation is inconsistent (`all_iterations` at root) — such programs are skipped.
    pub fn contexts(&self) -> Option<Vec<Vec<u8>>> {
        let n = self.kinds.len();
        let mut ctx: Vec<Option<Vec<u8>>> = vec![None; n];
        for (i, k) in self.kinds.iter().enumerate() {
            if k.n_in() == 0 {
                ctx[i] = Some(vec![]);
            }
        }
        loop {
            let mut changed = false;
            for &(s, _, d, _) in &self.edges {
                if ctx[d].is_some() {
                    continue;
                }
                let Some(cs) = ctx[s].clone() else { continue };
                let c = match self.kinds[d] {
                    Batch0 | BatchLazy0 => {
                        let mut c = cs;
                        c.push(0);
                        c
                    }
                    Batch1 => {
                        let mut c = cs;
                        c.push(1);
                        c
                    }
                    AllIter => {
                        let mut c = cs;
                        c.pop()?;
                        c
                    }
                    _ => cs,
                };
                ctx[d] = Some(c);
                changed = true;
            }
            if !changed {
                break;
            }
        }
        Some(ctx.into_iter().map(|c| c.unwrap_or_default()).collect())
    }

    fn op_text(&self, i: usize) -> String {
        let refs: Vec<String> = self
            .refs
            .iter()
            .filter(|r| r.node == i)
            .map(|r| {
                let g = r.group.map(|g| format!("{{{}}} ", g)).unwrap_or_default();
                let m = if r.is_mut { "mut " } else { "" };
                format!("#{}{}n{}", g, m, r.target)
            })
            .collect();
        match self.kinds[i] {
            Src => format!("source_iter([{}])", i),
            Sink => {
                if refs.is_empty() {
                    format!("for_each(|x| drop((x, {})))", i)
                } else {
                    format!("for_each(|x| drop((x, {}, {})))", i, refs.join(", "))
                }
            }
            Map => {
                if refs.is_empty() {
                    format!("map(|x| x + {})", i)
                } else {
                    format!("map(|x| {{ let _ = ({},); x + {} }})", refs.join(", "), i)
                }
            }
            Fold => format!("fold(|| {}, |a, x| *a += x)", i),
            Part => "partition(|_x, [a, b]| a)".to_string(),
            Demux => "demux_enum::<E>()".to_string(),
            SrcRef => format!("iter_ref({})", refs.first().cloned().unwrap_or_else(|| "x".into())),
            k => format!("{}()", k.name()),
        }
    }

    /// Surface syntax. Every node is a named statement, every edge its own link statement; nodes
    /// inside loop contexts are printed inside (nested) `loop { .. };` blocks.
    pub fn text(&self, ord: Order) -> Option<String> {
        let ctx = self.contexts()?;
        let n = self.kinds.len();
        // Loop tree.
        let mut paths: BTreeSet<Vec<u8>> = BTreeSet::new();
        for c in &ctx {
            for l in 0..=c.len() {
                paths.insert(c[..l].to_vec());
            }
        }
        fn min_idx(path: &[u8], ctx: &[Vec<u8>]) -> usize {
            ctx.iter().position(|c| c.starts_with(path)).unwrap_or(usize::MAX)
        }
        fn emit(
            p: &Prog,
            path: &[u8],
            ctx: &[Vec<u8>],
            paths: &BTreeSet<Vec<u8>>,
            rev: bool,
            ind: usize,
            out: &mut String,
        ) {
            // items: Left(node) / Right(child path)
            let mut items: Vec<(usize, Option<Vec<u8>>)> = vec![];
            for i in 0..p.kinds.len() {
                if ctx[i] == path {
                    items.push((i, None));
                }
            }
            for c in paths {
                if c.len() == path.len() + 1 && c.starts_with(path) {
                    items.push((min_idx(c, ctx), Some(c.clone())));
                }
            }
            items.sort();
            if rev {
                items.reverse();
            }
            let pad = " ".repeat(ind);
            for (i, child) in items {
                match child {
                    None => out.push_str(&format!("{}n{} = {};\n", pad, i, p.op_text(i))),
                    Some(c) => {
                        out.push_str(&format!("{}loop {{\n", pad));
                        emit(p, &c, ctx, paths, rev, ind + 2, out);
                        out.push_str(&format!("{}}};\n", pad));
                    }
                }
            }
        }
        let mut out = String::new();
        emit(self, &[], &ctx, &paths, ord.node_rev, 0, &mut out);
        let mut edges = self.edges.clone();
        if ord.edge_rev {
            edges.reverse();
        }
        for (s, so, d, di) in edges {
            let sp = self.kinds[s].out_port(so).map(|p| format!("[{}]", p)).unwrap_or_default();
            let dp = self.kinds[d].in_port(di).map(|p| format!("[{}]", p)).unwrap_or_default();
            out.push_str(&format!("n{}{} -> {}n{};\n", s, sp, dp, d));
        }
        let _ = n;
        Some(out)
    }

    /// Generator-side family filter (NOT an oracle): is there a cycle of pipe edges that does not
    /// enter a `defer_tick*` operator?
    pub fn has_undelayed_data_cycle(&self) -> bool {
        let n = self.kinds.len();
        let e: Vec<(usize, usize)> = self
            .edges
            .iter()
            .filter(|&&(_, _, d, _)| !matches!(self.kinds[d], DeferTick | DeferTickLazy))
            .map(|&(s, _, d, _)| (s, d))
            .collect();
        let mut alive = vec![true; n];
        loop {
            let mut progress = false;
            for v in 0..n {
                if alive[v] && !e.iter().any(|&(s, d)| d == v && alive[s]) {
                    alive[v] = false;
                    progress = true;
                }
            }
            if !progress {
                break;
            }
        }
        alive.iter().any(|&a| a)
    }

    /// Generator-side family filter: programs the builder certainly refuses (adjacent handoffs,
    /// edges that cross loop contexts other than through batch/all_iterations).
    pub fn trivially_refused(&self, ctx: &[Vec<u8>]) -> bool {
        for &(s, _, d, _) in &self.edges {
            if self.kinds[s].is_hoff() && self.kinds[d].is_hoff() {
                return true;
            }
            let mut exp = ctx[s].clone();
            match self.kinds[d] {
                Batch0 | BatchLazy0 => exp.push(0),
                Batch1 => exp.push(1),
                AllIter => {
                    if exp.pop().is_none() {
                        return true;
                    }
                }
                _ => {}
            }
            if exp != ctx[d] {
                return true;
            }
        }
        false
    }

    pub fn weakly_connected(&self) -> bool {
        let n = self.kinds.len();
        if n == 0 {
            return false;
        }
        let mut comp: Vec<usize> = (0..n).collect();
        fn find(c: &mut Vec<usize>, x: usize) -> usize {
            if c[x] != x {
                let r = find(c, c[x]);
                c[x] = r;
            }
            c[x]
        }
        for &(s, _, d, _) in &self.edges {
            let (a, b) = (find(&mut comp, s), find(&mut comp, d));
            comp[a] = b;
        }
        for r in &self.refs {
            let (a, b) = (find(&mut comp, r.node), find(&mut comp, r.target));
            comp[a] = b;
        }
        let r0 = find(&mut comp, 0);
        (0..n).all(|i| find(&mut comp, i) == r0)
    }

    /// Canonical form under permutations of same-kind nodes (kinds are sorted, so same-kind nodes
    /// are adjacent) with symmetric slots (tee outputs / union inputs) collapsed.
    pub fn canon(&self) -> (Vec<Kind>, Vec<Edge>, Vec<Ref>) {
        let n = self.kinds.len();
        let mut groups: Vec<Vec<usize>> = vec![];
        for i in 0..n {
            if i > 0 && self.kinds[i] == self.kinds[i - 1] {
                groups.last_mut().unwrap().push(i);
            } else {
                groups.push(vec![i]);
            }
        }
        let mut best: Option<(Vec<Edge>, Vec<Ref>)> = None;
        let mut perm: Vec<usize> = (0..n).collect();
        fn rec(
            p: &Prog,
            groups: &[Vec<usize>],
            gi: usize,
            perm: &mut Vec<usize>,
            best: &mut Option<(Vec<Edge>, Vec<Ref>)>,
        ) {
            if gi == groups.len() {
                let mut e: Vec<Edge> = p
                    .edges
                    .iter()
                    .map(|&(s, so, d, di)| {
                        let so = if p.kinds[s].out_sym() { 0 } else { so };
                        let di = if p.kinds[d].in_sym() { 0 } else { di };
                        (perm[s], so, perm[d], di)
                    })
                    .collect();
                e.sort();
                let mut r: Vec<Ref> = p
                    .refs
                    .iter()
                    .map(|r| Ref { node: perm[r.node], target: perm[r.target], ..*r })
                    .collect();
                r.sort();
                let cand = (e, r);
                if best.as_ref().is_none_or(|b| cand < *b) {
                    *best = Some(cand);
                }
                return;
            }
            let g = &groups[gi];
            for pm in vf_explore::combi::permutations(g) {
                for (k, &i) in g.iter().enumerate() {
                    perm[i] = pm[k];
                }
                rec(p, groups, gi + 1, perm, best);
            }
        }
        rec(self, &groups, 0, &mut perm, &mut best);
        let (e, r) = best.unwrap();
        (self.kinds.clone(), e, r)
    }

    pub fn to_json(&self) -> vf_explore::Value {
        vf_explore::json!({
            "kinds": self.kinds.iter().map(|k| format!("{:?}", k)).collect::<Vec<_>>(),
            "edges": self.edges.iter().map(|e| vec![e.0, e.1, e.2, e.3]).collect::<Vec<_>>(),
            "refs": self.refs.iter().map(|r| vf_explore::json!({"node": r.node, "target": r.target,
                "is_mut": r.is_mut, "group": r.group})).collect::<Vec<_>>(),
        })
    }
}

/// A sub-family: all programs over `alphabet` with `n_min..=n_max` nodes passing `filter`
/// (evaluated on the sorted kind multiset), every slot matching, and up to `max_refs` references.
#[derive(Clone)]
pub struct Family {
    pub name: &'static str,
    pub alphabet: Vec<Kind>,
    pub n_min: usize,
    pub n_max: usize,
    pub max_refs: usize,
    pub filter: fn(&[Kind]) -> bool,
    /// keep wirings that contain a data cycle not broken by a `defer_tick*` input
    /// (those are C19's must-reject programs; the builder/partitioner rejects them).
    pub cycles: bool,
    /// require weak connectivity (pipe edges + references); `false` admits several components
    /// that meet only through a shared loop context.
    pub connected: bool,
    /// keep only decorations with at least this many references
    pub min_refs: usize,
    /// `false`: isomorphic *wirings* are still merged, but every reference decoration of a wiring
    /// is kept (so that access groups meet every declaration order of their users).
    pub iso_dedup_refs: bool,
}

fn multisets(alpha: &[Kind], n: usize) -> Vec<Vec<Kind>> {
    fn rec(alpha: &[Kind], start: usize, n: usize, cur: &mut Vec<Kind>, out: &mut Vec<Vec<Kind>>) {
        if cur.len() == n {
            out.push(cur.clone());
            return;
        }
        for i in start..alpha.len() {
            cur.push(alpha[i]);
            rec(alpha, i, n, cur, out);
            cur.pop();
        }
    }
    let mut a = alpha.to_vec();
    a.sort();
    a.dedup();
    let mut out = vec![];
    rec(&a, 0, n, &mut vec![], &mut out);
    out
}

/// All perfect matchings of output slots to input slots (symmetric slots canonicalised).
fn matchings(kinds: &[Kind], forbid_cycles: bool) -> Vec<Vec<Edge>> {
    let ins: Vec<(usize, usize)> =
        kinds.iter().enumerate().flat_map(|(i, k)| (0..k.n_in()).map(move |s| (i, s))).collect();
    let outs: Vec<(usize, usize)> =
        kinds.iter().enumerate().flat_map(|(i, k)| (0..k.n_out()).map(move |s| (i, s))).collect();
    if ins.len() != outs.len() {
        return vec![];
    }
    let mut res = vec![];
    let mut used = vec![false; outs.len()];
    let mut choice: Vec<usize> = vec![];
    #[allow(clippy::too_many_arguments)]
    fn rec(
        kinds: &[Kind],
        ins: &[(usize, usize)],
        outs: &[(usize, usize)],
        used: &mut Vec<bool>,
        choice: &mut Vec<usize>,
        res: &mut Vec<Vec<Edge>>,
        forbid_cycles: bool,
    ) {
        let k = choice.len();
        if k == ins.len() {
            res.push(
                choice.iter().enumerate().map(|(i, &o)| (outs[o].0, outs[o].1, ins[i].0, ins[i].1)).collect(),
            );
            return;
        }
        let (dn, ds) = ins[k];
        for o in 0..outs.len() {
            if used[o] {
                continue;
            }
            let (sn, ss) = outs[o];
            // tee outputs are interchangeable: use them lowest-first.
            if kinds[sn].out_sym() && ss > 0 && !used[o - 1] {
                continue;
            }
            // union inputs are interchangeable: sources in increasing slot order.
            if kinds[dn].in_sym() && ds > 0 && choice[k - 1] > o {
                continue;
            }
            if forbid_cycles && !matches!(kinds[dn], DeferTick | DeferTickLazy) {
                // would sn be reachable from dn through undelayed edges chosen so far?
                let mut seen = vec![false; kinds.len()];
                let mut stack = vec![dn];
                seen[dn] = true;
                let mut cyc = dn == sn;
                while let Some(x) = stack.pop() {
                    if cyc {
                        break;
                    }
                    for (i, &oo) in choice.iter().enumerate() {
                        let (a, b) = (outs[oo].0, ins[i].0);
                        if a == x && !matches!(kinds[b], DeferTick | DeferTickLazy) && !seen[b] {
                            if b == sn {
                                cyc = true;
                                break;
                            }
                            seen[b] = true;
                            stack.push(b);
                        }
                    }
                }
                if cyc {
                    continue;
                }
            }
            used[o] = true;
            choice.push(o);
            rec(kinds, ins, outs, used, choice, res, forbid_cycles);
            choice.pop();
            used[o] = false;
        }
    }
    rec(kinds, &ins, &outs, &mut used, &mut choice, &mut res, forbid_cycles);
    res
}

/// Reference decorations for a wired program (always includes the empty decoration unless the
/// program contains `iter_ref`, which needs exactly one reference).
fn ref_decorations(kinds: &[Kind], max_refs: usize) -> Vec<Vec<Ref>> {
    let hoffs: Vec<usize> = (0..kinds.len()).filter(|&i| kinds[i].is_hoff()).collect();
    let src_refs: Vec<usize> = (0..kinds.len()).filter(|&i| kinds[i] == SrcRef).collect();
    let users: Vec<usize> =
        (0..kinds.len()).filter(|&i| kinds[i].can_ref() && kinds[i] != SrcRef).collect();
    if hoffs.is_empty() {
        return if src_refs.is_empty() { vec![vec![]] } else { vec![] };
    }
    // Per-target patterns over `users`.
    let mut per_target: Vec<Vec<Vec<Ref>>> = vec![];
    for &h in &hoffs {
        let mut pats: Vec<Vec<Ref>> = vec![vec![]];
        let r = |node, is_mut, group| Ref { node, target: h, is_mut, group };
        for &a in &users {
            pats.push(vec![r(a, false, None)]);
            pats.push(vec![r(a, true, None)]);
            for &b in &users {
                if a < b {
                    pats.push(vec![r(a, false, None), r(b, false, None)]);
                }
                // ordered pairs, two access groups; a == b is the "same node in two groups" case.
                pats.push(vec![r(a, true, Some(0)), r(b, false, Some(1))]);
                if a != b {
                    pats.push(vec![r(a, false, Some(0)), r(b, true, Some(1))]);
                }
            }
        }
        // k = 3, 4 distinct access groups on one handoff: every ordered k-tuple of distinct users gets
        // groups 0..k (first mutable, rest shared).
        for k in 3..=4usize {
            if k > max_refs || users.len() < k {
                continue;
            }
            for sub in vf_explore::combi::k_subsets(users.len(), k) {
                let us: Vec<usize> = sub.iter().map(|&i| users[i]).collect();
                for perm in vf_explore::combi::permutations(&us) {
                    pats.push(perm.iter().enumerate().map(|(g, &a)| r(a, g == 0, Some(g as u32))).collect());
                }
            }
        }
        per_target.push(pats);
    }
    // iter_ref nodes: each references exactly one handoff (ungrouped shared) — only combined with
    // targets that have no grouped/mut user pattern (builder rules), so keep it simple: the
    // iter_ref target gets no other references.
    let mut out: Vec<Vec<Ref>> = vec![];
    fn rec(
        per_target: &[Vec<Vec<Ref>>],
        ti: usize,
        cur: &mut Vec<Ref>,
        max_refs: usize,
        out: &mut Vec<Vec<Ref>>,
    ) {
        if ti == per_target.len() {
            out.push(cur.clone());
            return;
        }
        for p in &per_target[ti] {
            if cur.len() + p.len() > max_refs {
                continue;
            }
            let l = cur.len();
            cur.extend(p.iter().copied());
            rec(per_target, ti + 1, cur, max_refs, out);
            cur.truncate(l);
        }
    }
    if src_refs.is_empty() {
        rec(&per_target, 0, &mut vec![], max_refs, &mut out);
    } else {
        // every iter_ref picks a target; no other references in these programs.
        let choices = vf_explore::combi::sequences(&hoffs, src_refs.len());
        for ch in choices {
            out.push(
                src_refs
                    .iter()
                    .zip(ch)
                    .map(|(&s, h)| Ref { node: s, target: h, is_mut: false, group: None })
                    .collect(),
            );
        }
    }
    out
}

impl Family {
    fn programs_of(&self, kinds: &[Kind]) -> Vec<Prog> {
        let mut out = vec![];
        if !(self.filter)(kinds) {
            return out;
        }
        let mut seen: BTreeSet<(Vec<Edge>, Vec<Ref>)> = BTreeSet::new();
        let mut shapes: std::collections::BTreeMap<Vec<Edge>, Vec<Edge>> = Default::default();
        let mut decos = ref_decorations(kinds, self.max_refs);
        decos.retain(|d| d.len() >= self.min_refs);
        if decos.is_empty() {
            return out;
        }
        for edges in matchings(kinds, !self.cycles) {
            if !self.iso_dedup_refs {
                // one representative wiring per isomorphism class, all decorations of it
                let bare = Prog { kinds: kinds.to_vec(), edges: edges.clone(), refs: vec![] };
                let (_, e, _) = bare.canon();
                if shapes.entry(e).or_insert_with(|| edges.clone()) != &edges {
                    continue;
                }
            }
            for refs in &decos {
                let p = Prog { kinds: kinds.to_vec(), edges: edges.clone(), refs: refs.clone() };
                if self.connected && !p.weakly_connected() {
                    continue;
                }
                let Some(ctx) = p.contexts() else { continue };
                if p.trivially_refused(&ctx) || (!self.cycles && p.has_undelayed_data_cycle()) {
                    continue;
                }
                if !self.iso_dedup_refs {
                    out.push(p);
                    continue;
                }
                let (_, e, r) = p.canon();
                if seen.insert((e, r)) {
                    out.push(p);
                }
            }
        }
        out
    }

    /// Enumerate the sub-family, deduplicated up to isomorphism (deterministic order).
    pub fn programs(&self) -> Vec<Prog> {
        let mut sets: Vec<Vec<Kind>> = vec![];
        for n in self.n_min..=self.n_max {
            sets.extend(multisets(&self.alphabet, n));
        }
        let next = std::sync::atomic::AtomicUsize::new(0);
        let results: std::sync::Mutex<Vec<(usize, Vec<Prog>)>> = std::sync::Mutex::new(vec![]);
        std::thread::scope(|sc| {
            for _ in 0..vf_explore::ncpu().min(16) {
                sc.spawn(|| {
                    loop {
                        let i = next.fetch_add(1, std::sync::atomic::Ordering::SeqCst);
                        if i >= sets.len() {
                            break;
                        }
                        let ps = self.programs_of(&sets[i]);
                        if !ps.is_empty() {
                            results.lock().unwrap().push((i, ps));
                        }
                    }
                });
            }
        });
        let mut r = results.into_inner().unwrap();
        r.sort_by_key(|x| x.0);
        r.into_iter().flat_map(|x| x.1).collect()
    }
}

pub fn count(ks: &[Kind], f: impl Fn(Kind) -> bool) -> usize {
    ks.iter().filter(|&&k| f(k)).count()
}

fn f_any(_: &[Kind]) -> bool {
    true
}
fn f_shapes5(ks: &[Kind]) -> bool {
    // n = 5 shapes: at most one delay operator.
    count(ks, |k| matches!(k, DeferTick)) <= 1
}
fn f_one_special(ks: &[Kind]) -> bool {
    count(ks, |k| !k.is_base()) == 1
}
fn f_two_special(ks: &[Kind]) -> bool {
    let c = count(ks, |k| !k.is_base());
    (1..=2).contains(&c)
}
fn f_loops(ks: &[Kind]) -> bool {
    count(ks, |k| matches!(k, Batch0 | Batch1 | BatchLazy0)) >= 1
        && count(ks, |k| k == Src) >= 1
        && count(ks, |k| matches!(k, DeferTick | DeferTickLazy)) <= 1
}
fn f_loops_big(ks: &[Kind]) -> bool {
    f_loops(ks)
        && count(ks, |k| matches!(k, Batch0 | Batch1 | BatchLazy0)) >= 2
        && count(ks, |k| k == Src) == 1
        && count(ks, |k| matches!(k, Union2 | Tee2)) <= 2
        && count(ks, |k| k == Map) <= 1
}
fn f_refs(ks: &[Kind]) -> bool {
    let h = count(ks, |k| k.is_hoff());
    (1..=2).contains(&h) && count(ks, |k| matches!(k, Src | SrcRef)) >= 1
}
fn f_refs_big(ks: &[Kind]) -> bool {
    count(ks, |k| k.is_hoff()) == 1 && count(ks, |k| matches!(k, Src | SrcRef)) >= 1
        && count(ks, |k| matches!(k, DeferTick | Batch0)) <= 1
}

fn f_groups(ks: &[Kind]) -> bool {
    let users = count(ks, |k| matches!(k, Map | Sink));
    count(ks, |k| k.is_hoff()) == 1 && users >= 3 && count(ks, |k| k == Map) <= 2 && count(ks, |k| k == Src) >= 2
}
fn f_hoff_delay(ks: &[Kind]) -> bool {
    count(ks, |k| k.is_hoff()) == 1
        && count(ks, |k| matches!(k, DeferTick | DeferTickLazy)) == 1
        && count(ks, |k| k == Src) >= 1
        && count(ks, |k| k == Map) <= 1
}
fn f_loops_multi(ks: &[Kind]) -> bool {
    count(ks, |k| k == Src) == 2
        && count(ks, |k| matches!(k, Batch0 | BatchLazy0)) == 2
        && count(ks, |k| k == AllIter) <= 1
        && count(ks, |k| matches!(k, Tee2 | Union2)) <= 1
}
fn f_loop_refs(ks: &[Kind]) -> bool {
    count(ks, |k| k.is_hoff()) == 1
        && count(ks, |k| k == Batch0) == 1
        && count(ks, |k| k == AllIter) == 1
        && count(ks, |k| k == Src) == 1
        && count(ks, |k| k == Map) <= 1
}
fn f_unary(ks: &[Kind]) -> bool {
    let u = count(ks, |k| matches!(k, Tee1 | Union1 | Tee1P | Union1P0 | Union1P1));
    (1..=3).contains(&u)
        && count(ks, |k| !k.is_base() && !matches!(k, Tee1 | Union1 | Tee1P | Union1P0 | Union1P1)) <= 1
        && count(ks, |k| k == Src) >= 1
}

const MULTI: &[Kind] = &[
    Diff, Union3, Tee3, Union1, Tee1, Tee1P, Union1P0, Union1P1, Part, Unzip, Demux, State, DeferTick, DeferTickLazy, Rfb, Fold,
];

pub fn families(thorough: bool) -> Vec<Family> {
    let base = vec![Src, Sink, Map, Union2, Tee2, Join];
    let mut with_multi = base.clone();
    with_multi.extend_from_slice(MULTI);
    let hoffs = [HoffVec0, HoffVec1, HoffSing0, HoffSing1, HoffOpt0, HoffOpt1];
    let loops_alpha = vec![Src, Sink, Map, Union2, Tee2, Batch0, Batch1, BatchLazy0, AllIter, DeferTick, DeferTickLazy];
    let unary_alpha = vec![
        Src, Sink, Map, Join, Tee2, Union2, Tee1, Union1, Tee1P, Union1P0, Union1P1, Part, Diff, HoffVec1, DeferTick, Batch0,
    ];
    let fam = |name, alphabet: Vec<Kind>, n_min, n_max, max_refs, filter, cycles| Family {
        name,
        alphabet,
        n_min,
        n_max,
        max_refs,
        filter,
        cycles,
        connected: true,
        min_refs: 0,
        iso_dedup_refs: true,
    };
    // components that meet only inside a shared loop (the #3048 regression shape and relatives)
    let multi = |n_max| Family {
        name: "loops-multi",
        alphabet: vec![Src, Sink, Map, Tee2, Union2, Batch0, BatchLazy0, AllIter],
        n_min: 6,
        n_max,
        max_refs: 0,
        filter: f_loops_multi,
        cycles: false,
        connected: false,
        min_refs: 0,
        iso_dedup_refs: true,
    };
    // k distinct access groups on one handoff; users on separate pipelines and on one pipeline,
    // every assignment of groups to users (no isomorphism reduction on the references)
    let groups = |name, n_min, n_max, k| Family {
        name,
        alphabet: vec![Src, Sink, Map, HoffSing0],
        n_min,
        n_max,
        max_refs: k,
        filter: f_groups,
        cycles: false,
        connected: true,
        min_refs: k,
        iso_dedup_refs: false,
    };
    let mut v = vec![];
    if !thorough {
        // every wiring incl. same-tick cycles (C19's must-reject side), small
        v.push(fam("cyc-shapes", [base.clone(), vec![DeferTick]].concat(), 1, 4, 0, f_any, true));
        v.push(fam("cyc-classes", with_multi.clone(), 1, 3, 0, f_one_special, true));
        // cycles only through defer_tick*: larger
        v.push(fam("shapes56", [base.clone(), vec![DeferTick]].concat(), 5, 6, 0, f_shapes5, false));
        v.push(fam("classes45", with_multi.clone(), 4, 5, 0, f_one_special, false));
        v.push(fam("loops", loops_alpha.clone(), 3, 6, 0, f_loops, false));
        v.push(fam("refs", [vec![Src, Sink, Map, Tee2, SrcRef], hoffs.to_vec()].concat(), 2, 4, 2, f_refs, true));
        v.push(fam("unary", unary_alpha.clone(), 3, 5, 0, f_unary, false));
        v.push(fam("cyc-loops", loops_alpha.clone(), 3, 5, 0, f_loops, true));
        v.push(fam("loop-refs", vec![Src, Sink, Map, Tee2, Batch0, AllIter, HoffSing0, HoffSing1], 5, 6, 1, f_loop_refs, false));
        v.push(multi(7));
        // explicit handoff()/singleton()/optional() directly in front of defer_tick / defer_tick_lazy
        v.push(fam(
            "hoff-delay",
            vec![Src, Sink, Map, Union2, Tee2, HoffVec1, HoffSing1, HoffOpt1, DeferTick, DeferTickLazy],
            3,
            6,
            0,
            f_hoff_delay,
            false,
        ));
        v.push(groups("groups3", 6, 8, 3));
        // users of one handoff off the handoff's own chain (two access groups can be acyclic)
        v.push(fam("refs5", vec![Src, Sink, Map, Tee2, HoffSing0, HoffVec1], 5, 5, 2, f_refs_big, false));
    } else {
        v.push(fam("cyc-shapes", [base.clone(), vec![DeferTick]].concat(), 1, 5, 0, f_shapes5, true));
        v.push(fam("cyc-classes", with_multi.clone(), 1, 4, 0, f_two_special, true));
        v.push(fam("shapes6", [base.clone(), vec![DeferTick]].concat(), 6, 6, 0, f_shapes5, false));
        v.push(fam("shapes7", [base.clone(), vec![DeferTick]].concat(), 7, 7, 0, f_shapes5, false));
        v.push(fam("classes5", with_multi.clone(), 5, 5, 0, f_two_special, false));
        v.push(fam("classes6", with_multi.clone(), 6, 6, 0, f_one_special, false));
        v.push(fam("cyc-loops", loops_alpha.clone(), 3, 5, 0, f_loops, true));
        v.push(fam("loops6", loops_alpha.clone(), 6, 6, 0, f_loops, false));
        v.push(fam("loops7a", loops_alpha.clone(), 7, 7, 0, f_loops, false));
        v.push(fam(
            "loops8",
            vec![Src, Sink, Map, Union2, Tee2, Batch0, Batch1, AllIter, DeferTick],
            8,
            8,
            0,
            f_loops_big,
            false,
        ));
        v.push(fam("refs", [vec![Src, Sink, Map, Tee2, Union2, SrcRef], hoffs.to_vec()].concat(), 2, 4, 3, f_refs, true));
        v.push(fam("unary", unary_alpha.clone(), 3, 6, 0, f_unary, false));
        v.push(multi(8));
        v.push(fam(
            "hoff-delay",
            vec![Src, Sink, Map, Union2, Tee2, HoffVec1, HoffSing1, HoffOpt1, DeferTick, DeferTickLazy],
            3,
            7,
            0,
            f_hoff_delay,
            false,
        ));
        v.push(groups("groups3", 6, 8, 3));
        v.push(groups("groups4", 8, 10, 4));
        v.push(fam(
            "refs5",
            [vec![Src, Sink, Map, Tee2, Union2, DeferTick, Batch0, AllIter], vec![HoffSing0, HoffSing1, HoffVec1]].concat(),
            5,
            6,
            2,
            f_refs_big,
            false,
        ));
    }
    v
}

pub fn orders(thorough: bool) -> Vec<Order> {
    if thorough {
        vec![
            Order { node_rev: false, edge_rev: false },
            Order { node_rev: true, edge_rev: true },
            Order { node_rev: false, edge_rev: true },
            Order { node_rev: true, edge_rev: false },
        ]
    } else {
        vec![Order { node_rev: false, edge_rev: false }, Order { node_rev: true, edge_rev: true }]
    }
}

