//! Per-program evaluation for C18, C19, C20 (plain functions: used by the enumerator and by replay).
use std::collections::{BTreeMap, BTreeSet};

use dfir_lang::graph::{GraphNode, PortIndexValue};
use dfir_lang::parse::IndexInt;
use proc_macro2::Span;
use vf_explore::catch;

use crate::oracle::{self, Finding};
use crate::pipeline::{self, Stage};
use crate::snap::{NK, Snap};

#[derive(Default, Debug)]
pub struct CaseOut {
    /// observable outcome (vacuity counter)
    pub tag: String,
    /// the program reached the stage the property talks about
    pub evaluated: bool,
    /// (key, what)
    pub viols: Vec<(String, String)>,
    /// harness-side failure: never a verdict
    pub machinery: Option<String>,
    /// named observations that are not violations (counted, reported)
    pub notes: Vec<String>,
}

fn findings_to_viols(prefix: &str, text: &str, fs: Vec<Finding>, part: &Snap, out: &mut CaseOut) {
    let mut seen = BTreeSet::new();
    for f in fs {
        if seen.insert(f.check) {
            out.viols.push((
                format!("{prefix}/{}", f.check),
                format!("{}\nprogram:\n{}partitioned graph:\n{}", f.detail, text, part.dump()),
            ));
        }
    }
}

fn not_in_family(stage: &Stage) -> Option<String> {
    match stage {
        Stage::BuildErr(m) => {
            let first = m.first().cloned().unwrap_or_default();
            // class of the first message (strip names/numbers) for the outcome counter
            let cls: String = first.chars().filter(|c| c.is_alphabetic() || *c == ' ').take(40).collect();
            Some(format!("builder-rejects:{cls}"))
        }
        Stage::BuildPanic(m) => Some(format!("builder-panics:{}", m.chars().take(60).collect::<String>())),
        Stage::Adjacent => Some("adjacent-handoffs".into()),
        Stage::ElimPanic(m) => Some(format!("eliminate-panics:{}", m.chars().take(60).collect::<String>())),
        _ => None,
    }
}

// ---------------------------------------------------------------------------------------------
// C18

pub fn c18_case(text: &str) -> CaseOut {
    let mut out = CaseOut::default();
    let run = pipeline::run(text);
    if let Stage::ParseErr(e) = &run.stage {
        out.machinery = Some(format!("generated program does not parse: {e}\n{text}"));
        return out;
    }
    if let Some(t) = not_in_family(&run.stage) {
        if matches!(run.stage, Stage::BuildPanic(_)) {
            out.notes.push(t.clone());
        }
        out.tag = t;
        return out;
    }
    let flat = run.flat.as_ref().unwrap();
    match &run.stage {
        Stage::PartErr { .. } => out.tag = "partitioner-rejects".into(),
        Stage::PartPanic { .. } => out.tag = "partitioner-panics".into(),
        Stage::Ok(c) => {
            out.evaluated = true;
            let mut fs = oracle::check_partition(flat, &c.part);
            if let Err(e) = &c.code {
                fs.push(Finding { check: "A1-as_code-failed", detail: format!("as_code on the accepted graph failed: {e}") });
            }
            let s = oracle::summarize(&c.part);
            out.tag = format!("ok:{s:?}:code={}", c.code.is_ok());
            findings_to_viols("C18", text, fs, &c.part, &mut out);
        }
        _ => unreachable!(),
    }
    out
}

// ---------------------------------------------------------------------------------------------
// C19

fn panic_class(msg: &str) -> String {
    msg.lines().next().unwrap_or("").chars().filter(|c| c.is_ascii_alphanumeric() || *c == ' ' || *c == '-').take(70).collect::<String>().trim().replace(' ', "-")
}

pub fn c19_case(text: &str) -> CaseOut {
    let mut out = CaseOut::default();
    let run = pipeline::run(text);
    if let Stage::ParseErr(e) = &run.stage {
        out.machinery = Some(format!("generated program does not parse: {e}\n{text}"));
        return out;
    }
    if let Some(t) = not_in_family(&run.stage) {
        if matches!(run.stage, Stage::BuildPanic(_)) {
            out.notes.push(t.clone());
        }
        out.tag = t;
        return out;
    }
    let flat = run.flat.as_ref().unwrap();
    let deps = oracle::flat_deps(flat);
    let cyc = deps.cyclic();
    out.evaluated = true;
    let flat_dump = || format!("program:\n{}flat graph:\n{}dependency edges: {:?}\n", text, flat.dump(), deps.deps.iter().map(|(a, b)| (a & 0xffff_ffff, b & 0xffff_ffff)).collect::<Vec<_>>());
    match &run.stage {
        Stage::PartErr { message } => {
            out.tag = format!("err/cyclic={cyc}");
            let mut with_ingress = false;
            if !cyc {
                if deps.cyclic_with_ingress() && deps.reenters_own_loop(flat) {
                    with_ingress = true;
                    out.viols.push((
                        "C19/rejected-acyclic/loop-ingress-order".into(),
                        format!("partition_graph rejects a graph whose non-delayed + reference + access-order dependencies are acyclic; the cycle exists only after adding the partitioner's loop-ingress ordering constraints (flow leaves a loop and re-enters the same loop).\ndiagnostic: {message}\n{}", flat_dump()),
                    ));
                } else if deps.cyclic_with_ingress() && deps.reenters_own_loop_with(flat, true) {
                    with_ingress = true;
                    out.viols.push((
                        "C19/rejected-acyclic/loop-ingress-order-via-other-loop".into(),
                        format!("partition_graph rejects a graph whose same-tick dependencies are acyclic; the cycle exists only after adding the loop-ingress ordering constraints, and a loop is re-entered from a node that depends on its own output only when another loop is treated as one unit (L1 -> root -> L2 -[defer_tick inside L2]-> root -> L1).\ndiagnostic: {message}\n{}", flat_dump()),
                    ));
                } else {
                    with_ingress = deps.cyclic_with_ingress();
                    out.viols.push((
                        "C19/rejected-acyclic/other".into(),
                        format!("partition_graph rejects a graph whose dependency graph is acyclic.\ndiagnostic: {message}\n{}", flat_dump()),
                    ));
                }
            }
            if !message.contains("Cyclical dataflow within a tick") {
                out.viols.push(("C19/err-without-cycle-diagnostic".into(), format!("unexpected diagnostic: {message}\n{}", flat_dump())));
            }
            match oracle::parse_cycle_names(message) {
                None => out.viols.push(("C19/diagnostic-unparsable".into(), format!("no `Cycle: [..]` list in: {message}"))),
                Some(names) => {
                    let mut e = deps.deps.clone();
                    if with_ingress {
                        e.extend(deps.ingress.iter().copied());
                    }
                    if (cyc || with_ingress) && !oracle::named_cycle_is_real(flat, &names, &e) {
                        let mut e2 = deps.deps.clone();
                        e2.extend(deps.ingress.iter().copied());
                        // known pattern: the graph really is cyclic, the named nodes form a cycle once the
                        // loop-ingress ordering constraints are added, and every named node that is on no
                        // real dependency cycle is a batch()/batch_lazy() ingress node of a loop that
                        // another named node belongs to.
                        let mut pattern = false;
                        if cyc && let Some(assign) = oracle::named_cycle(flat, &names, &e2) {
                            let real = oracle::nodes_on_cycles(&deps, false);
                            let extra: Vec<u64> = assign.iter().copied().filter(|n| !real.contains(n)).collect();
                            pattern = !extra.is_empty()
                                && extra.iter().all(|x| {
                                    let n = &flat.nodes[x];
                                    (n.name == "batch" || n.name == "batch_lazy")
                                        && n.loop_.is_some_and(|l| {
                                            assign.iter().any(|y| y != x && flat.loop_within(flat.nodes[y].loop_, l))
                                        })
                                });
                        }
                        out.viols.push((
                            if pattern { "C19/diagnostic-cycle-not-real/uses-loop-ingress-order".into() } else { "C19/diagnostic-cycle-not-real/other".into() },
                            format!("the nodes named in the diagnostic {names:?} do not form a cycle of the dependency graph{}\n{}",
                                if pattern { " (the graph is cyclic, but the named cycle only closes through the partitioner's loop-ingress ordering constraints: it names a batch()/batch_lazy() node that is on no dependency cycle)" } else { "" }, flat_dump()),
                        ));
                    }
                    out.tag.push_str(&format!("/len{}", names.len()));
                }
            }
        }
        Stage::PartPanic { message } => {
            out.tag = format!("panic/cyclic={cyc}");
            let cls = panic_class(message);
            if cyc {
                // The statement says partitioning *fails* on cyclic graphs; a panic is a failure (it
                // surfaces as a proc-macro compile error). Recorded as an observation only.
                out.notes.push(format!("partition_graph panics (instead of returning a cycle diagnostic) on a cyclic graph: {cls}"));
            } else {
                out.viols.push((
                    format!("C19/panic-on-acyclic/{cls}"),
                    format!("partition_graph panics on a graph whose dependency graph is acyclic.\npanic: {message}\n{}", flat_dump()),
                ));
            }
        }
        Stage::Ok(c) => {
            out.tag = format!("ok/cyclic={cyc}");
            if cyc {
                let only_drain = !deps.cyclic_min();
                let on = oracle::nodes_on_cycles(&deps, false);
                out.viols.push((
                    if only_drain { "C19/accepted-cyclic/borrow-before-drain-only".into() } else { "C19/accepted-cyclic".into() },
                    format!("partition_graph accepts a graph with a same-tick dependency cycle through nodes {:?}\n{}partitioned:\n{}", on.iter().map(|n| n & 0xffff_ffff).collect::<Vec<_>>(), flat_dump(), c.part.dump()),
                ));
            } else {
                let mut fs = oracle::check_partition(flat, &c.part);
                if let Err(e) = &c.code {
                    fs.push(Finding { check: "A1-as_code-failed", detail: format!("as_code on the accepted graph failed: {e}") });
                }
                findings_to_viols("C19/on-ok", text, fs, &c.part, &mut out);
            }
        }
        _ => unreachable!(),
    }
    out
}

// ---------------------------------------------------------------------------------------------
// C20

/// Expected result of removing 1-in-1-out unions/tees from `s`: same nodes minus the removed ones,
/// wiring contracted through them (source port of the incoming edge, destination port of the
/// outgoing edge).
/// `gone` = the nodes that actually disappeared. The statement demands preservation of the
/// dataflow, not that every removable node is removed: any subset of the 1-in-1-out unions/tees may
/// go. Returns (the removable candidates, the wiring expected after contracting `gone`).
fn contract_unary_union_tee(s: &Snap, gone: &BTreeSet<u64>) -> (BTreeSet<u64>, Vec<(u64, String, u64, String)>) {
    let removable: BTreeSet<u64> = s
        .nodes
        .iter()
        .filter(|(id, n)| {
            n.kind == NK::Op && (n.name == "union" || n.name == "tee") && s.preds(**id).len() == 1 && s.succs(**id).len() == 1
        })
        .map(|(&id, _)| id)
        .collect();
    let removed: BTreeSet<u64> = gone.intersection(&removable).copied().collect();
    let mut wiring = vec![];
    for e in &s.edges {
        if removed.contains(&e.src) {
            continue;
        }
        // follow the chain of removed nodes
        let mut dst = e.dst;
        let mut dport = e.dport.clone();
        let mut guard = 0;
        let mut lost = false;
        while removed.contains(&dst) {
            let o = s.succs(dst)[0];
            dport = o.dport.clone();
            dst = o.dst;
            guard += 1;
            if guard > s.nodes.len() {
                lost = true; // a ring made only of removable nodes
                break;
            }
        }
        if !lost {
            wiring.push((e.src, e.sport.clone(), dst, dport));
        }
    }
    wiring.sort();
    (removable, wiring)
}

fn cmp_snaps(a: &Snap, b: &Snap, with_partition: bool) -> Vec<String> {
    let mut d = vec![];
    if a.nodes.keys().collect::<Vec<_>>() != b.nodes.keys().collect::<Vec<_>>() {
        d.push(format!("node ids differ: {:?} vs {:?}", a.nodes.keys().map(|k| k & 0xffff_ffff).collect::<Vec<_>>(), b.nodes.keys().map(|k| k & 0xffff_ffff).collect::<Vec<_>>()));
        return d;
    }
    for (id, x) in &a.nodes {
        let y = &b.nodes[id];
        let s = id & 0xffff_ffff;
        if x.kind != y.kind || x.name != y.name || x.text != y.text {
            d.push(format!("operator/handoff {s}: `{}` {:?} vs `{}` {:?}", x.text, x.kind, y.text, y.kind));
        }
        if x.args_pre != y.args_pre || x.generics != y.generics {
            d.push(format!("arguments of {s}: ({}; {}) vs ({}; {})", x.args_pre, x.generics, y.args_pre, y.generics));
        }
        if x.in_ports != y.in_ports || x.out_ports != y.out_ports || x.has_inst != y.has_inst {
            d.push(format!("operator-instance ports of {s}: {:?}->{:?} vs {:?}->{:?}", x.in_ports, x.out_ports, y.in_ports, y.out_ports));
        }
        if x.loop_ != y.loop_ {
            d.push(format!("loop of {s}: {:?} vs {:?}", x.loop_, y.loop_));
        }
        if x.refs != y.refs {
            d.push(format!("references of {s}: {:?} vs {:?}", x.refs, y.refs));
        }
        if x.varname != y.varname {
            d.push(format!("varname of {s}: {:?} vs {:?}", x.varname, y.varname));
        }
        if with_partition {
            if x.sg != y.sg {
                d.push(format!("subgraph of {s}: {:?} vs {:?}", x.sg, y.sg));
            }
            if x.delay != y.delay {
                d.push(format!("delay mark of {s}: {:?} vs {:?}", x.delay, y.delay));
            }
        }
    }
    if a.loops != b.loops || a.root_loops != b.root_loops {
        d.push("loop tree differs".into());
    }
    if with_partition {
        if a.edges != b.edges {
            d.push(format!("edges/ports differ: {:?} vs {:?}", a.wiring(), b.wiring()));
        }
        if a.sgs != b.sgs {
            d.push(format!("subgraph membership differs: {:?} vs {:?}", a.sgs, b.sgs));
        }
        if a.topo != b.topo {
            d.push(format!("subgraph order differs: {:?} vs {:?}", a.topo, b.topo));
        }
    } else if a.wiring() != b.wiring() {
        d.push(format!("wiring differs: {:?} vs {:?}", a.wiring(), b.wiring()));
    }
    d
}

fn first_word(s: &str) -> String {
    s.split([' ', ':']).next().unwrap_or("x").to_string()
}

/// (b) merge_modules: insert `ModuleBoundary` nodes through the public graph API, merge them back,
/// compare with the untouched flat graph. Returns (number of variants run, violations).
fn module_variants(text: &str, base: &Snap, thorough: bool, out: &mut CaseOut) -> usize {
    let ne = base.edges.len();
    let mut variants = 0;
    let max_sub = if thorough { 2 } else { 1 };
    let mk_boundary = |i: usize| GraphNode::ModuleBoundary { input: i % 2 == 0, import_expr: Span::call_site() };
    let mut check = |label: String, f: &dyn Fn(&mut dfir_lang::graph::DfirGraph)| {
        let Ok(Ok((mut g, _))) = pipeline::build_flat(text) else {
            out.machinery = Some("rebuild of an accepted program failed".into());
            return;
        };
        let res = catch(|| {
            f(&mut g);
            let with_boundaries = Snap::of(&g);
            let r = g.merge_modules();
            (with_boundaries, r.map_err(|d| d.message), Snap::of(&g))
        });
        match res {
            Err(p) => out.viols.push(("C20/merge_modules/panic".into(), format!("{label}: panicked: {p}\nprogram:\n{text}"))),
            Ok((_, Err(m), _)) => out.viols.push(("C20/merge_modules/error".into(), format!("{label}: merge_modules returned an error for matching ports: {m}\nprogram:\n{text}"))),
            Ok((wb, Ok(()), merged)) => {
                if wb.nodes.values().filter(|n| matches!(n.kind, NK::ModB(_))).count() == 0 {
                    out.machinery = Some(format!("{label}: no boundary was inserted"));
                }
                let d = cmp_snaps(base, &merged, false);
                if !d.is_empty() {
                    out.viols.push((
                        format!("C20/merge_modules/{}", first_word(&d[0])),
                        format!("{label}: after merge_modules the graph differs from the graph without boundaries: {d:?}\nprogram:\n{text}with boundaries:\n{}after merge:\n{}", wb.dump(), merged.dump()),
                    ));
                }
            }
        }
    };
    // b1: one boundary per edge of every edge subset of size 1..=max_sub (elided ports).
    for sub in vf_explore::combi::subsets_upto(ne, max_sub) {
        if sub.is_empty() {
            continue;
        }
        variants += 1;
        let sub2 = sub.clone();
        check(format!("boundary on edges {sub:?}"), &move |g| {
            let ids: Vec<_> = g.edge_ids().collect();
            for (k, &i) in sub2.iter().enumerate() {
                g.insert_intermediate_node(ids[i], mk_boundary(k));
            }
        });
    }
    // b1': two boundaries in a row on one edge (module input directly wired to module output).
    for i in 0..ne {
        variants += 1;
        check(format!("two boundaries in a row on edge {i}"), &move |g| {
            let ids: Vec<_> = g.edge_ids().collect();
            let (_n, e1) = g.insert_intermediate_node(ids[i], mk_boundary(0));
            g.insert_intermediate_node(e1, mk_boundary(1));
        });
    }
    // b2: one shared boundary carrying k edges on indexed ports.
    let ks: &[usize] = if thorough && ne <= 7 { &[2, 3] } else { &[2] };
    for &k in ks {
        for sub in vf_explore::combi::k_subsets(ne, k) {
            variants += 1;
            let sub2 = sub.clone();
            check(format!("shared boundary carrying edges {sub:?}"), &move |g| {
                let ids: Vec<_> = g.edge_ids().collect();
                let b = g.insert_node(mk_boundary(0), None, None);
                for (port, &i) in sub2.iter().enumerate() {
                    let (s, d) = g.edge(ids[i]);
                    let (sp, dp) = g.edge_ports(ids[i]);
                    let (sp, dp) = (sp.clone(), dp.clone());
                    g.remove_edge(ids[i]);
                    let p = || PortIndexValue::Int(IndexInt { value: port as isize, span: Span::call_site() });
                    g.insert_edge(s, sp, b, p());
                    g.insert_edge(b, p(), d, dp);
                }
            });
        }
    }
    variants
}

pub fn c20_case(text: &str, do_modules: bool, thorough: bool) -> CaseOut {
    let mut out = CaseOut::default();
    let run = pipeline::run(text);
    if let Stage::ParseErr(e) = &run.stage {
        out.machinery = Some(format!("generated program does not parse: {e}\n{text}"));
        return out;
    }
    if matches!(run.stage, Stage::BuildErr(_) | Stage::BuildPanic(_)) {
        out.tag = not_in_family(&run.stage).unwrap();
        return out;
    }
    out.evaluated = true;
    let flat0 = run.flat0.as_ref().unwrap();
    if let Stage::ElimPanic(m) = &run.stage {
        out.tag = "eliminate-panics".into();
        out.viols.push(("C20/eliminate/panic".into(), format!("eliminate_extra_unions_tees panicked: {m}\nprogram:\n{text}flat graph:\n{}", flat0.dump())));
        return out;
    }
    let flat = run.flat.as_ref().unwrap();

    // (a) eliminate_extra_unions_tees
    let removed: BTreeSet<u64> = flat0.nodes.keys().filter(|k| !flat.nodes.contains_key(k)).copied().collect();
    let (removable, wiring) = contract_unary_union_tee(flat0, &removed);
    {
        let exp_ids: Vec<u64> = flat0.nodes.keys().filter(|k| !removed.contains(k)).copied().collect();
        let got_ids: Vec<u64> = flat.nodes.keys().copied().collect();
        let s = |v: &Vec<u64>| v.iter().map(|k| k & 0xffff_ffff).collect::<Vec<_>>();
        let dump = || format!("program:\n{}before:\n{}after:\n{}", text, flat0.dump(), flat.dump());
        if exp_ids != got_ids || !removed.is_subset(&removable) {
            out.viols.push(("C20/eliminate/nodes".into(), format!("remaining nodes {:?}; only 1-in-1-out unions/tees {:?} may disappear and nothing may appear\n{}", s(&got_ids), s(&removable.iter().copied().collect()), dump())));
        } else {
            for id in &exp_ids {
                if flat0.nodes[id] != flat.nodes[id] {
                    out.viols.push(("C20/eliminate/operator-changed".into(), format!("node {} changed: {:?} -> {:?}\n{}", id & 0xffff_ffff, flat0.nodes[id], flat.nodes[id], dump())));
                    break;
                }
            }
            if wiring != flat.wiring() {
                out.viols.push(("C20/eliminate/wiring".into(), format!("port wiring after elimination {:?}, expected (contracted) {:?}\n{}", flat.wiring(), wiring, dump())));
            }
        }
        if flat.loops.values().any(|l| l.nodes.iter().any(|n| !flat.nodes.contains_key(n))) {
            out.notes.push("eliminated node still listed in loop_nodes".into());
        }
    }

    // (b) merge_modules
    let mut variants = 0;
    if do_modules {
        variants = module_variants(text, flat0, thorough, &mut out);
    }

    // (c) serialization round trip exactly as Dfir::new does it.
    let mut reload = "n/a";
    if let Stage::Ok(c) = &run.stage {
        let json = c.json.clone();
        let diag_json = c.diag_json.clone();
        let loaded = catch(|| {
            let d = dfir_rs::scheduled::context::Dfir::new(
                dfir_rs::scheduled::context::NullTickClosure,
                dfir_rs::scheduled::context::Context::default(),
                Some(&json),
                Some(&diag_json),
            );
            let mg = d.meta_graph().expect("meta graph missing");
            (Snap::of(mg), serde_json::to_string(mg).unwrap())
        });
        match loaded {
            Err(p) => {
                reload = "panic";
                out.viols.push(("C20/reload/panic".into(), format!("Dfir::new panicked on the meta graph JSON: {p}\nprogram:\n{text}")));
            }
            Ok((snap2, json2)) => {
                reload = "ok";
                let d = cmp_snaps(&c.part, &snap2, true);
                if !d.is_empty() {
                    out.viols.push((
                        format!("C20/reload/{}", first_word(&d[0])),
                        format!("graph loaded by Dfir::new differs from the compiled one: {d:?}\nprogram:\n{text}compiled:\n{}loaded:\n{}", c.part.dump(), snap2.dump()),
                    ));
                }
                if json2 != c.json {
                    out.viols.push(("C20/reload/reserialize-differs".into(), format!("re-serializing the loaded graph is not byte-identical\nprogram:\n{text}first:  {}\nsecond: {}", c.json, json2)));
                }
                if snap2.raw != c.part.raw {
                    out.notes.push("loaded operator instances lose `#ref` markers (args_raw / singletons_referenced)".into());
                }
            }
        }
        // what the macro embeds is what we reloaded
        if let Ok(code) = &c.code {
            let lit = proc_macro2::Literal::string(&c.json).to_string();
            if !code.contains(&lit) {
                out.machinery = Some(format!("as_code output does not embed the serialized graph literally\n{text}"));
            }
        }
        // mirror == production entry point (also: compiling twice gives identical output)
        match pipeline::run_production(text) {
            Ok(Ok((j, code))) => {
                if j != c.json || c.code.as_ref().ok() != Some(&code) {
                    out.machinery = Some(format!("stage-by-stage pipeline and build_dfir_code disagree (or compilation is not repeatable)\n{text}"));
                }
            }
            Ok(Err(m)) => {
                if c.code.is_ok() {
                    out.machinery = Some(format!("build_dfir_code fails ({m:?}) where the stage-by-stage pipeline succeeds\n{text}"));
                }
            }
            Err(e) => out.machinery = Some(e),
        }
    }
    out.tag = format!("removed={} boundaries_variants={} reload={} stage={}", removed.len(), variants.min(99), reload, match &run.stage {
        Stage::Ok(_) => "ok",
        Stage::Adjacent => "adjacent",
        Stage::PartErr { .. } => "part-err",
        Stage::PartPanic { .. } => "part-panic",
        _ => "other",
    });
    let _ = BTreeMap::<u8, u8>::new();
    out
}
