//! The compiler pipeline exactly as `dfir_lang::graph::build_dfir_code` (called by
//! `dfir_macro::dfir_syntax!`) runs it, but stage by stage so that every intermediate graph can be
//! snapshotted: `syn::parse_str::<DfirCode>` → `FlatGraphBuilder::from_dfir(..).build()` →
//! `merge_modules` → `eliminate_extra_unions_tees` → adjacent-handoff check → `partition_graph` →
//! `as_code`. No rustc is involved.
use dfir_lang::diagnostic::{Diagnostic, Diagnostics};
use dfir_lang::graph::{
    DfirGraph, FlatGraphBuilder, FlatGraphBuilderOutput, GraphNode, eliminate_extra_unions_tees, partition_graph,
};
use dfir_lang::parse::DfirCode;
use vf_explore::catch;

use crate::snap::Snap;

pub enum Stage {
    /// The harness printed something the parser refuses: a harness bug.
    ParseErr(String),
    /// The flat-graph builder rejected the program (arity, ports, loop rules, ...): not in the family.
    BuildErr(Vec<String>),
    BuildPanic(String),
    /// `handoff() -> handoff()` after unary tee/union elimination: rejected by build_dfir_code.
    Adjacent,
    /// `eliminate_extra_unions_tees` panicked.
    ElimPanic(String),
    PartErr { message: String },
    PartPanic { message: String },
    Ok(Box<Compiled>),
}

pub struct Compiled {
    pub part: Snap,
    pub json: String,
    pub diag_json: String,
    /// `as_code` outcome: Ok(token text) / Err(diagnostics) / panic.
    pub code: Result<String, String>,
}

pub struct Run {
    /// flat graph as built (before `eliminate_extra_unions_tees`)
    pub flat0: Option<Snap>,
    /// flat graph handed to `partition_graph`
    pub flat: Option<Snap>,
    pub stage: Stage,
}

pub fn root() -> proc_macro2::TokenStream {
    quote::quote! { ::dfir_rs }
}

pub fn build_flat(text: &str) -> Result<Result<(DfirGraph, Diagnostics), Vec<String>>, String> {
    let code: DfirCode = syn::parse_str(text).map_err(|e| format!("parse error: {e}"))?;
    let built = catch(|| FlatGraphBuilder::from_dfir(code).build());
    match built {
        Err(p) => Ok(Err(vec![format!("PANIC: {p}")])),
        Ok(Err(diags)) => Ok(Err(diags.iter().map(|d| d.message.clone()).collect())),
        Ok(Ok(FlatGraphBuilderOutput { flat_graph, diagnostics, .. })) => {
            if diagnostics.has_error() {
                return Ok(Err(diagnostics.iter().map(|d| d.message.clone()).collect()));
            }
            Ok(Ok((flat_graph, diagnostics)))
        }
    }
}

pub fn has_adjacent_handoffs(g: &DfirGraph) -> bool {
    g.edges().any(|(_, (s, d))| {
        matches!(g.node(s), GraphNode::Handoff { .. }) && matches!(g.node(d), GraphNode::Handoff { .. })
    })
}

pub fn run(text: &str) -> Run {
    let (mut flat, mut diags) = match build_flat(text) {
        Err(e) => return Run { flat0: None, flat: None, stage: Stage::ParseErr(e) },
        Ok(Err(msgs)) => {
            let stage = if msgs.first().is_some_and(|m| m.starts_with("PANIC: ")) {
                Stage::BuildPanic(msgs[0].clone())
            } else {
                Stage::BuildErr(msgs)
            };
            return Run { flat0: None, flat: None, stage };
        }
        Ok(Ok(g)) => g,
    };
    if let Err(d) = flat.merge_modules() {
        return Run { flat0: None, flat: None, stage: Stage::BuildErr(vec![d.message]) };
    }
    let flat0 = Snap::of(&flat);
    if let Err(p) = catch(|| eliminate_extra_unions_tees(&mut flat)) {
        return Run { flat0: Some(flat0), flat: None, stage: Stage::ElimPanic(p) };
    }
    let flat1 = Snap::of(&flat);
    if has_adjacent_handoffs(&flat) {
        return Run { flat0: Some(flat0), flat: Some(flat1), stage: Stage::Adjacent };
    }
    let stage = match catch(move || partition_graph(flat)) {
        Err(p) => Stage::PartPanic { message: p },
        Ok(Err(e)) => Stage::PartErr { message: e.diagnostic.message.clone() },
        Ok(Ok(graph)) => {
            let part = Snap::of(&graph);
            let code = match catch(|| graph.as_code(&root(), true, quote::quote! {}, &mut diags)) {
                Err(p) => Err(format!("PANIC: {p}")),
                Ok(Err(d)) => Err(format!(
                    "diagnostics: {:?}",
                    d.iter().map(|x| x.message.clone()).collect::<Vec<_>>()
                )),
                Ok(Ok(ts)) => Ok(ts.to_string()),
            };
            let json = serde_json::to_string(&graph).unwrap();
            let serde_diags: Vec<_> = diags.iter().map(Diagnostic::to_serde).collect();
            let diag_json = serde_json::to_string(&serde_diags).unwrap();
            Stage::Ok(Box::new(Compiled { part, json, diag_json, code }))
        }
    };
    Run { flat0: Some(flat0), flat: Some(flat1), stage }
}

/// The production entry point itself, for cross-checking the stage-by-stage mirror above.
/// Returns Ok((partitioned-graph JSON, code text)) or Err(messages).
pub fn run_production(text: &str) -> Result<Result<(String, String), Vec<String>>, String> {
    let code: DfirCode = syn::parse_str(text).map_err(|e| format!("parse error: {e}"))?;
    match catch(|| dfir_lang::graph::build_dfir_code(code, &root())) {
        Err(p) => Ok(Err(vec![format!("PANIC: {p}")])),
        Ok(Err(d)) => Ok(Err(d.iter().map(|x| x.message.clone()).collect())),
        Ok(Ok(out)) => {
            Ok(Ok((serde_json::to_string(&out.partitioned_graph).unwrap(), out.code.to_string())))
        }
    }
}
