//! Plain-data snapshot of a `DfirGraph`, taken only through its public API, plus the small graph
//! algorithms the oracles use (own Kahn / reachability — never the repo's `topo_sort`).
use std::collections::{BTreeMap, BTreeSet};

use dfir_lang::graph::ops::DelayType;
use dfir_lang::graph::{DfirGraph, GraphNode, HandoffKind};
use quote::ToTokens;
use slotmap::Key;

#[derive(Clone, Copy, PartialEq, Eq, PartialOrd, Ord, Hash, Debug)]
pub enum Delay {
    Tick,
    TickLazy,
    Loop,
    LoopLazy,
}
impl From<DelayType> for Delay {
    fn from(d: DelayType) -> Self {
        match d {
            DelayType::Tick => Delay::Tick,
            DelayType::TickLazy => Delay::TickLazy,
            DelayType::Loop => Delay::Loop,
            DelayType::LoopLazy => Delay::LoopLazy,
        }
    }
}

#[derive(Clone, PartialEq, Eq, Hash, Debug, PartialOrd, Ord)]
pub enum NK {
    Op,
    Hoff(&'static str),
    ModB(bool),
}

#[derive(Clone, PartialEq, Eq, Hash, Debug, PartialOrd, Ord)]
pub struct SRef {
    pub target: Option<u64>,
    pub is_mut: bool,
    pub group: Option<u32>,
}

#[derive(Clone, PartialEq, Eq, Debug)]
pub struct SNode {
    pub kind: NK,
    /// operator name (or handoff/singleton/module_boundary)
    pub name: String,
    /// `ToTokens` text of the operator (what serialization writes).
    pub text: String,
    /// `to_pretty_string()` (what diagnostics print).
    pub pretty: String,
    pub loop_: Option<u64>,
    pub sg: Option<u64>,
    pub delay: Option<Delay>,
    pub refs: Vec<SRef>,
    pub varname: Option<String>,
    pub has_inst: bool,
    pub in_ports: Vec<String>,
    pub out_ports: Vec<String>,
    pub args_pre: String,
    pub generics: String,
}

/// Fields of the operator instance that are *not* reconstructible from what serialization writes
/// (`#x` markers live only in `args_raw`); compared separately and reported as an observation.
#[derive(Clone, PartialEq, Eq, Debug, Default)]
pub struct RawInfo {
    pub args_raw: String,
    pub n_ref_tokens: usize,
}

#[derive(Clone, PartialEq, Eq, Debug)]
pub struct SEdge {
    pub id: u64,
    pub src: u64,
    pub dst: u64,
    pub sport: String,
    pub dport: String,
    /// `input_delaytype_fn` of the destination operator evaluated at the destination port.
    pub ddelay: Option<Delay>,
}

#[derive(Clone, PartialEq, Eq, Debug)]
pub struct SLoop {
    pub parent: Option<u64>,
    pub children: Vec<u64>,
    pub nodes: Vec<u64>,
}

#[derive(Clone, PartialEq, Eq, Debug)]
pub struct Snap {
    pub nodes: BTreeMap<u64, SNode>,
    pub raw: BTreeMap<u64, RawInfo>,
    pub edges: Vec<SEdge>,
    pub loops: BTreeMap<u64, SLoop>,
    pub root_loops: Vec<u64>,
    pub sgs: BTreeMap<u64, Vec<u64>>,
    pub topo: Vec<u64>,
}

fn ffi<K: Key>(k: K) -> u64 {
    k.data().as_ffi()
}

impl Snap {
    pub fn of(g: &DfirGraph) -> Snap {
        let mut nodes = BTreeMap::new();
        let mut raw = BTreeMap::new();
        for (id, node) in g.nodes() {
            let (kind, name, text) = match node {
                GraphNode::Operator(op) => (NK::Op, op.name_string(), op.to_token_stream().to_string()),
                GraphNode::Handoff { kind, .. } => {
                    let k = match kind {
                        HandoffKind::Vec => "Vec",
                        HandoffKind::Singleton => "Singleton",
                        HandoffKind::Optional => "Optional",
                    };
                    (NK::Hoff(k), node.to_name_string().to_string(), String::new())
                }
                GraphNode::ModuleBoundary { input, .. } => {
                    (NK::ModB(*input), node.to_name_string().to_string(), String::new())
                }
            };
            let pretty = match node {
                GraphNode::ModuleBoundary { .. } => "module_boundary".to_string(),
                _ => node.to_pretty_string().to_string(),
            };
            let inst = g.node_op_inst(id);
            let (in_ports, out_ports, args_pre, generics) = match inst {
                Some(i) => (
                    i.input_ports.iter().map(|p| p.to_string()).collect(),
                    i.output_ports.iter().map(|p| p.to_string()).collect(),
                    i.arguments_pre.to_token_stream().to_string(),
                    format!(
                        "{:?}|{}",
                        i.generics.persistence_args,
                        i.generics.type_args.iter().map(|t| t.to_token_stream().to_string()).collect::<Vec<_>>().join(",")
                    ),
                ),
                None => (vec![], vec![], String::new(), String::new()),
            };
            if let Some(i) = inst {
                raw.insert(
                    ffi(id),
                    RawInfo { args_raw: i.arguments_raw.to_string(), n_ref_tokens: i.singletons_referenced.len() },
                );
            }
            nodes.insert(
                ffi(id),
                SNode {
                    kind,
                    name,
                    text,
                    pretty,
                    loop_: g.node_loop(id).map(ffi),
                    sg: g.node_subgraph(id).map(ffi),
                    delay: g.handoff_delay_type(id).map(Delay::from),
                    refs: g
                        .node_handoff_references(id)
                        .iter()
                        .map(|r| SRef { target: r.node_id.map(ffi), is_mut: r.is_mut, group: r.access_group })
                        .collect(),
                    varname: g.node_varname(id).map(|v| v.0.to_string()),
                    has_inst: inst.is_some(),
                    in_ports,
                    out_ports,
                    args_pre,
                    generics,
                },
            );
        }
        let mut edges = vec![];
        for (eid, (src, dst)) in g.edges() {
            let (sp, dp) = g.edge_ports(eid);
            let ddelay = g
                .node_op_inst(dst)
                .and_then(|i| (i.op_constraints.input_delaytype_fn)(dp))
                .map(Delay::from);
            edges.push(SEdge {
                id: ffi(eid),
                src: ffi(src),
                dst: ffi(dst),
                sport: sp.to_string(),
                dport: dp.to_string(),
                ddelay,
            });
        }
        let mut loops = BTreeMap::new();
        for (lid, members) in g.loops() {
            loops.insert(
                ffi(lid),
                SLoop {
                    parent: g.loop_parent(lid).map(ffi),
                    children: g.loop_children(lid).iter().map(|&c| ffi(c)).collect(),
                    nodes: members.iter().map(|&n| ffi(n)).collect(),
                },
            );
        }
        Snap {
            nodes,
            raw,
            edges,
            loops,
            root_loops: g.root_loops().iter().map(|&l| ffi(l)).collect(),
            sgs: g.subgraphs().map(|(s, ns)| (ffi(s), ns.iter().map(|&n| ffi(n)).collect())).collect(),
            topo: g.subgraph_toposort().iter().map(|&s| ffi(s)).collect(),
        }
    }

    pub fn preds(&self, n: u64) -> Vec<&SEdge> {
        self.edges.iter().filter(|e| e.dst == n).collect()
    }
    pub fn succs(&self, n: u64) -> Vec<&SEdge> {
        self.edges.iter().filter(|e| e.src == n).collect()
    }
    pub fn is_op(&self, n: u64) -> bool {
        self.nodes.get(&n).is_some_and(|x| x.kind == NK::Op)
    }
    pub fn is_hoff(&self, n: u64) -> bool {
        self.nodes.get(&n).is_some_and(|x| matches!(x.kind, NK::Hoff(_)))
    }
    /// Wiring as a sorted multiset of (src, src port, dst, dst port).
    pub fn wiring(&self) -> Vec<(u64, String, u64, String)> {
        let mut w: Vec<_> =
            self.edges.iter().map(|e| (e.src, e.sport.clone(), e.dst, e.dport.clone())).collect();
        w.sort();
        w
    }
    /// Is `l` equal to or nested inside `anc`?
    pub fn loop_within(&self, l: Option<u64>, anc: u64) -> bool {
        let mut cur = l;
        while let Some(c) = cur {
            if c == anc {
                return true;
            }
            cur = self.loops.get(&c).and_then(|x| x.parent);
        }
        false
    }
    /// Short human-readable dump for violation reports.
    pub fn dump(&self) -> String {
        let mut s = String::new();
        for (id, n) in &self.nodes {
            s.push_str(&format!(
                "  node {} {:?} `{}` loop={:?} sg={:?} delay={:?} refs={:?}\n",
                id & 0xffff_ffff,
                n.kind,
                if n.text.is_empty() { &n.name } else { &n.text },
                n.loop_.map(|l| l & 0xffff_ffff),
                n.sg.map(|l| l & 0xffff_ffff),
                n.delay,
                n.refs.iter().map(|r| (r.target.map(|t| t & 0xffff_ffff), r.is_mut, r.group)).collect::<Vec<_>>()
            ));
        }
        for e in &self.edges {
            s.push_str(&format!(
                "  edge {}{} -> {}{} ddelay={:?}\n",
                e.src & 0xffff_ffff,
                e.sport,
                e.dport,
                e.dst & 0xffff_ffff,
                e.ddelay
            ));
        }
        s.push_str(&format!(
            "  subgraphs {:?}\n  toposort {:?}\n",
            self.sgs
                .iter()
                .map(|(k, v)| (k & 0xffff_ffff, v.iter().map(|n| n & 0xffff_ffff).collect::<Vec<_>>()))
                .collect::<Vec<_>>(),
            self.topo.iter().map(|n| n & 0xffff_ffff).collect::<Vec<_>>()
        ));
        s
    }
}

// ---------------------------------------------------------------------------------------------
// Own graph algorithms.

/// Kahn's algorithm: `true` iff the directed graph (parallel edges allowed) has a cycle
/// (self-loops count).
pub fn is_cyclic(nodes: &BTreeSet<u64>, edges: &[(u64, u64)]) -> bool {
    let mut indeg: BTreeMap<u64, usize> = nodes.iter().map(|&n| (n, 0)).collect();
    for &(_, d) in edges {
        *indeg.entry(d).or_insert(0) += 1;
    }
    for &(s, _) in edges {
        indeg.entry(s).or_insert(0);
    }
    let mut ready: Vec<u64> = indeg.iter().filter(|(_, d)| **d == 0).map(|(&n, _)| n).collect();
    let mut removed = 0usize;
    while let Some(n) = ready.pop() {
        removed += 1;
        for &(s, d) in edges {
            if s == n {
                let e = indeg.get_mut(&d).unwrap();
                *e -= 1;
                if *e == 0 {
                    ready.push(d);
                }
            }
        }
    }
    removed != indeg.len()
}

/// Nodes lying on some cycle (non-trivial SCC or self-loop), via mutual reachability.
pub fn cyclic_nodes(nodes: &BTreeSet<u64>, edges: &[(u64, u64)]) -> BTreeSet<u64> {
    let reach = |from: u64| -> BTreeSet<u64> {
        let mut seen = BTreeSet::new();
        let mut stack = vec![from];
        while let Some(x) = stack.pop() {
            for &(s, d) in edges {
                if s == x && seen.insert(d) {
                    stack.push(d);
                }
            }
        }
        seen
    };
    nodes.iter().copied().filter(|&n| reach(n).contains(&n)).collect()
}

/// Is `seq` (each node once) a directed cycle of the graph, in forward or in backward direction?
pub fn is_cycle_of(seq: &[u64], edges: &[(u64, u64)]) -> bool {
    if seq.is_empty() {
        return false;
    }
    let set: BTreeSet<u64> = seq.iter().copied().collect();
    if set.len() != seq.len() {
        return false;
    }
    let has = |a: u64, b: u64| edges.iter().any(|&(s, d)| s == a && d == b);
    let k = seq.len();
    let fwd = (0..k).all(|i| has(seq[i], seq[(i + 1) % k]));
    let bwd = (0..k).all(|i| has(seq[(i + 1) % k], seq[i]));
    fwd || bwd
}
