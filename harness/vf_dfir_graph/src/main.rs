fn main() {
    use dfir_lang::graph::*;
    use dfir_lang::parse::DfirCode;
    let src = "a = source_iter([1]) -> tee(); a -> map(|x| x) -> u; a -> defer_tick() -> u; u = union() -> for_each(|_| {});";
    let code: DfirCode = syn::parse_str(src).unwrap();
    let out = FlatGraphBuilder::from_dfir(code).build().unwrap();
    let mut flat = out.flat_graph;
    flat.merge_modules().unwrap();
    eliminate_extra_unions_tees(&mut flat);
    let part = partition_graph(flat).unwrap();
    let mut diags = dfir_lang::diagnostic::Diagnostics::new();
    let root = quote::quote! { ::dfir_rs };
    let code = part.as_code(&root, true, quote::quote! {}, &mut diags).unwrap();
    let json = serde_json::to_string(&part).unwrap();
    println!("{}", code.to_string().len());
    println!("{}", json);
    let d = dfir_rs::scheduled::context::Dfir::new(dfir_rs::scheduled::context::NullTickClosure, Default::default(), Some(&json), Some("[]"));
    let mg = d.meta_graph().unwrap();
    println!("{}", serde_json::to_string(mg).unwrap() == json);
}
