//! Engine C — the DFIR compiler used as a library (C17–C20). See /verif/DESIGN.md §2, §3.
mod c17;
mod family;
mod oracle;
mod pipeline;
mod props;
mod snap;

use std::collections::BTreeMap;
use std::sync::Mutex;

use vf_explore::{Report, Stats, Value, cli, json, ncpu, par_map, quiet_panics};

use family::{Order, Prog};
use props::CaseOut;

/// A violation candidate collected by a worker; the smallest case per key is re-executed and
/// reported.
pub struct Viol {
    pub key: String,
    pub what: String,
    pub size: usize,
    pub case: Value,
}

/// Per key: number of violating cases and the smallest one (ties broken by the case text, so the
/// reported example does not depend on thread scheduling).
#[derive(Default)]
pub struct Viols(Mutex<BTreeMap<String, (u64, Viol)>>);
impl Viols {
    pub fn push(&self, v: Viol) {
        let mut g = self.0.lock().unwrap();
        match g.get_mut(&v.key) {
            None => {
                g.insert(v.key.clone(), (1, v));
            }
            Some(e) => {
                e.0 += 1;
                if v.size < e.1.size || (v.size == e.1.size && v.case.to_string() < e.1.case.to_string()) {
                    e.1 = v;
                }
            }
        }
    }
}

fn eval_case(prop: &str, text: &str, do_modules: bool, thorough: bool) -> CaseOut {
    match prop {
        "C18" => props::c18_case(text),
        "C19" => props::c19_case(text),
        "C20" => props::c20_case(text, do_modules, thorough),
        _ => unreachable!(),
    }
}

fn program_family(rep: &mut Report, viols: &Viols, machinery: &Mutex<Vec<String>>) {
    let prop = rep.property.clone();
    let thorough = rep.thorough();
    let fams = family::families(thorough);
    let orders = family::orders(thorough);
    let notes: Mutex<BTreeMap<String, (u64, String)>> = Mutex::new(BTreeMap::new());
    let tags: Mutex<BTreeMap<String, u64>> = Mutex::new(BTreeMap::new());
    let mut fam_info = vec![];
    for (fi, fam) in fams.iter().enumerate() {
        let progs: Vec<Prog> = fam.programs();
        fam_info.push(json!({"family": fam.name, "programs": progs.len(), "max_nodes": fam.n_max,
            "alphabet": fam.alphabet.iter().map(|k| format!("{k:?}")).collect::<Vec<_>>(), "max_refs": fam.max_refs}));
        let chunk = 16usize;
        let nchunks = progs.len().div_ceil(chunk);
        let st = par_map(nchunks, ncpu().min(16), |ci| {
            let mut st = Stats::new();
            let mut local_tags: BTreeMap<String, u64> = BTreeMap::new();
            for pi in ci * chunk..((ci + 1) * chunk).min(progs.len()) {
                let p = &progs[pi];
                for (oi, &ord) in orders.iter().enumerate() {
                    let Some(text) = p.text(ord) else { continue };
                    // merge_modules variants are independent of the declaration order (first order only)
                    // and of loop contexts (not repeated for the loop families)
                    let do_modules = oi == 0 && !fam.name.contains("loop");
                    let out = eval_case(&prop, &text, do_modules, thorough);
                    if let Some(m) = &out.machinery {
                        machinery.lock().unwrap().push(m.clone());
                    }
                    *local_tags.entry(if out.tag.starts_with("ok:") { "ok".to_string() } else { out.tag.split("/len").next().unwrap_or("").to_string() }).or_default() += 1;
                    for n in &out.notes {
                        let mut g = notes.lock().unwrap();
                        let e = g.entry(n.clone()).or_insert((0, text.clone()));
                        e.0 += 1;
                        if text.len() < e.1.len() {
                            e.1 = text.clone();
                        }
                    }
                    if !out.evaluated {
                        continue;
                    }
                    st.eval();
                    st.nontrivial(&(fi, pi, oi));
                    st.outcome(&out.tag);
                    if pi % 53 == 7 && oi == 0 {
                        st.sample(|| json!({"family": fam.name, "program": text, "outcome": out.tag}));
                    }
                    for (key, what) in out.viols {
                        viols.push(Viol {
                            key,
                            what,
                            size: p.kinds.len() * 1000 + p.refs.len() * 100 + text.len(),
                            case: json!({"kind": "program", "property": prop, "text": text, "modules": do_modules, "thorough": thorough,
                                         "family": fam.name, "prog": p.to_json(), "order": [ord.node_rev, ord.edge_rev]}),
                        });
                    }
                }
            }
            let mut g = tags.lock().unwrap();
            for (k, v) in local_tags {
                *g.entry(k).or_default() += v;
            }
            st
        });
        rep.section(fam.name, st);
    }
    rep.bounds.insert("families".into(), json!(fam_info));
    rep.bounds.insert(
        "declaration_orders".into(),
        json!(orders.iter().map(|o: &Order| format!("nodes_rev={} edges_rev={}", o.node_rev, o.edge_rev)).collect::<Vec<_>>()),
    );
    let tags = tags.into_inner().unwrap();
    println!("outcome classes (all generated program variants):");
    for (k, v) in &tags {
        println!("  {v:>8}  {k}");
    }
    rep.bounds.insert("outcome_classes".into(), json!(tags));
    let notes = notes.into_inner().unwrap();
    for (k, (n, ex)) in &notes {
        println!("OBSERVATION ({n} programs): {k}\n  smallest example:\n{}", ex.lines().map(|l| format!("    {l}")).collect::<Vec<_>>().join("\n"));
    }
    rep.bounds.insert(
        "observations".into(),
        json!(notes.iter().map(|(k, (n, ex))| json!({"what": k, "programs": n, "example": ex})).collect::<Vec<_>>()),
    );
}

fn replay_case(case: &Value) -> Vec<(String, String)> {
    match case["kind"].as_str().unwrap_or("") {
        "program" => {
            let out = eval_case(
                case["property"].as_str().unwrap(),
                case["text"].as_str().unwrap(),
                case["modules"].as_bool().unwrap_or(true),
                case["thorough"].as_bool().unwrap_or(false),
            );
            if let Some(m) = out.machinery {
                println!("MACHINERY-ERROR: {m}");
                std::process::exit(2);
            }
            println!("observed: {}", out.tag);
            out.viols
        }
        _ => c17::replay(case).into_iter().collect(),
    }
}

fn main() {
    let cli = cli();
    if std::env::var("VF_LOUD").is_err() {
        quiet_panics();
    }
    if let Some(f) = &cli.replay {
        let body: Value = serde_json::from_str(&std::fs::read_to_string(f).expect("cannot read replay file")).expect("replay file is not JSON");
        let key = body["key"].as_str().unwrap_or("").to_string();
        let vs = replay_case(&body["case"]);
        for (k, w) in &vs {
            println!("violates: {k}\n{w}");
        }
        if vs.iter().any(|(k, _)| *k == key) || (!vs.is_empty() && key.is_empty()) {
            println!("VIOLATION property={} replay={}", cli.property, f);
            std::process::exit(1);
        }
        println!("replayed case does not violate `{key}` any more");
        std::process::exit(0);
    }
    let mut rep = Report::new(&cli.property, &cli.tier, "vf_dfir_graph");
    let viols = Viols::default();
    let machinery: Mutex<Vec<String>> = Mutex::new(vec![]);
    match cli.property.as_str() {
        "COUNT" => {
            let t = std::time::Instant::now();
            for f in family::families(rep.thorough()) {
                println!("{:<12} {:>8} programs  ({:?})", f.name, f.programs().len(), t.elapsed());
            }
            std::process::exit(0);
        }
        "DEBUG" => {
            let mut text = String::new();
            std::io::Read::read_to_string(&mut std::io::stdin(), &mut text).unwrap();
            let run = pipeline::run(&text);
            if let Some(f) = &run.flat0 {
                println!("flat0:\n{}", f.dump());
            }
            if let Some(f) = &run.flat {
                println!("flat:\n{}", f.dump());
            }
            match &run.stage {
                pipeline::Stage::Ok(c) => println!("OK\n{}\ncode ok={:?}", c.part.dump(), c.code.as_ref().map(|c| c.len())),
                pipeline::Stage::PartErr { message } => println!("PartErr {message}"),
                pipeline::Stage::PartPanic { message } => println!("PartPanic {message}"),
                pipeline::Stage::BuildErr(m) => println!("BuildErr {m:?}"),
                pipeline::Stage::BuildPanic(m) => println!("BuildPanic {m}"),
                pipeline::Stage::ElimPanic(m) => println!("ElimPanic {m}"),
                pipeline::Stage::Adjacent => println!("Adjacent"),
                pipeline::Stage::ParseErr(m) => println!("ParseErr {m}"),
            }
            println!("production: {:?}", pipeline::run_production(&text).map(|r| r.map(|(j, c)| (j.len(), c.len()))));
            for prop in ["C18", "C19", "C20"] {
                let out = eval_case(prop, &text, true, rep.thorough());
                println!("{prop}: tag={} evaluated={} machinery={:?} notes={:?}", out.tag, out.evaluated, out.machinery, out.notes);
                for (k, w) in out.viols {
                    println!("  VIOL {k}\n{w}");
                }
            }
            std::process::exit(0);
        }
        "C17" => c17::run(&mut rep, &viols),
        "C18" => {
            rep.rule = "a case = (program of the bounded-exhaustive family, declaration order); evaluated = accepted by the flat-graph builder AND by partition_graph; distinct = distinct (program up to isomorphism, order)".into();
            rep.explanation = "syn::parse_str::<DfirCode> -> FlatGraphBuilder -> merge_modules -> eliminate_extra_unions_tees -> partition_graph -> as_code (dfir_lang as a library, no rustc); oracle computed from the public DfirGraph API only: partition of the input wiring, every subgraph one connected pull-prefix/push-suffix pipeline in one loop, cross-subgraph edge => exactly one handoff, delayed input <=> marked handoff (Tick->Loop inside nested loops), order lists every subgraph once and runs producers (edges, reference producers, earlier access groups) first, loops contiguous and nested; as_code succeeds.".into();
            rep.assume("operator classes are represented by one operator each (the partitioner only looks at arity, colour, input_delaytype_fn, flo_type, references, loop context)");
            rep.assume("input_delaytype_fn of the operator table is the specification of which inputs are delayed");
            rep.assume("a subgraph's node list is in dataflow order (as_code emits pull operators in list order and push operators in reverse list order)");
            rep.assume("only the direction 'edge crosses subgraphs => exactly one handoff' is demanded (the statement's wording); a non-delayed handoff inside one subgraph is caught by the strict producer-before-consumer order instead");
            rep.assume("pull/push colour forced by arity: >1 inputs => pull, >1 outputs => push, source => pull, sink => push; resolve_futures_blocking => push");
            program_family(&mut rep, &viols, &machinery);
        }
        "C19" => {
            rep.rule = "a case = (program of the family incl. every cyclic wiring of the same operator multisets, declaration order); evaluated = reaches partition_graph; distinct = distinct (program, order)".into();
            rep.explanation = "own dependency graph from the FLAT graph (non-delayed edges, handoff -> referencing operator, referencing operator -> pipe consumer of that handoff, earlier access group -> later group) + own Kahn: partition_graph must return Err exactly when it is cyclic, the nodes named in the diagnostic must form a cycle of it, and on Ok the C18 oracle applies.".into();
            rep.assume("'reference dependencies' include borrow-before-drain (a referencing operator runs before the pipe consumer that drains the referenced handoff); acceptance of a graph that is cyclic only through such edges would be keyed separately");
            rep.assume("diagnostic names are matched to nodes by their pretty-printed text (some assignment of distinct nodes must form a cycle)");
            program_family(&mut rep, &viols, &machinery);
        }
        "C20" => {
            rep.rule = "a case = (program, declaration order) accepted by the flat-graph builder; per case: (a) eliminate_extra_unions_tees, (b) ModuleBoundary insertion variants + merge_modules (first declaration order only; not repeated for the loop families, boundaries carry no loop context), (c) JSON round trip through the real dfir_rs Dfir::new; distinct = distinct (program, order)".into();
            rep.explanation = "(a) flat graph before/after elimination: same operators/arguments/references, wiring equals own contraction of 1-in-1-out unions/tees; (b) boundaries inserted through insert_intermediate_node / insert_node+insert_edge (per-edge for every edge subset, two in a row, one shared boundary with indexed ports), after merge_modules the graph equals the boundary-free graph; (c) serde_json of the partitioned graph -> Dfir::new (serde_json::from_str + insert_node_op_insts_all) -> identical operators, arguments, operator-instance ports, edges/ports, subgraph membership, handoffs, delay marks, subgraph order, loops, references; re-serialization byte-identical; the JSON literal is the one embedded by as_code; stage-by-stage mirror == build_dfir_code.".into();
            rep.assume("module boundaries cannot be written in surface text without import files; they are inserted through the public DfirGraph API");
            program_family(&mut rep, &viols, &machinery);
        }
        other => {
            eprintln!("vf_dfir_graph does not serve property {other}");
            std::process::exit(2);
        }
    }
    let machinery = machinery.into_inner().unwrap();
    if !machinery.is_empty() {
        println!("MACHINERY-ERROR: {} harness-side failures, first:\n{}", machinery.len(), machinery[0]);
        std::process::exit(2);
    }
    // Smallest case per key, re-executed before it is reported.
    let vs = viols.0.into_inner().unwrap();
    let mut st = Stats::new();
    for (key, (count, v)) in &vs {
        let again = replay_case(&v.case);
        if !again.iter().any(|(k, _)| k == key) {
            println!("MACHINERY-ERROR: violation `{key}` did not reproduce on re-execution");
            std::process::exit(2);
        }
        println!("violation class `{key}`: {count} cases; smallest:\n{}", v.what);
        st.violation(key.clone(), v.what.clone(), v.case.clone());
        st.violations_total += count - 1;
    }
    rep.section("violations", st);
    rep.finish();
}
