//! Independent oracles for C18 (well-formed partition) and C19 (same-tick cycles), computed from
//! `Snap`s only.
use std::collections::{BTreeMap, BTreeSet};

use crate::snap::{Delay, NK, Snap, cyclic_nodes, is_cycle_of, is_cyclic};

#[derive(Clone, Debug)]
pub struct Finding {
    /// stable check identifier (becomes part of the violation key)
    pub check: &'static str,
    pub detail: String,
}
fn f(check: &'static str, detail: String) -> Finding {
    Finding { check, detail }
}

#[derive(Clone, Copy, PartialEq, Eq, Debug)]
pub enum Color {
    Pull,
    Push,
    Comp,
}

/// Colour forced by the operator's shape: more than one input can only be pulled from, more than
/// one output can only be pushed into; a source is pulled, a sink is pushed. `None` = either.
/// (`resolve_futures_blocking[_ordered]` are documented push-only operators.)
pub fn forced_color(s: &Snap, n: u64) -> Option<Color> {
    let node = &s.nodes[&n];
    if node.name == "resolve_futures_blocking" || node.name == "resolve_futures_blocking_ordered" {
        return Some(Color::Push);
    }
    let i = s.preds(n).len();
    let o = s.succs(n).len();
    match (i, o) {
        (0, 0) => None,
        (0, 1) => Some(Color::Pull),
        (1, 0) => Some(Color::Push),
        (1, 1) => None,
        (_, 0 | 1) => Some(Color::Pull),
        (0 | 1, _) => Some(Color::Push),
        _ => Some(Color::Comp),
    }
}

fn short(id: u64) -> u64 {
    id & 0xffff_ffff
}

/// Summary of a partition for outcome/vacuity counters.
#[derive(Clone, PartialEq, Eq, Hash, Debug, Default)]
pub struct PartSummary {
    pub subgraphs: usize,
    pub handoffs: usize,
    pub marked: Vec<Delay>,
    pub loops: usize,
    pub pivots: usize,
    pub refs: usize,
}

pub fn summarize(part: &Snap) -> PartSummary {
    let mut marked: Vec<Delay> = part.nodes.values().filter_map(|n| n.delay).collect();
    marked.sort();
    let mut pivots = 0;
    for list in part.sgs.values() {
        let k = list
            .iter()
            .position(|&n| matches!(forced_color(part, n), Some(Color::Push | Color::Comp)))
            .unwrap_or(list.len());
        if k > 0 && k < list.len() {
            pivots += 1;
        }
    }
    PartSummary {
        subgraphs: part.sgs.len(),
        handoffs: part.nodes.values().filter(|n| matches!(n.kind, NK::Hoff(_))).count(),
        marked,
        loops: part.loops.len(),
        pivots,
        refs: part.nodes.values().map(|n| n.refs.len()).sum(),
    }
}

/// C18: everything the statement demands of a partitioned graph, nothing more.
/// `flat` is the graph that was handed to `partition_graph`.
pub fn check_partition(flat: &Snap, part: &Snap) -> Vec<Finding> {
    let mut out = vec![];

    // --- P0: the partitioned graph is a partition *of the input graph*: same nodes/operators,
    // and contracting the handoffs the partitioner inserted restores the input wiring.
    {
        let mut contracted: Vec<(u64, String, u64, String)> = vec![];
        let mut ok = true;
        for (id, n) in &flat.nodes {
            match part.nodes.get(id) {
                Some(m) if m.kind == n.kind && m.text == n.text && m.loop_ == n.loop_ && m.refs == n.refs => {}
                _ => {
                    ok = false;
                    out.push(f("P0-node-changed", format!("flat node {} missing or changed", short(*id))));
                }
            }
        }
        let new_nodes: BTreeSet<u64> = part.nodes.keys().filter(|k| !flat.nodes.contains_key(k)).copied().collect();
        for &n in &new_nodes {
            if !matches!(part.nodes[&n].kind, NK::Hoff("Vec")) {
                ok = false;
                out.push(f("P0-new-node", format!("inserted node {} is not a Vec handoff", short(n))));
            }
        }
        if ok {
            for e in &part.edges {
                if new_nodes.contains(&e.src) {
                    continue; // emitted from its in-edge
                }
                if new_nodes.contains(&e.dst) {
                    let outs = part.succs(e.dst);
                    if outs.len() != 1 || part.preds(e.dst).len() != 1 {
                        out.push(f(
                            "P0-inserted-handoff-degree",
                            format!("inserted handoff {} has in/out != 1/1", short(e.dst)),
                        ));
                        continue;
                    }
                    let o = outs[0];
                    contracted.push((e.src, e.sport.clone(), o.dst, o.dport.clone()));
                } else {
                    contracted.push((e.src, e.sport.clone(), e.dst, e.dport.clone()));
                }
            }
            contracted.sort();
            if contracted != flat.wiring() {
                out.push(f(
                    "P0-wiring-changed",
                    format!("contracting inserted handoffs gives {:?}, input wiring {:?}", contracted, flat.wiring()),
                ));
            }
        }
        if part.loops != flat.loops || part.root_loops != flat.root_loops {
            out.push(f("P0-loops-changed", "loop tree differs from the input graph".into()));
        }
    }

    // --- S1: operators are partitioned into subgraphs; handoffs are in none.
    let mut member_of: BTreeMap<u64, u64> = BTreeMap::new();
    for (&sg, list) in &part.sgs {
        if list.is_empty() {
            out.push(f("S1-empty-subgraph", format!("subgraph {} is empty", short(sg))));
        }
        for &n in list {
            if let Some(prev) = member_of.insert(n, sg) {
                out.push(f("S1-node-in-two-subgraphs", format!("node {} in {} and {}", short(n), short(prev), short(sg))));
            }
        }
    }
    for (&id, n) in &part.nodes {
        match n.kind {
            NK::Op => {
                if member_of.get(&id).copied() != n.sg || n.sg.is_none() {
                    out.push(f(
                        "S1-operator-without-subgraph",
                        format!("operator {} `{}`: node_subgraph={:?}, listed in {:?}", short(id), n.text, n.sg.map(short), member_of.get(&id).map(|x| short(*x))),
                    ));
                }
            }
            NK::Hoff(_) => {
                if n.sg.is_some() || member_of.contains_key(&id) {
                    out.push(f("S1-handoff-in-subgraph", format!("handoff {} is inside a subgraph", short(id))));
                }
            }
            NK::ModB(_) => out.push(f("S1-module-boundary", format!("module boundary {} survived", short(id)))),
        }
    }
    if !out.iter().all(|x| x.check.starts_with("P0")) {
        return out; // later checks assume a sane membership map
    }

    // --- S2: every subgraph is one connected pull-prefix / push-suffix pipeline in one loop.
    for (&sg, list) in &part.sgs {
        let set: BTreeSet<u64> = list.iter().copied().collect();
        let idx: BTreeMap<u64, usize> = list.iter().enumerate().map(|(i, &n)| (n, i)).collect();
        let loops: BTreeSet<Option<u64>> = list.iter().map(|n| part.nodes[n].loop_).collect();
        if loops.len() > 1 {
            out.push(f("S2-two-loop-contexts", format!("subgraph {} spans loop contexts {:?}", short(sg), loops)));
        }
        let internal: Vec<(u64, u64)> =
            part.edges.iter().filter(|e| set.contains(&e.src) && set.contains(&e.dst)).map(|e| (e.src, e.dst)).collect();
        // order inside the subgraph respects its edges (code is emitted in this order)
        for &(a, b) in &internal {
            if idx[&a] >= idx[&b] {
                out.push(f("S2-inner-order", format!("subgraph {}: edge {}->{} goes backwards in the node list", short(sg), short(a), short(b))));
            }
        }
        // connected
        let mut comp: BTreeSet<u64> = BTreeSet::new();
        let mut stack = vec![list[0]];
        comp.insert(list[0]);
        while let Some(x) = stack.pop() {
            for &(a, b) in &internal {
                let y = if a == x { b } else if b == x { a } else { continue };
                if comp.insert(y) {
                    stack.push(y);
                }
            }
        }
        if comp.len() != set.len() {
            out.push(f("S2-disconnected", format!("subgraph {} is not connected: {:?}", short(sg), list.iter().map(|n| short(*n)).collect::<Vec<_>>())));
        }
        // pull prefix / push suffix
        let colors: Vec<Option<Color>> = list.iter().map(|&n| forced_color(part, n)).collect();
        let k = colors.iter().position(|c| matches!(c, Some(Color::Push | Color::Comp))).unwrap_or(list.len());
        for i in k..list.len() {
            if colors[i] == Some(Color::Pull) {
                out.push(f(
                    "S2-pull-after-push",
                    format!("subgraph {}: pull-only operator {} `{}` is downstream of / listed after push operator {}", short(sg), short(list[i]), part.nodes[&list[i]].text, short(list[k])),
                ));
            }
            if i > k && colors[i] == Some(Color::Comp) {
                out.push(f("S2-comp-in-push", format!("subgraph {}: multi-in multi-out node {} in push half", short(sg), short(list[i]))));
            }
        }
        let mut pivots = 0;
        for &(a, b) in &internal {
            let (pa, pb) = (idx[&a] < k, idx[&b] < k);
            if pa && !pb {
                pivots += 1;
            }
            if !pa && pb {
                out.push(f("S2-push-to-pull", format!("subgraph {}: edge {}->{} goes from the push half to the pull half", short(sg), short(a), short(b))));
            }
        }
        if pivots > 1 {
            out.push(f("S2-two-pivots", format!("subgraph {} has {} pull->push edges", short(sg), pivots)));
        }
        // pull operators have at most one consumer, push operators exactly one producer
        for (i, &n) in list.iter().enumerate() {
            if i < k && part.succs(n).len() > 1 {
                out.push(f("S2-pull-fanout", format!("subgraph {}: pull operator {} has {} outputs", short(sg), short(n), part.succs(n).len())));
            }
            if i >= k && colors[i] != Some(Color::Comp) && part.preds(n).len() != 1 {
                out.push(f("S2-push-fanin", format!("subgraph {}: push operator {} has {} inputs", short(sg), short(n), part.preds(n).len())));
            }
        }
    }

    // --- S3: an edge that joins two subgraphs carries exactly one handoff.
    for e in &part.edges {
        let (so, dop) = (part.is_op(e.src), part.is_op(e.dst));
        if so && dop {
            if part.nodes[&e.src].sg != part.nodes[&e.dst].sg {
                out.push(f(
                    "S3-cross-edge-without-handoff",
                    format!("edge {}->{} joins subgraphs {:?} and {:?} without a handoff", short(e.src), short(e.dst), part.nodes[&e.src].sg.map(short), part.nodes[&e.dst].sg.map(short)),
                ));
            }
        } else if !so && !dop {
            out.push(f("S3-two-handoffs", format!("edge {}->{} joins two handoffs", short(e.src), short(e.dst))));
        }
    }
    for (&id, n) in &part.nodes {
        if matches!(n.kind, NK::Hoff(_)) {
            let (i, o) = (part.preds(id).len(), part.succs(id).len());
            if i != 1 || o > 1 {
                out.push(f("S3-handoff-degree", format!("handoff {} has {} producers and {} consumers", short(id), i, o)));
            }
        }
    }

    // --- S4: delayed inputs cross a handoff carrying the matching mark; nothing else is marked.
    let mut expected_mark: BTreeMap<u64, Delay> = BTreeMap::new();
    for e in &part.edges {
        let Some(d) = e.ddelay else { continue };
        if !part.is_hoff(e.src) {
            out.push(f("S4-delayed-input-without-handoff", format!("delayed input {}->{} ({:?}) does not come from a handoff", short(e.src), short(e.dst), d)));
            continue;
        }
        let consumer_loop = part.nodes[&e.dst].loop_;
        let nested = consumer_loop.is_some_and(|l| part.loops.get(&l).is_some_and(|x| x.parent.is_some()));
        let eff = match (d, nested) {
            (Delay::Tick, true) => Delay::Loop,
            (Delay::TickLazy, true) => Delay::LoopLazy,
            (d, _) => d,
        };
        expected_mark.insert(e.src, eff);
    }
    for (&id, n) in &part.nodes {
        let exp = expected_mark.get(&id).copied();
        if matches!(n.kind, NK::Hoff(_)) {
            if n.delay != exp {
                out.push(f(
                    if exp.is_some() { "S4-delay-mark-wrong" } else { "S4-spurious-delay-mark" },
                    format!("handoff {}: delay mark {:?}, expected {:?}", short(id), n.delay, exp),
                ));
            }
        } else if n.delay.is_some() {
            out.push(f("S4-delay-mark-on-operator", format!("operator {} carries a delay mark", short(id))));
        }
    }

    // --- S5: the subgraph order lists every subgraph exactly once.
    let mut pos: BTreeMap<u64, usize> = BTreeMap::new();
    for (i, &sg) in part.topo.iter().enumerate() {
        if pos.insert(sg, i).is_some() {
            out.push(f("S5-order-duplicate", format!("subgraph {} listed twice", short(sg))));
        }
        if !part.sgs.contains_key(&sg) {
            out.push(f("S5-order-unknown", format!("order lists unknown subgraph {}", short(sg))));
        }
    }
    for &sg in part.sgs.keys() {
        if !pos.contains_key(&sg) {
            out.push(f("S5-order-missing", format!("subgraph {} missing from the order", short(sg))));
        }
    }
    if out.iter().any(|x| x.check.starts_with("S5") || x.check.starts_with("S3")) {
        return out;
    }
    let sgpos = |n: u64| -> Option<usize> { part.nodes[&n].sg.and_then(|s| pos.get(&s).copied()) };

    // --- S6: producers run before consumers.
    // (a) non-delayed edges through handoffs
    for (&h, n) in &part.nodes {
        if !matches!(n.kind, NK::Hoff(_)) {
            continue;
        }
        let Some(pe) = part.preds(h).first().copied() else { continue };
        for se in part.succs(h) {
            if se.ddelay.is_some() {
                continue;
            }
            let (Some(a), Some(b)) = (sgpos(pe.src), sgpos(se.dst)) else { continue };
            if a >= b {
                out.push(f(
                    "S6-edge-order",
                    format!("non-delayed edge {} -> [handoff {}] -> {}: producer subgraph at position {}, consumer at {}", short(pe.src), short(h), short(se.dst), a, b),
                ));
            }
        }
    }
    // (b) references: the producer of the referenced handoff runs before the referencing operator
    // (c) access groups on one handoff run in group order
    let mut groups: BTreeMap<u64, BTreeMap<Option<u32>, Vec<u64>>> = BTreeMap::new();
    for (&v, n) in &part.nodes {
        for r in &n.refs {
            let Some(h) = r.target else {
                out.push(f("S6-unresolved-reference", format!("operator {} has an unresolved reference", short(v))));
                continue;
            };
            if !part.is_hoff(h) {
                out.push(f("S6-reference-to-non-handoff", format!("operator {} references non-handoff {}", short(v), short(h))));
                continue;
            }
            groups.entry(h).or_default().entry(r.group).or_default().push(v);
            let Some(pe) = part.preds(h).first().copied() else { continue };
            let (Some(a), Some(b)) = (sgpos(pe.src), sgpos(v)) else { continue };
            if a >= b {
                let pat = ref_fed_by_own_loop_exit(part, v, pe.src);
                out.push(f(
                    if pat {
                        "S6-reference-order/ref-from-loop-to-handoff-fed-by-own-all_iterations"
                    } else {
                        "S6-reference-order/other"
                    },
                    format!(
                        "operator {} references handoff {} produced by {}: producer subgraph at position {}, user at {}{}",
                        short(v), short(h), short(pe.src), a, b,
                        if pat { " (the user sits in a loop and the handoff's producer chain passes through an all_iterations() that exits that loop / an enclosing or enclosed loop)" } else { "" }
                    ),
                ));
            }
        }
    }
    for (h, gs) in &groups {
        let gl: Vec<&Vec<u64>> = gs.values().collect();
        for i in 0..gl.len() {
            for j in i + 1..gl.len() {
                for &a in gl[i] {
                    for &b in gl[j] {
                        let (Some(pa), Some(pb)) = (sgpos(a), sgpos(b)) else { continue };
                        if pa >= pb {
                            out.push(f(
                                "S6-access-group-order",
                                format!("handoff {}: earlier-group user {} at position {}, later-group user {} at {}", short(*h), short(a), pa, short(b), pb),
                            ));
                        }
                    }
                }
            }
        }
    }

    // --- S7: each loop's subgraphs (including nested loops') are contiguous in the order.
    for &l in part.loops.keys() {
        let ps: Vec<usize> = part
            .sgs
            .iter()
            .filter(|(_, list)| part.loop_within(part.nodes[&list[0]].loop_, l))
            .filter_map(|(sg, _)| pos.get(sg).copied())
            .collect();
        if ps.is_empty() {
            continue;
        }
        let (lo, hi) = (*ps.iter().min().unwrap(), *ps.iter().max().unwrap());
        if hi - lo + 1 != ps.len() {
            out.push(f("S7-loop-not-contiguous", format!("loop {}: subgraph positions {:?} are not contiguous", short(l), ps)));
        }
    }
    out
}

/// Structural pattern of the known reference-order finding: `user` sits inside a loop L and the
/// producer chain of the referenced handoff (walking pipe edges backwards from `producer`,
/// `producer` included) passes through an `all_iterations()` operator whose input comes out of L,
/// of a loop enclosing L, or of a loop nested in L.
pub fn ref_fed_by_own_loop_exit(s: &Snap, user: u64, producer: u64) -> bool {
    let Some(l) = s.nodes[&user].loop_ else { return false };
    let mut seen: BTreeSet<u64> = BTreeSet::new();
    let mut stack = vec![producer];
    seen.insert(producer);
    while let Some(x) = stack.pop() {
        let n = &s.nodes[&x];
        if n.kind == NK::Op && n.name == "all_iterations" {
            // loop the data comes out of: loop of the (handoff-skipped) predecessor operator
            for pe in s.preds(x) {
                let mut p = pe.src;
                if s.is_hoff(p) {
                    match s.preds(p).first() {
                        Some(e) => p = e.src,
                        None => continue,
                    }
                }
                if let Some(m) = s.nodes[&p].loop_
                    && (s.loop_within(Some(l), m) || s.loop_within(Some(m), l))
                {
                    return true;
                }
            }
        }
        for pe in s.preds(x) {
            if seen.insert(pe.src) {
                stack.push(pe.src);
            }
        }
    }
    false
}

// ---------------------------------------------------------------------------------------------
// C19

pub struct Deps {
    pub nodes: BTreeSet<u64>,
    /// non-delayed edges + reference dependencies (+ borrow-before-drain) + access-group order
    pub deps: Vec<(u64, u64)>,
    /// the same without the borrow-before-drain edges (borrower -> pipe consumer of the handoff)
    pub deps_min: Vec<(u64, u64)>,
    /// loop-ingress ordering constraints the partitioner adds on top (NOT in the statement);
    /// used only to *classify* a rejection (candidate F5).
    pub ingress: Vec<(u64, u64)>,
}

pub fn flat_deps(flat: &Snap) -> Deps {
    let nodes: BTreeSet<u64> = flat.nodes.keys().copied().collect();
    let mut deps = vec![];
    let mut drain = vec![];
    for e in &flat.edges {
        if e.ddelay.is_none() {
            deps.push((e.src, e.dst));
        }
    }
    let mut groups: BTreeMap<u64, BTreeMap<Option<u32>, Vec<u64>>> = BTreeMap::new();
    for (&v, n) in &flat.nodes {
        for r in &n.refs {
            let Some(h) = r.target else { continue };
            deps.push((h, v));
            if flat.is_hoff(h) {
                for se in flat.succs(h) {
                    drain.push((v, se.dst));
                }
            }
            groups.entry(h).or_default().entry(r.group).or_default().push(v);
        }
    }
    for gs in groups.values() {
        let gl: Vec<&Vec<u64>> = gs.values().collect();
        for i in 0..gl.len() {
            for j in i + 1..gl.len() {
                for &a in gl[i] {
                    for &b in gl[j] {
                        deps.push((a, b));
                    }
                }
            }
        }
    }
    let deps_min = deps.clone();
    deps.extend(drain);
    let mut ingress = vec![];
    for e in &flat.edges {
        if e.ddelay.is_some() {
            continue;
        }
        let (sl, dl) = (flat.nodes[&e.src].loop_, flat.nodes[&e.dst].loop_);
        if let Some(dl) = dl
            && sl == flat.loops[&dl].parent
        {
            for &w in &flat.loops[&dl].nodes {
                if flat.nodes.contains_key(&w) {
                    ingress.push((e.src, w));
                }
            }
        }
    }
    Deps { nodes, deps, deps_min, ingress }
}

impl Deps {
    pub fn cyclic(&self) -> bool {
        is_cyclic(&self.nodes, &self.deps)
    }
    pub fn cyclic_min(&self) -> bool {
        is_cyclic(&self.nodes, &self.deps_min)
    }
    pub fn cyclic_with_ingress(&self) -> bool {
        let mut d = self.deps.clone();
        d.extend(self.ingress.iter().copied());
        is_cyclic(&self.nodes, &d)
    }
}

/// Parse the `Cycle: ["a", "b"]` tail of the partitioner's diagnostic (a `{:?}` of strings).
pub fn parse_cycle_names(msg: &str) -> Option<Vec<String>> {
    let i = msg.find("Cycle: [")?;
    let s = &msg[i + "Cycle: [".len()..];
    let mut out = vec![];
    let mut chars = s.chars().peekable();
    loop {
        match chars.next()? {
            ']' => return Some(out),
            '"' => {
                let mut cur = String::new();
                loop {
                    match chars.next()? {
                        '\\' => match chars.next()? {
                            'n' => cur.push('\n'),
                            't' => cur.push('\t'),
                            'r' => cur.push('\r'),
                            '\'' => cur.push('\''),
                            '"' => cur.push('"'),
                            '\\' => cur.push('\\'),
                            c => {
                                cur.push('\\');
                                cur.push(c)
                            }
                        },
                        '"' => break,
                        c => cur.push(c),
                    }
                }
                out.push(cur);
            }
            ',' | ' ' => {}
            _ => return None,
        }
    }
}

/// Do the names listed in the diagnostic denote (some assignment of distinct nodes forming) a
/// genuine cycle of `edges`? Names are matched against the nodes' pretty strings.
pub fn named_cycle_is_real(flat: &Snap, names: &[String], edges: &[(u64, u64)]) -> bool {
    named_cycle(flat, names, edges).is_some()
}

/// Some assignment of distinct nodes to the diagnostic's names that forms a cycle of `edges`.
pub fn named_cycle(flat: &Snap, names: &[String], edges: &[(u64, u64)]) -> Option<Vec<u64>> {
    if names.is_empty() {
        return None;
    }
    let cands: Vec<Vec<u64>> = names
        .iter()
        .map(|nm| flat.nodes.iter().filter(|(_, n)| &n.pretty == nm).map(|(&id, _)| id).collect())
        .collect();
    if cands.iter().any(|c: &Vec<u64>| c.is_empty()) {
        return None;
    }
    fn rec(cands: &[Vec<u64>], cur: &mut Vec<u64>, edges: &[(u64, u64)]) -> bool {
        if cur.len() == cands.len() {
            return is_cycle_of(cur, edges);
        }
        for &c in &cands[cur.len()] {
            if cur.contains(&c) {
                continue;
            }
            cur.push(c);
            if rec(cands, cur, edges) {
                return true;
            }
            cur.pop();
        }
        false
    }
    let mut cur = vec![];
    rec(&cands, &mut cur, edges).then_some(cur)
}

impl Deps {
    /// Pattern of candidate F5: some non-delayed edge u -> (batch in loop L) re-enters L from a
    /// node u outside L that transitively depends (same-tick dependencies) on a node inside L
    /// (or inside a loop nested in L), i.e. root -> L -> root -> L and nested variants.
    pub fn reenters_own_loop(&self, flat: &Snap) -> bool {
        self.reenters_own_loop_with(flat, false)
    }

    /// `atomic_loops`: additionally treat every loop as one unit (each node of a loop depends on
    /// every other node of that loop, delays inside notwithstanding) — the two-loop variant
    /// L1 -> root -> L2 -> root -> L1 where the dependency is carried across a `defer_tick` in L2.
    pub fn reenters_own_loop_with(&self, flat: &Snap, atomic_loops: bool) -> bool {
        let mut deps = self.deps.clone();
        if atomic_loops {
            for &m in flat.loops.keys() {
                let members: Vec<u64> =
                    flat.nodes.iter().filter(|(_, n)| flat.loop_within(n.loop_, m)).map(|(&id, _)| id).collect();
                for &a in &members {
                    for &b in &members {
                        if a != b {
                            deps.push((a, b));
                        }
                    }
                }
            }
        }
        for e in &flat.edges {
            if e.ddelay.is_some() {
                continue;
            }
            let (sl, dl) = (flat.nodes[&e.src].loop_, flat.nodes[&e.dst].loop_);
            let Some(l) = dl else { continue };
            if sl != flat.loops[&l].parent {
                continue;
            }
            // backwards reachability from e.src over the dependency edges
            let mut seen: BTreeSet<u64> = BTreeSet::new();
            let mut stack = vec![e.src];
            while let Some(x) = stack.pop() {
                for &(a, b) in &deps {
                    if b == x && seen.insert(a) {
                        stack.push(a);
                    }
                }
            }
            if seen.iter().any(|w| flat.loop_within(flat.nodes[w].loop_, l)) {
                return true;
            }
        }
        false
    }
}

pub fn nodes_on_cycles(d: &Deps, with_ingress: bool) -> BTreeSet<u64> {
    let mut e = d.deps.clone();
    if with_ingress {
        e.extend(d.ingress.iter().copied());
    }
    cyclic_nodes(&d.nodes, &e)
}
