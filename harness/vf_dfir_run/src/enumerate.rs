//! Streaming enumeration of input histories in canonical order (see `vf_dfir_gen::hist`):
//! every assignment of at most `max_items` items over the alphabet to `(tick, source)` slots,
//! order within a slot significant, each exactly once. Order: fewer items first, then items in
//! earlier slots first, then by item value — identical to sorting `hist::histories(..)` by
//! `hist::order_key`, but without materialising the (up to millions of) histories.
//!
//! A history with n items corresponds to exactly one sequence `(slot_1,item_1)..(slot_n,item_n)`
//! with non-decreasing slots; enumerating those sequences lexicographically yields the order.

use vf_dfir_gen::hist::{Hist, ALPHABET};

/// Calls `f` for every history; stops early (returning `false`) if `f` returns `false`.
pub fn for_each_history(n_sources: usize, n_ticks: usize, max_items: usize, mut f: impl FnMut(&Hist) -> bool) -> bool {
    let n_slots = n_sources * n_ticks;
    let mut h: Hist = vec![vec![vec![]; n_sources]; n_ticks];
    fn go(h: &mut Hist, n_sources: usize, n_slots: usize, min_slot: usize, left: usize, f: &mut dyn FnMut(&Hist) -> bool) -> bool {
        if left == 0 {
            return f(h);
        }
        for slot in min_slot..n_slots {
            let (t, s) = (slot / n_sources, slot % n_sources);
            for it in ALPHABET {
                h[t][s].push(it);
                let go_on = go(h, n_sources, n_slots, slot, left - 1, f);
                h[t][s].pop();
                if !go_on {
                    return false;
                }
            }
        }
        true
    }
    for n in 0..=max_items {
        if n > 0 && n_slots == 0 {
            break;
        }
        if !go(&mut h, n_sources, n_slots, 0, n, &mut f) {
            return false;
        }
    }
    true
}

/// Number of histories `for_each_history` produces: sum over n of 3^n * C(n + slots - 1, n).
pub fn count(n_sources: usize, n_ticks: usize, max_items: usize) -> u64 {
    let slots = (n_sources * n_ticks) as u64;
    let mut total = 0u64;
    for n in 0..=max_items as u64 {
        if n > 0 && slots == 0 {
            break;
        }
        let mut c = 1u64; // C(n + slots - 1, n)
        for i in 0..n {
            c = c * (slots + i) / (i + 1);
        }
        total += c * 3u64.pow(n as u32);
    }
    total
}
