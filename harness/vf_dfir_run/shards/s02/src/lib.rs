//! Generated DFIR programs of one shard (written by build.rs into OUT_DIR).
#![allow(clippy::all, unused)]
include!(concat!(env!("OUT_DIR"), "/progs.rs"));
