// Emits this shard's slice of the generated program family (see vf_dfir_gen::emit).
fn main() {
    vf_dfir_gen::emit::emit_shard_from_env();
}
