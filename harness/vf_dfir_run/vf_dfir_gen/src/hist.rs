//! Input-history enumeration.
//!
//! A history assigns to every `(tick, source)` slot an ordered item sequence. `histories` lists
//! **every** history with at most `max_items` items in total over the alphabet
//! `{(0,0),(0,1),(1,0)}` (two keys, a key collision with different values, and — by repeating an
//! item — duplicates), each exactly once.

pub type Item = (u8, u8);
/// `hist[tick][source]` = items sent on that source before that tick runs.
pub type Hist = Vec<Vec<Vec<Item>>>;

pub const ALPHABET: [Item; 3] = [(0, 0), (0, 1), (1, 0)];

pub fn histories(n_sources: usize, n_ticks: usize, max_items: usize) -> Vec<Hist> {
    fn seqs(len: usize) -> Vec<Vec<Item>> {
        let mut out = vec![vec![]];
        for _ in 0..len {
            out = out
                .into_iter()
                .flat_map(|s: Vec<Item>| {
                    ALPHABET.iter().map(move |a| {
                        let mut t = s.clone();
                        t.push(*a);
                        t
                    })
                })
                .collect();
        }
        out
    }
    fn go(slot: usize, n_slots: usize, budget: usize, cur: &mut Vec<Vec<Item>>, out: &mut Vec<Vec<Vec<Item>>>) {
        if slot == n_slots {
            out.push(cur.clone());
            return;
        }
        for len in 0..=budget {
            for s in seqs(len) {
                cur.push(s);
                go(slot + 1, n_slots, budget - len, cur, out);
                cur.pop();
            }
        }
    }
    let n_slots = n_sources * n_ticks;
    let mut flat = vec![];
    go(0, n_slots, max_items, &mut vec![], &mut flat);
    flat.into_iter()
        .map(|slots| (0..n_ticks).map(|t| (0..n_sources).map(|s| slots[t * n_sources + s].clone()).collect()).collect())
        .collect()
}

/// Canonical enumeration order used by the engines: fewer items first, then items in earlier
/// `(tick, source)` slots first, then by item value. Independent of the number of ticks, so the
/// first failing history of a program (and hence the violation key) is the same in every tier.
pub fn order_key(h: &Hist) -> (usize, Vec<(usize, usize, Item)>) {
    let mut v = vec![];
    for (t, per) in h.iter().enumerate() {
        for (s, items) in per.iter().enumerate() {
            for it in items {
                v.push((t, s, *it));
            }
        }
    }
    (v.len(), v)
}

/// [`show`] without trailing empty ticks (tier-independent text for violation keys).
pub fn show_trimmed(h: &Hist) -> String {
    let mut n = h.len();
    while n > 0 && h[n - 1].iter().all(|s| s.is_empty()) {
        n -= 1;
    }
    show(&h[..n].to_vec())
}

pub fn total_items(h: &Hist) -> usize {
    h.iter().map(|t| t.iter().map(|s| s.len()).sum::<usize>()).sum()
}

/// Compact text: ticks separated by `|`, sources by `;`, e.g. `00 01;|;10|;`.
pub fn show(h: &Hist) -> String {
    h.iter()
        .map(|t| {
            t.iter()
                .map(|s| s.iter().map(|(a, b)| format!("{a}{b}")).collect::<Vec<_>>().join(" "))
                .collect::<Vec<_>>()
                .join(";")
        })
        .collect::<Vec<_>>()
        .join("|")
}

/// Inverse of [`show`] (for replay files).
pub fn parse(s: &str) -> Hist {
    s.split('|')
        .map(|t| {
            t.split(';')
                .map(|src| {
                    src.split_whitespace()
                        .map(|it| {
                            let b = it.as_bytes();
                            assert!(b.len() == 2, "bad item {it:?}");
                            (b[0] - b'0', b[1] - b'0')
                        })
                        .collect()
                })
                .collect()
        })
        .collect()
}
