//! Program-family generator shared by the build scripts of the program shards and by the
//! `vf_dfir_run` binary (engine D, DESIGN.md §2):
//!
//! * [`ast`]     – small typed program AST (operators over `(u8,u8)` items),
//! * [`print`]   – AST -> DFIR surface syntax,
//! * [`interp`]  – tick-synchronous reference interpreter (DESIGN Appendix A; written from the
//!   operators' doc comments, never from their codegen),
//! * [`family`]  – the bounded-exhaustive program families of C21, C22, C23,
//! * [`hist`]    – input-history enumeration,
//! * [`emit`]    – Rust source emission for the shard crates,
//! * [`libcheck`]– library-level compile check through `dfir_lang` (no rustc).
pub mod ast;
pub mod emit;
pub mod family;
pub mod hist;
pub mod interp;
pub mod libcheck;
pub mod print;
pub mod val;

pub use val::Val;

/// Number of shard crates (`shards/sNN`). Program `id` lives in shard `id % NSHARDS`.
pub const NSHARDS: usize = 16;
