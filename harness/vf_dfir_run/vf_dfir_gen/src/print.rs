//! AST -> DFIR surface syntax.
//!
//! Uniform layout: one statement `n{i} = <operator>;` per node, then one statement per edge
//! `n{src}[out] -> [in]n{dst};`. The recording closures refer to a `rec: vf_dfir_rt::Rec` and
//! the sources to `rx{i}` receivers that the emitted wrapper function defines (see `emit.rs`).

use crate::ast::*;

const KV: &str = "(u8, u8)";

fn pp(a: P, b: P) -> String {
    format!("::<{}, {}>", a.s(), b.s())
}

/// `acc: &mut Vec<T>`, `x: T`: order-recording vs. sorted (multiset) insertion.
fn vec_acc(c: Comb, x: &str) -> String {
    match c {
        Comb::Ord => format!("acc.push({x})"),
        Comb::Comm => format!("{{ let i = acc.partition_point(|y| *y <= {x}); acc.insert(i, {x}); }}"),
    }
}
/// `acc: &mut u8`, `v: u8`.
fn u8_acc(c: Comb) -> &'static str {
    match c {
        Comb::Ord => "{ *acc = acc.wrapping_mul(3).wrapping_add(v).wrapping_add(1); }",
        Comb::Comm => "{ *acc = acc.wrapping_add(v).wrapping_add(1); }",
    }
}
/// `acc: &mut (u8,u8)`, `x: (u8,u8)`.
fn kv_acc(c: Comb) -> &'static str {
    match c {
        Comb::Ord => "{ *acc = (acc.0.wrapping_mul(3).wrapping_add(x.0).wrapping_add(1), acc.1.wrapping_mul(5).wrapping_add(x.1)); }",
        Comb::Comm => "{ *acc = (acc.0.wrapping_add(x.0).wrapping_add(1), acc.1.wrapping_add(x.1)); }",
    }
}

const FUSED_REDUCE: &str =
    "dfir_rs::dfir_pipes::pull::Reduce::new(|acc: &mut u8, v: u8| { *acc = acc.wrapping_mul(3).wrapping_add(v).wrapping_add(1); })";
const FUSED_FOLD: &str = "dfir_rs::dfir_pipes::pull::Fold::new(Vec::new, |acc: &mut Vec<u8>, v: u8| { acc.push(v); })";

/// Operator text; `in_ty` = Rust type of the node's first input (annotates recording closures).
pub fn op_text(op: &Op, in_ty: &str) -> String {
    use Op::*;
    match op {
        Src(i) => format!("source_stream(rx{i})"),
        Empty => "source_iter([])".into(),
        Sink(i) => format!("for_each(|x: {in_ty}| rec.push({i}, &x))"),
        Null => "null()".into(),
        Probe(i) => format!("inspect(|x: &{in_ty}| rec.push({i}, x))"),
        Map(f) => match f {
            MapFn::Swap => format!("map(|(a, b): {KV}| (b, a))"),
            MapFn::SuccSwap => format!("map(|(a, b): {KV}| (b, a.wrapping_add(1)))"),
            MapFn::Key => format!("map(|(a, _b): {KV}| a)"),
            MapFn::Const => format!("map(|_: {KV}| (9u8, 9u8))"),
            MapFn::Pair2 => format!("map(|(a, b): {KV}| [(a, b), (b, a)])"),
            MapFn::ToMax => format!("map(|(_a, b): {KV}| dfir_rs::lattices::Max::new(b))"),
            MapFn::ToSingletonSet => {
                format!("map(|(_a, b): {KV}| dfir_rs::lattices::set_union::SetUnionSingletonSet::new_from(b))")
            }
            MapFn::ToEnum => {
                format!("map(|(a, b): {KV}| if a == 0 {{ vf_dfir_rt::Kv2::Zero(b) }} else {{ vf_dfir_rt::Kv2::One(a, b) }})")
            }
        },
        Filter => format!("filter(|&(a, _b): &{KV}| a == 0)"),
        FilterMap => format!("filter_map(|(a, b): {KV}| if b == 0 {{ Some((a, 7u8)) }} else {{ None }})"),
        FlatMap => format!("flat_map(|(a, b): {KV}| [(a, b), (b, a)])"),
        Flatten => "flatten()".into(),
        Identity => "identity()".into(),
        Handoff => "handoff()".into(),
        Enumerate(p) => format!("enumerate::<{}>()", p.s()),
        Sort => "sort()".into(),
        SortByKey => format!("sort_by_key(|(a, _b): &{KV}| a)"),
        Unique(p) => format!("unique::<{}>()", p.s()),
        Persist => "persist::<'static>()".into(),
        MultisetDelta => "multiset_delta()".into(),
        Fold(p, c) => format!("fold::<{}>(Vec::new, |acc: &mut Vec<{KV}>, x: {KV}| {})", p.s(), vec_acc(*c, "x")),
        FoldNoReplay(p, c) => {
            format!("fold_no_replay::<{}>(Vec::new, |acc: &mut Vec<{KV}>, x: {KV}| {})", p.s(), vec_acc(*c, "x"))
        }
        Reduce(p, c) => format!("reduce::<{}>(|acc: &mut {KV}, x: {KV}| {})", p.s(), kv_acc(*c)),
        ReduceNoReplay(p, c) => format!("reduce_no_replay::<{}>(|acc: &mut {KV}, x: {KV}| {})", p.s(), kv_acc(*c)),
        FoldKeyed(p, c) => {
            format!("fold_keyed::<{}, u8, Vec<u8>>(Vec::new, |acc: &mut Vec<u8>, v: u8| {})", p.s(), vec_acc(*c, "v"))
        }
        ReduceKeyed(p, c) => format!("reduce_keyed::<{}, u8, u8>(|acc: &mut u8, v: u8| {})", p.s(), u8_acc(*c)),
        Scan(p) => format!(
            "scan::<{}>(|| 0u8, |acc: &mut u8, (a, b): {KV}| {{ *acc = acc.wrapping_mul(2).wrapping_add(b).wrapping_add(1); Some((a, *acc)) }})",
            p.s()
        ),
        ScanStop(p) => format!(
            "scan::<{}>(|| 0u8, |acc: &mut u8, (a, b): {KV}| {{ *acc = acc.wrapping_mul(2).wrapping_add(b).wrapping_add(1); if (a, b) == (1u8, 0u8) {{ None }} else {{ Some((a, *acc)) }} }})",
            p.s()
        ),
        DeferTick => "defer_tick()".into(),
        DeferTickLazy => "defer_tick_lazy()".into(),
        LatticeFold(p) => format!("lattice_fold::<{}>(dfir_rs::lattices::Max::<u8>::default)", p.s()),
        LatticeReduce(p) => format!("lattice_reduce::<{}>()", p.s()),
        Tee => "tee()".into(),
        Unzip => "unzip()".into(),
        Partition => format!("partition(|&(a, _b): &{KV}, n: usize| (a as usize) % n)"),
        DemuxEnum => "demux_enum::<vf_dfir_rt::Kv2>()".into(),
        State(p) => format!("state::<{}, dfir_rs::lattices::Max<u8>>()", p.s()),
        StateBy(p) => format!(
            "state_by::<{}, dfir_rs::lattices::set_union::SetUnionBTreeSet<u8>>(|(_a, b): {KV}| dfir_rs::lattices::set_union::SetUnionSingletonSet::new_from(b), ::std::default::Default::default)",
            p.s()
        ),
        Union => "union()".into(),
        Chain => "chain()".into(),
        ChainFirstN(n) => format!("chain_first_n({n})"),
        Join(a, b) => format!("join{}()", pp(*a, *b)),
        JoinMultiset(a, b) => format!("join_multiset{}()", pp(*a, *b)),
        CrossJoin(a, b) => format!("cross_join{}()", pp(*a, *b)),
        CrossJoinMultiset(a, b) => format!("cross_join_multiset{}()", pp(*a, *b)),
        JoinMultisetHalf(None) => "join_multiset_half()".into(),
        JoinMultisetHalf(Some((a, b))) => format!("join_multiset_half{}()", pp(*a, *b)),
        JoinFused(a, b) => format!("join_fused{}({FUSED_REDUCE}, {FUSED_FOLD})", pp(*a, *b)),
        JoinFusedLhs(a, b) => format!("join_fused_lhs{}({FUSED_REDUCE})", pp(*a, *b)),
        JoinFusedRhs(a, b) => format!("join_fused_rhs{}({FUSED_FOLD})", pp(*a, *b)),
        AntiJoin(a, b) => format!("anti_join{}()", pp(*a, *b)),
        Difference(a, b) => format!("difference{}()", pp(*a, *b)),
        CrossSingleton(None) => "cross_singleton()".into(),
        CrossSingleton(Some(p)) => format!("cross_singleton::<{}>()", p.s()),
        Zip(a, b) => format!("zip{}()", pp(*a, *b)),
        ZipLongest(None) => "zip_longest()".into(),
        ZipLongest(Some(p)) => format!("zip_longest::<{}>()", p.s()),
        DeferSignal => "defer_signal()".into(),
        Singleton => "singleton()".into(),
        RefMap(n) => format!("map(|x: {KV}| (x, #n{n}.clone()))"),
    }
}

/// The body of a `dfir_syntax! { .. }` invocation.
pub fn dfir_source(p: &Prog) -> String {
    let mut s = String::new();
    let tys = p.types();
    for (i, n) in p.nodes.iter().enumerate() {
        let in_ty = n.ins.first().map(|&(a, b)| tys[a][b].as_str()).unwrap_or("_");
        s.push_str(&format!("    n{i} = {};\n", op_text(&n.op, in_ty)));
    }
    for (i, n) in p.nodes.iter().enumerate() {
        for (port, &(src, sp)) in n.ins.iter().enumerate() {
            s.push_str(&format!(
                "    n{src}{} -> {}n{i};\n",
                p.nodes[src].op.out_port(sp),
                n.op.in_port(port)
            ));
        }
    }
    s
}
