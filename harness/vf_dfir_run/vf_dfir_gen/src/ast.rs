//! Typed program AST. A program is a DAG of operator nodes in topological order; every external
//! input is a `source_stream` of `(u8,u8)` items, every observable output a recording sink.
//!
//! The closures used by the operators are fixed per operator (see `print.rs` for their text and
//! `interp.rs` for their meaning), so a program is fully described by its `Op`s and wiring.

use std::fmt::Write as _;

/// Persistence lifetime argument.
#[derive(Clone, Copy, Debug, PartialEq, Eq, PartialOrd, Ord, Hash)]
pub enum P {
    Tick,
    Static,
}
impl P {
    pub fn s(self) -> &'static str {
        match self {
            P::Tick => "'tick",
            P::Static => "'static",
        }
    }
    pub fn short(self) -> &'static str {
        match self {
            P::Tick => "t",
            P::Static => "s",
        }
    }
    pub const BOTH: [P; 2] = [P::Tick, P::Static];
}

/// Accumulation closure flavour: `Ord` is order-sensitive (records the arrival order, used when
/// the input edge has a specified order), `Comm` is commutative-associative but still counts every
/// item (used downstream of edges whose order is unspecified).
#[derive(Clone, Copy, Debug, PartialEq, Eq, PartialOrd, Ord, Hash)]
pub enum Comb {
    Ord,
    Comm,
}

/// Closures available to `map`.
#[derive(Clone, Copy, Debug, PartialEq, Eq, PartialOrd, Ord, Hash)]
pub enum MapFn {
    /// `(a,b) -> (b,a)` (permutes the input alphabet).
    Swap,
    /// `(a,b) -> (b, a+1)`.
    SuccSwap,
    /// `(a,b) -> a` (key projection, feeds `anti_join`'s `neg`).
    Key,
    /// `_ -> (9,9)`: all items become equal, so downstream order is immaterial.
    Const,
    /// `(a,b) -> [(a,b),(b,a)]` (array; feeds `flatten`).
    Pair2,
    /// `(a,b) -> Max::new(b)` / `(a,b) -> SetUnionSingletonSet::new_from(b)` (feed lattice operators).
    ToMax,
    ToSingletonSet,
    /// `(a,b) -> if a == 0 { Kv2::Zero(b) } else { Kv2::One(a,b) }` (feeds `demux_enum`).
    ToEnum,
}

#[derive(Clone, Debug, PartialEq, Eq, PartialOrd, Ord, Hash)]
pub enum Op {
    // ---- endpoints -------------------------------------------------------------------------
    /// `source_stream(rx{i})`, items `(u8,u8)`.
    Src(usize),
    /// `source_iter([])`: emits nothing.
    Empty,
    /// Recording `for_each` (sink index).
    Sink(usize),
    /// `null()` used as a sink.
    Null,
    /// Recording `inspect` (sink index); passes items through.
    Probe(usize),
    // ---- unary, stateless ------------------------------------------------------------------
    Map(MapFn),
    Filter,
    FilterMap,
    FlatMap,
    Flatten,
    Identity,
    /// The `handoff()` pseudo-operator (forces a subgraph boundary).
    Handoff,
    // ---- unary, stateful -------------------------------------------------------------------
    Enumerate(P),
    Sort,
    SortByKey,
    Unique(P),
    Persist,
    MultisetDelta,
    Fold(P, Comb),
    FoldNoReplay(P, Comb),
    Reduce(P, Comb),
    ReduceNoReplay(P, Comb),
    FoldKeyed(P, Comb),
    ReduceKeyed(P, Comb),
    Scan(P),
    /// `scan` whose closure returns `None` exactly on the sentinel item `(1,0)` (and `Some` again
    /// afterwards, were it still called): the stream terminates at the first `None` — for the rest
    /// of the tick (`'tick`) or for good (`'static`).
    ScanStop(P),
    DeferTick,
    DeferTickLazy,
    LatticeFold(P),
    LatticeReduce(P),
    // ---- fan-out ---------------------------------------------------------------------------
    Tee,
    Unzip,
    Partition,
    DemuxEnum,
    /// `state::<'p, Max<u8>>()`: outputs `[items]` (0) and `[state]` (1).
    State(P),
    /// `state_by::<'p, SetUnionBTreeSet<u8>>(..)`, same ports.
    StateBy(P),
    // ---- fan-in ----------------------------------------------------------------------------
    Union,
    Chain,
    ChainFirstN(usize),
    Join(P, P),
    JoinMultiset(P, P),
    CrossJoin(P, P),
    CrossJoinMultiset(P, P),
    /// ports `[build]` (0), `[probe]` (1). `None` = no persistence arguments written.
    JoinMultisetHalf(Option<(P, P)>),
    JoinFused(P, P),
    JoinFusedLhs(P, P),
    JoinFusedRhs(P, P),
    /// ports `[pos]` (0), `[neg]` (1).
    AntiJoin(P, P),
    Difference(P, P),
    /// ports `[input]` (0), `[single]` (1). `None` = no persistence argument written.
    CrossSingleton(Option<P>),
    Zip(P, P),
    /// `None` = no persistence argument written.
    ZipLongest(Option<P>),
    /// ports `[input]` (0), `[signal]` (1).
    DeferSignal,
    // ---- singleton references --------------------------------------------------------------
    /// The `singleton()` pseudo-operator.
    Singleton,
    /// `map(|x| (x, #n.clone()))` where `n` is the (node index of the) referenced `Singleton`.
    RefMap(usize),
}

/// Comparison mode of an edge / sink (per tick).
#[derive(Clone, Copy, Debug, PartialEq, Eq, Hash)]
pub enum Flag {
    /// Emission order is specified: compare as sequences.
    Seq,
    /// Sequence up to permutation inside maximal runs of items with equal `RunKey`.
    Runs(RunKey),
    /// Emission order is unspecified: compare as multisets.
    Ms,
}
#[derive(Clone, Copy, Debug, PartialEq, Eq, Hash)]
pub enum RunKey {
    /// First tuple component (`sort_by_key` with an unstable sort).
    First,
    /// `(k, v_probe)` of a `(k,(v_probe,v_build))` item (`join_multiset_half`).
    KeyProbe,
}

#[derive(Clone, Debug, PartialEq, Eq, Hash)]
pub struct Node {
    pub op: Op,
    /// `(source node, source output port)` per input port.
    pub ins: Vec<(usize, usize)>,
}

#[derive(Clone, Debug, PartialEq, Eq, Hash, Default)]
pub struct Prog {
    pub nodes: Vec<Node>,
}

impl Op {
    pub fn n_out(&self) -> usize {
        use Op::*;
        match self {
            Sink(_) | Null => 0,
            Tee | Unzip | Partition | DemuxEnum | State(_) | StateBy(_) => 2,
            _ => 1,
        }
    }
    /// `Some(n)` = exactly n inputs.
    pub fn n_in(&self) -> usize {
        use Op::*;
        match self {
            Src(_) | Empty => 0,
            Union | Chain | ChainFirstN(_) | Join(..) | JoinMultiset(..) | CrossJoin(..)
            | CrossJoinMultiset(..) | JoinMultisetHalf(..) | JoinFused(..) | JoinFusedLhs(..)
            | JoinFusedRhs(..) | AntiJoin(..) | Difference(..) | CrossSingleton(_) | Zip(..)
            | ZipLongest(_) | DeferSignal => 2,
            _ => 1,
        }
    }
    /// Surface-syntax input port label.
    pub fn in_port(&self, i: usize) -> &'static str {
        use Op::*;
        match self {
            Union => "",
            JoinMultisetHalf(..) => ["[build]", "[probe]"][i],
            AntiJoin(..) | Difference(..) => ["[pos]", "[neg]"][i],
            CrossSingleton(_) => ["[input]", "[single]"][i],
            DeferSignal => ["[input]", "[signal]"][i],
            _ if self.n_in() == 2 => ["[0]", "[1]"][i],
            _ => "",
        }
    }
    /// Surface-syntax output port label.
    pub fn out_port(&self, i: usize) -> &'static str {
        use Op::*;
        match self {
            Tee => "",
            Unzip | Partition => ["[0]", "[1]"][i],
            DemuxEnum => ["[Zero]", "[One]"][i],
            State(_) | StateBy(_) => ["[items]", "[state]"][i],
            _ => "",
        }
    }
    /// Does the *value* of this operator's output depend on the arrival order on input `i`
    /// (beyond a permutation of the output)? Such inputs must not be fed by an edge whose order
    /// is unspecified, otherwise the reference semantics would have to guess an order.
    pub fn order_sensitive(&self, i: usize) -> bool {
        use Op::*;
        match self {
            Enumerate(_) | Scan(_) | ScanStop(_) => true,
            Fold(_, c) | FoldNoReplay(_, c) | Reduce(_, c) | ReduceNoReplay(_, c) | FoldKeyed(_, c)
            | ReduceKeyed(_, c) => *c == Comb::Ord,
            ChainFirstN(_) => true,
            JoinFused(..) => true,
            JoinFusedLhs(..) => i == 0,
            JoinFusedRhs(..) => i == 1,
            CrossSingleton(_) => i == 1,
            Zip(..) | ZipLongest(_) => true,
            // `state[items]`: which of two items "changed the state" depends on order.
            State(_) | StateBy(_) => true,
            // A singleton holds one item; fine.
            _ => false,
        }
    }
}

impl Prog {
    pub fn push(&mut self, op: Op, ins: Vec<(usize, usize)>) -> usize {
        assert_eq!(op.n_in(), ins.len(), "arity of {:?}", op);
        for &(n, p) in &ins {
            assert!(n < self.nodes.len() && p < self.nodes[n].op.n_out(), "bad input ({n},{p}) for {:?}", op);
        }
        self.nodes.push(Node { op, ins });
        self.nodes.len() - 1
    }
    /// Shorthand: unary node reading output 0 of `src`.
    pub fn un(&mut self, op: Op, src: usize) -> usize {
        self.push(op, vec![(src, 0)])
    }
    pub fn n_sources(&self) -> usize {
        self.nodes
            .iter()
            .filter_map(|n| if let Op::Src(i) = n.op { Some(i + 1) } else { None })
            .max()
            .unwrap_or(0)
    }
    pub fn n_sinks(&self) -> usize {
        self.nodes
            .iter()
            .filter_map(|n| match n.op {
                Op::Sink(i) | Op::Probe(i) => Some(i + 1),
                _ => None,
            })
            .max()
            .unwrap_or(0)
    }

    /// Comparison flag of every `(node, out port)`.
    pub fn flags(&self) -> Vec<Vec<Flag>> {
        use Op::*;
        let mut out: Vec<Vec<Flag>> = Vec::with_capacity(self.nodes.len());
        for node in &self.nodes {
            let inf: Vec<Flag> = node.ins.iter().map(|&(n, p)| out[n][p]).collect();
            let weakest = |fs: &[Flag]| {
                if fs.iter().all(|f| *f == Flag::Seq) {
                    Flag::Seq
                } else {
                    Flag::Ms
                }
            };
            let f: Vec<Flag> = match &node.op {
                Src(_) | Empty => vec![Flag::Seq],
                Sink(_) | Null => vec![],
                // all items equal => any order is the same sequence
                Map(MapFn::Const) => vec![Flag::Seq],
                // element-wise / order-preserving unary operators
                Probe(_) | Map(_) | Filter | FilterMap | FlatMap | Flatten | Identity | Handoff | DeferTick
                | DeferTickLazy | Persist | Singleton | RefMap(_) => {
                    // only pure pass-through operators keep a run-permuted sequence run-permuted
                    let keeps_runs = matches!(node.op, Probe(_) | Identity | Handoff | DeferTick | DeferTickLazy);
                    vec![match inf[0] {
                        Flag::Runs(k) if keeps_runs => Flag::Runs(k),
                        Flag::Runs(_) => Flag::Ms,
                        f => f,
                    }]
                }
                Unique(_) | Enumerate(_) | Scan(_) | ScanStop(_) => vec![weakest(&inf)],
                // a total order on the items: fully determined by the input multiset
                Sort => vec![Flag::Seq],
                SortByKey => vec![Flag::Runs(RunKey::First)],
                MultisetDelta => vec![Flag::Ms],
                // single-item outputs
                Fold(..) | FoldNoReplay(..) | Reduce(..) | ReduceNoReplay(..) | LatticeFold(_) | LatticeReduce(_) => {
                    vec![Flag::Seq]
                }
                FoldKeyed(..) | ReduceKeyed(..) => vec![Flag::Ms],
                Tee => vec![weakest(&inf); 2],
                Unzip | Partition | DemuxEnum => vec![weakest(&inf); 2],
                State(_) | StateBy(_) => vec![weakest(&inf), Flag::Seq],
                Union => {
                    // "Each input sequence is a subsequence of the output": with at most one input that
                    // can ever carry items the output order is that input's order.
                    let live: Vec<usize> =
                        (0..node.ins.len()).filter(|&i| !matches!(self.nodes[node.ins[i].0].op, Empty)).collect();
                    if live.len() <= 1 {
                        vec![live.first().map(|&i| inf[i]).unwrap_or(Flag::Seq)]
                    } else {
                        vec![Flag::Ms]
                    }
                }
                Chain | ChainFirstN(_) => vec![weakest(&inf)],
                Join(..) | JoinMultiset(..) | CrossJoin(..) | CrossJoinMultiset(..) | JoinFused(..)
                | JoinFusedLhs(..) | JoinFusedRhs(..) => vec![Flag::Ms],
                JoinMultisetHalf(..) => {
                    vec![if inf[1] == Flag::Seq { Flag::Runs(RunKey::KeyProbe) } else { Flag::Ms }]
                }
                // a filter of `pos`
                AntiJoin(..) | Difference(..) => vec![weakest(&inf[..1])],
                CrossSingleton(_) => vec![weakest(&inf)],
                Zip(..) | ZipLongest(_) => vec![weakest(&inf)],
                DeferSignal => vec![weakest(&inf[..1])],
            };
            assert_eq!(f.len(), node.op.n_out());
            out.push(f);
        }
        out
    }

    /// Rust type (as source text) of every `(node, out port)`. Used to annotate the recording
    /// closures: an un-annotated generic sink would leave push-side pipelines without any concrete
    /// item type to infer from (user programs normally pin the type in their sinks).
    pub fn types(&self) -> Vec<Vec<String>> {
        use Op::*;
        const KV: &str = "(u8, u8)";
        const MAX: &str = "dfir_rs::lattices::Max<u8>";
        let mut out: Vec<Vec<String>> = Vec::with_capacity(self.nodes.len());
        for node in &self.nodes {
            let it: Vec<String> = node.ins.iter().map(|&(n, p)| out[n][p].clone()).collect();
            let s = |x: &str| x.to_string();
            let t: Vec<String> = match &node.op {
                Src(_) => vec![s(KV)],
                Empty => vec![s("_")],
                Sink(_) | Null => vec![],
                Map(f) => vec![match f {
                    MapFn::Swap | MapFn::SuccSwap | MapFn::Const => s(KV),
                    MapFn::Key => s("u8"),
                    MapFn::Pair2 => s("[(u8, u8); 2]"),
                    MapFn::ToMax => s(MAX),
                    MapFn::ToSingletonSet => s("dfir_rs::lattices::set_union::SetUnionSingletonSet<u8>"),
                    MapFn::ToEnum => s("vf_dfir_rt::Kv2"),
                }],
                Filter | FilterMap | FlatMap | Flatten | Reduce(..) | ReduceNoReplay(..) | ReduceKeyed(..) | Scan(_) | ScanStop(_) => vec![s(KV)],
                Probe(_) | Identity | Handoff | Sort | SortByKey | Unique(_) | Persist | MultisetDelta | DeferTick
                | DeferTickLazy | Singleton | Chain | ChainFirstN(_) | DeferSignal | AntiJoin(..) | Difference(..) => {
                    vec![it[0].clone()]
                }
                Union => vec![it.iter().find(|t| *t != "_").cloned().unwrap_or(s("_"))],
                Enumerate(_) => vec![format!("(usize, {})", it[0])],
                Fold(..) | FoldNoReplay(..) => vec![s("Vec<(u8, u8)>")],
                FoldKeyed(..) => vec![s("(u8, Vec<u8>)")],
                LatticeFold(_) | LatticeReduce(_) => vec![s(MAX)],
                Tee | Partition => vec![it[0].clone(), it[0].clone()],
                Unzip => vec![s("u8"), s("u8")],
                DemuxEnum => vec![s("(u8,)"), s("(u8, u8)")],
                State(_) => vec![s(MAX), s(MAX)],
                StateBy(_) => vec![s(KV), s("dfir_rs::lattices::set_union::SetUnionBTreeSet<u8>")],
                Join(..) | JoinMultiset(..) | JoinMultisetHalf(_) | JoinFusedLhs(..) => vec![s("(u8, (u8, u8))")],
                JoinFused(..) | JoinFusedRhs(..) => vec![s("(u8, (u8, Vec<u8>))")],
                CrossJoin(..) | CrossJoinMultiset(..) | CrossSingleton(_) | Zip(..) => vec![format!("({}, {})", it[0], it[1])],
                ZipLongest(_) => vec![format!("dfir_rs::itertools::EitherOrBoth<{}, {}>", it[0], it[1])],
                RefMap(_) => vec![s("((u8, u8), Vec<(u8, u8)>)")],
            };
            assert_eq!(t.len(), node.op.n_out());
            out.push(t);
        }
        out
    }

    /// Flag per sink index.
    pub fn sink_flags(&self) -> Vec<Flag> {
        let fl = self.flags();
        let mut out = vec![Flag::Seq; self.n_sinks()];
        for n in &self.nodes {
            if let Op::Sink(i) | Op::Probe(i) = n.op {
                let (s, p) = n.ins[0];
                out[i] = fl[s][p];
            }
        }
        out
    }

    /// `Err(description)` if an order-sensitive input is fed by an edge with unspecified order,
    /// i.e. the documented semantics do not determine the program's outputs.
    pub fn check_discipline(&self) -> Result<(), String> {
        let fl = self.flags();
        for (ni, n) in self.nodes.iter().enumerate() {
            for (i, &(s, p)) in n.ins.iter().enumerate() {
                if n.op.order_sensitive(i) && fl[s][p] != Flag::Seq {
                    return Err(format!("node {ni} {:?} input {i} is order-sensitive but fed by a {:?} edge", n.op, fl[s][p]));
                }
            }
        }
        Ok(())
    }

    /// Short structural description, used in keys and reports.
    pub fn describe(&self) -> String {
        let mut s = String::new();
        for (i, n) in self.nodes.iter().enumerate() {
            if i > 0 {
                s.push_str("; ");
            }
            let _ = write!(s, "n{i}={:?}", n.op);
            if !n.ins.is_empty() {
                let _ = write!(s, "<-{}", n.ins.iter().map(|(a, b)| format!("n{a}.{b}")).collect::<Vec<_>>().join(","));
            }
        }
        s
    }
}
