//! Reference interpreter: tick-synchronous denotational semantics of the operators, written from
//! their doc comments in `dfir_lang/src/graph/ops/*.rs` (DESIGN.md Appendix A). Per tick every node
//! maps the complete item sequences on its input ports to item sequences on its output ports;
//! `'static` state lives in `St`, `'tick` state is simply not kept.
//!
//! Deliberately boring: `Vec`s and linear scans only, no hashing, no cleverness.
//! Where an emission order is unspecified the interpreter produces *some* order and the edge is
//! flagged (`ast::Flag`) so that comparisons ignore it; `Prog::check_discipline` guarantees that no
//! order-sensitive operator consumes such an edge.

use crate::ast::*;
use crate::val::Val;

/// Per-node persistent state (each operator uses the fields it needs).
#[derive(Clone, Debug, Default)]
struct St {
    a: Vec<Val>,
    b: Vec<Val>,
    n: u64,
    acc: Option<Val>,
    /// keyed accumulators in first-arrival order of the key
    keyed: Vec<(Val, Val)>,
    /// "unspecified" taint (see `Interp::tick`): sticky for stateful operators / one-tick delay line
    tainted: bool,
}

pub struct Interp<'a> {
    prog: &'a Prog,
    st: Vec<St>,
    tick_no: usize,
}

/// One tick's expected sink contents. `unspecified[sink]` = the docs do not determine this sink's
/// content in this tick (so it must not be compared).
pub struct TickOut {
    pub sinks: Vec<Vec<Val>>,
    pub unspecified: Vec<bool>,
}

fn w8(x: u64) -> u64 {
    x & 0xff
}
fn kvv(a: u64, b: u64) -> Val {
    Val::T(vec![Val::N(a), Val::N(b)])
}

/// `'tick` state starts empty every tick.
fn begin<T: Default>(p: P, slot: &mut T) {
    if p == P::Tick {
        *slot = T::default();
    }
}

fn vec_acc(c: Comb, acc: &mut Vec<Val>, x: Val) {
    match c {
        Comb::Ord => acc.push(x),
        Comb::Comm => {
            let i = acc.partition_point(|y| *y <= x);
            acc.insert(i, x);
        }
    }
}
fn u8_acc(c: Comb, acc: u64, v: u64) -> u64 {
    match c {
        Comb::Ord => w8(w8(acc * 3) + v + 1),
        Comb::Comm => w8(acc + v + 1),
    }
}
fn kv_acc(c: Comb, acc: &Val, x: &Val) -> Val {
    let (a0, a1) = acc.u8s();
    let (x0, x1) = x.u8s();
    let (a0, a1, x0, x1) = (a0 as u64, a1 as u64, x0 as u64, x1 as u64);
    match c {
        Comb::Ord => kvv(w8(w8(a0 * 3) + x0 + 1), w8(w8(a1 * 5) + x1)),
        Comb::Comm => kvv(w8(a0 + x0 + 1), w8(a1 + x1)),
    }
}

fn dedup(v: &[Val]) -> Vec<Val> {
    let mut out: Vec<Val> = vec![];
    for x in v {
        if !out.contains(x) {
            out.push(x.clone());
        }
    }
    out
}

/// Keyed fold of `(k,v)` items into `acc` (first-arrival key order).
fn keyed_fold(acc: &mut Vec<(Val, Val)>, items: &[Val], init: impl Fn() -> Option<Val>, f: impl Fn(Option<Val>, &Val) -> Val) {
    for it in items {
        let (k, v) = it.ab();
        match acc.iter_mut().find(|(kk, _)| kk == k) {
            Some((_, a)) => *a = f(Some(a.clone()), v),
            None => acc.push((k.clone(), f(init(), v))),
        }
    }
}
fn fused_reduce(acc: &mut Vec<(Val, Val)>, items: &[Val]) {
    keyed_fold(acc, items, || None, |a, v| match a {
        None => v.clone(),
        Some(a) => Val::N(u8_acc(Comb::Ord, a.as_n(), v.as_n())),
    });
}
fn fused_fold(acc: &mut Vec<(Val, Val)>, items: &[Val]) {
    keyed_fold(acc, items, || Some(Val::T(vec![])), |a, v| {
        let mut t = a.unwrap().as_t().to_vec();
        t.push(v.clone());
        Val::T(t)
    });
}

impl<'a> Interp<'a> {
    pub fn new(prog: &'a Prog) -> Self {
        Interp { prog, st: vec![St::default(); prog.nodes.len()], tick_no: 0 }
    }

    /// Run one tick. `inputs[s]` = items arriving on source `s` before this tick.
    /// Returns the items recorded per sink index in this tick.
    ///
    /// "Unspecified" taint: the one place where the docs leave the per-tick output open although
    /// the operator is otherwise documented is `fold_no_replay` in tick 0 without input ("does not
    /// replay the accumulated value on ticks where there is no new input" - whether the *initial*
    /// value is announced once is not said). That output is marked unspecified; the mark flows
    /// through stateless operators within the tick, through `defer_tick` with its delay, and
    /// sticks to every stateful operator it reaches (conservative).
    pub fn tick(&mut self, inputs: &[Vec<(u8, u8)>]) -> TickOut {
        use Op::*;
        let prog = self.prog;
        let tick_no = self.tick_no;
        self.tick_no += 1;
        let mut sinks: Vec<Vec<Val>> = vec![vec![]; prog.n_sinks()];
        let mut sink_unspec = vec![false; prog.n_sinks()];
        let mut outs: Vec<Vec<Vec<Val>>> = Vec::with_capacity(prog.nodes.len());
        let mut unspec: Vec<bool> = Vec::with_capacity(prog.nodes.len());
        for (ni, node) in prog.nodes.iter().enumerate() {
            let inp: Vec<&Vec<Val>> = node.ins.iter().map(|&(n, p)| &outs[n][p]).collect();
            let st = &mut self.st[ni];
            let in_taint = node.ins.iter().any(|&(n, _)| unspec[n]) || matches!(node.op, RefMap(n) if unspec[n]);
            let out_taint = match &node.op {
                Sink(i) | Probe(i) => {
                    sink_unspec[*i] |= in_taint;
                    in_taint
                }
                Src(_) | Empty | Null | Map(_) | Filter | FilterMap | FlatMap | Flatten | Identity | Handoff | Singleton
                | RefMap(_) | Tee | Unzip | Partition | DemuxEnum | Union | Chain | ChainFirstN(_) | Sort | SortByKey => in_taint,
                DeferTick | DeferTickLazy => std::mem::replace(&mut st.tainted, in_taint),
                FoldNoReplay(..) => {
                    st.tainted |= in_taint;
                    st.tainted || (tick_no == 0 && inp[0].is_empty())
                }
                _ => {
                    st.tainted |= in_taint;
                    st.tainted
                }
            };
            unspec.push(out_taint);
            let o: Vec<Vec<Val>> = match &node.op {
                Src(i) => vec![inputs.get(*i).map(|v| v.iter().map(|&(a, b)| Val::kv(a, b)).collect()).unwrap_or_default()],
                Empty => vec![vec![]],
                Sink(i) => {
                    sinks[*i].extend(inp[0].iter().cloned());
                    vec![]
                }
                Null => vec![],
                Probe(i) => {
                    sinks[*i].extend(inp[0].iter().cloned());
                    vec![inp[0].clone()]
                }
                Map(f) => vec![inp[0]
                    .iter()
                    .map(|x| {
                        let (a, b) = x.u8s();
                        let (a, b) = (a as u64, b as u64);
                        match f {
                            MapFn::Swap => kvv(b, a),
                            MapFn::SuccSwap => kvv(b, w8(a + 1)),
                            MapFn::Key => Val::N(a),
                            MapFn::Const => kvv(9, 9),
                            MapFn::Pair2 => Val::T(vec![kvv(a, b), kvv(b, a)]),
                            MapFn::ToMax => Val::N(b),
                            MapFn::ToSingletonSet => Val::T(vec![Val::N(b)]),
                            // encoded as (variant index, fields..)
                            MapFn::ToEnum => {
                                if a == 0 {
                                    Val::T(vec![Val::N(0), Val::N(b)])
                                } else {
                                    Val::T(vec![Val::N(1), Val::N(a), Val::N(b)])
                                }
                            }
                        }
                    })
                    .collect()],
                Filter => vec![inp[0].iter().filter(|x| x.u8s().0 == 0).cloned().collect()],
                FilterMap => vec![inp[0]
                    .iter()
                    .filter_map(|x| {
                        let (a, b) = x.u8s();
                        if b == 0 { Some(kvv(a as u64, 7)) } else { None }
                    })
                    .collect()],
                FlatMap => vec![inp[0]
                    .iter()
                    .flat_map(|x| {
                        let (a, b) = x.u8s();
                        [kvv(a as u64, b as u64), kvv(b as u64, a as u64)]
                    })
                    .collect()],
                Flatten => vec![inp[0].iter().flat_map(|x| x.as_t().to_vec()).collect()],
                Identity | Handoff | Singleton => vec![inp[0].clone()],
                // "(0, x_0), (1, x_1)..; 'tick: indexing restarts at zero each tick, 'static never resets"
                Enumerate(p) => {
                    begin(*p, &mut st.n);
                    let mut o = vec![];
                    for x in inp[0].iter() {
                        o.push(Val::T(vec![Val::N(st.n), x.clone()]));
                        st.n += 1;
                    }
                    vec![o]
                }
                // "only the values received within that tick will be sorted and emitted"
                Sort => {
                    let mut v = inp[0].clone();
                    v.sort();
                    vec![v]
                }
                // sorted by the key (first component); order among equal keys unspecified (Flag::Runs)
                SortByKey => {
                    let mut v = inp[0].clone();
                    v.sort_by(|x, y| x.ab().0.cmp(y.ab().0));
                    vec![v]
                }
                // "'tick: uniqueness within the current tick; 'static: no duplicates will ever be emitted"
                Unique(p) => {
                    begin(*p, &mut st.a);
                    let mut o = vec![];
                    for x in inp[0].iter() {
                        if !st.a.contains(x) {
                            st.a.push(x.clone());
                            o.push(x.clone());
                        }
                    }
                    vec![o]
                }
                // "Stores each item as it passes through, and replays all item every tick."
                Persist => {
                    st.a.extend(inp[0].iter().cloned());
                    vec![st.a.clone()]
                }
                // "Multiset delta from the previous tick": in_t minus in_{t-1} as multisets
                MultisetDelta => {
                    let mut prev = std::mem::replace(&mut st.a, inp[0].clone());
                    let mut o = vec![];
                    for x in inp[0].iter() {
                        if let Some(i) = prev.iter().position(|y| y == x) {
                            prev.remove(i);
                        } else {
                            o.push(x.clone());
                        }
                    }
                    vec![o]
                }
                // fold: one accumulated value per tick; 'static keeps the accumulator;
                // `_no_replay`: "does not replay the accumulated value on ticks where there is no new input"
                Fold(p, c) | FoldNoReplay(p, c) => {
                    begin(*p, &mut st.a);
                    for x in inp[0].iter() {
                        vec_acc(*c, &mut st.a, x.clone());
                    }
                    let emit = matches!(node.op, Fold(..)) || !inp[0].is_empty();
                    vec![if emit { vec![Val::T(st.a.clone())] } else { vec![] }]
                }
                // like Iterator::reduce: nothing while no item has been seen in the lifetime
                Reduce(p, c) | ReduceNoReplay(p, c) => {
                    begin(*p, &mut st.acc);
                    for x in inp[0].iter() {
                        st.acc = Some(match &st.acc {
                            None => x.clone(),
                            Some(a) => kv_acc(*c, a, x),
                        });
                    }
                    let emit = matches!(node.op, Reduce(..)) || !inp[0].is_empty();
                    vec![if emit { st.acc.iter().cloned().collect() } else { vec![] }]
                }
                // "one tuple for each distinct K, with an accumulated value"
                FoldKeyed(p, c) => {
                    begin(*p, &mut st.keyed);
                    keyed_fold(&mut st.keyed, inp[0], || Some(Val::T(vec![])), |a, v| {
                        let mut t = a.unwrap().as_t().to_vec();
                        vec_acc(*c, &mut t, v.clone());
                        Val::T(t)
                    });
                    vec![st.keyed.iter().map(|(k, a)| Val::pair(k.clone(), a.clone())).collect()]
                }
                ReduceKeyed(p, c) => {
                    begin(*p, &mut st.keyed);
                    keyed_fold(&mut st.keyed, inp[0], || None, |a, v| match a {
                        None => v.clone(),
                        Some(a) => Val::N(u8_acc(*c, a.as_n(), v.as_n())),
                    });
                    vec![st.keyed.iter().map(|(k, a)| Val::pair(k.clone(), a.clone())).collect()]
                }
                // running accumulator, emits the closure's `Some(..)` per item (our closure never returns None)
                Scan(p) => {
                    begin(*p, &mut st.n);
                    let mut o = vec![];
                    for x in inp[0].iter() {
                        let (a, b) = x.u8s();
                        st.n = w8(w8(st.n * 2) + b as u64 + 1);
                        o.push(kvv(a as u64, st.n));
                    }
                    vec![o]
                }
                // "terminate the stream if it's None": nothing more is emitted after the first None,
                // within the tick ('tick: all scan state is per tick) or ever ('static).
                // `st.acc.is_some()` = terminated.
                ScanStop(p) => {
                    begin(*p, &mut st.n);
                    begin(*p, &mut st.acc);
                    let mut o = vec![];
                    for x in inp[0].iter() {
                        if st.acc.is_some() {
                            break;
                        }
                        let (a, b) = x.u8s();
                        st.n = w8(w8(st.n * 2) + b as u64 + 1);
                        if (a, b) == (1, 0) {
                            st.acc = Some(Val::N(1));
                        } else {
                            o.push(kvv(a as u64, st.n));
                        }
                    }
                    vec![o]
                }
                // "Buffers all input items and releases them at the next time boundary."
                DeferTick | DeferTickLazy => {
                    let prev = std::mem::replace(&mut st.a, inp[0].clone());
                    vec![prev]
                }
                // == fold(Default, Merge::merge) over Max<u8>
                LatticeFold(p) => {
                    begin(*p, &mut st.n);
                    for x in inp[0].iter() {
                        st.n = st.n.max(x.as_n());
                    }
                    vec![vec![Val::N(st.n)]]
                }
                // == reduce(Merge::merge)
                LatticeReduce(p) => {
                    begin(*p, &mut st.acc);
                    for x in inp[0].iter() {
                        st.acc = Some(match &st.acc {
                            None => x.clone(),
                            Some(a) => Val::N(a.as_n().max(x.as_n())),
                        });
                    }
                    vec![st.acc.iter().cloned().collect()]
                }
                Tee => vec![inp[0].clone(), inp[0].clone()],
                Unzip => vec![inp[0].iter().map(|x| x.ab().0.clone()).collect(), inp[0].iter().map(|x| x.ab().1.clone()).collect()],
                Partition => vec![
                    inp[0].iter().filter(|x| x.u8s().0 % 2 == 0).cloned().collect(),
                    inp[0].iter().filter(|x| x.u8s().0 % 2 == 1).cloned().collect(),
                ],
                // variant fields come out as tuples
                DemuxEnum => vec![
                    inp[0].iter().filter(|x| x.as_t()[0] == Val::N(0)).map(|x| Val::T(x.as_t()[1..].to_vec())).collect(),
                    inp[0].iter().filter(|x| x.as_t()[0] == Val::N(1)).map(|x| Val::T(x.as_t()[1..].to_vec())).collect(),
                ],
                // "[items]: the input items that actually changed the lattice state (deltas);
                //  [state]: a clone of the accumulated lattice value after all items are processed"
                State(p) => {
                    begin(*p, &mut st.n);
                    let mut items = vec![];
                    for x in inp[0].iter() {
                        if x.as_n() > st.n {
                            st.n = x.as_n();
                            items.push(x.clone());
                        }
                    }
                    vec![items, vec![Val::N(st.n)]]
                }
                StateBy(p) => {
                    begin(*p, &mut st.a);
                    let mut items = vec![];
                    for x in inp[0].iter() {
                        let b = x.ab().1.clone();
                        if !st.a.contains(&b) {
                            st.a.push(b);
                            st.a.sort();
                            items.push(x.clone());
                        }
                    }
                    vec![items, vec![Val::T(st.a.clone())]]
                }
                // union: some interleaving (here: port order); flagged Ms unless only one input is live
                Union | Chain => vec![inp[0].iter().chain(inp[1].iter()).cloned().collect()],
                ChainFirstN(n) => vec![inp[0].iter().chain(inp[1].iter()).take(*n).cloned().collect()],
                Join(pa, pb) | JoinMultiset(pa, pb) | CrossJoin(pa, pb) | CrossJoinMultiset(pa, pb) => {
                    begin(*pa, &mut st.a);
                    begin(*pb, &mut st.b);
                    st.a.extend(inp[0].iter().cloned());
                    st.b.extend(inp[1].iter().cloned());
                    let set = matches!(node.op, Join(..) | CrossJoin(..));
                    let keyed = matches!(node.op, Join(..) | JoinMultiset(..));
                    let (l, r) = if set { (dedup(&st.a), dedup(&st.b)) } else { (st.a.clone(), st.b.clone()) };
                    let mut o = vec![];
                    for x in &l {
                        for y in &r {
                            if keyed {
                                let (k1, v1) = x.ab();
                                let (k2, v2) = y.ab();
                                if k1 == k2 {
                                    o.push(Val::pair(k1.clone(), Val::pair(v1.clone(), v2.clone())));
                                }
                            } else {
                                o.push(Val::pair(x.clone(), y.clone()));
                            }
                        }
                    }
                    vec![o]
                }
                // build side accumulated first, probe side streams through in arrival order
                JoinMultisetHalf(pp) => {
                    let (pb, ppr) = pp.unwrap_or((P::Tick, P::Tick));
                    begin(pb, &mut st.a);
                    begin(ppr, &mut st.b);
                    st.a.extend(inp[0].iter().cloned());
                    st.b.extend(inp[1].iter().cloned());
                    let mut o = vec![];
                    for pr in &st.b {
                        let (k, vp) = pr.ab();
                        for bu in &st.a {
                            let (kb, vb) = bu.ab();
                            if k == kb {
                                o.push(Val::pair(k.clone(), Val::pair(vp.clone(), vb.clone())));
                            }
                        }
                    }
                    vec![o]
                }
                // "first performs a fold_keyed/reduce_keyed on each input stream before joining";
                // 'static == persist::<'static>() before that input.
                // Persistence arguments: for `join_fused` first -> port 0, second -> port 1 (as `join`).
                // For the half-fused forms the FIRST argument belongs to the FUSED side and the second
                // to the streaming side: `join_fused_rhs` is "identical to join_fused_lhs except that
                // it is the right hand side that is fused", and the repo's own tests
                // (surface_join_fused.rs, static_tick_lhs_streaming_rhs_blocking) pin that reading.
                // So for `join_fused_rhs::<a, b>`: a -> port 1 (fused), b -> port 0 (streaming).
                JoinFused(pa, pb) | JoinFusedLhs(pa, pb) | JoinFusedRhs(pa, pb) => {
                    let (p0, p1) = if matches!(node.op, JoinFusedRhs(..)) { (*pb, *pa) } else { (*pa, *pb) };
                    begin(p0, &mut st.a);
                    begin(p1, &mut st.b);
                    st.a.extend(inp[0].iter().cloned());
                    st.b.extend(inp[1].iter().cloned());
                    let lhs: Vec<(Val, Val)> = if matches!(node.op, JoinFused(..) | JoinFusedLhs(..)) {
                        let mut acc = vec![];
                        fused_reduce(&mut acc, &st.a);
                        acc
                    } else {
                        st.a.iter().map(|x| (x.ab().0.clone(), x.ab().1.clone())).collect()
                    };
                    let rhs: Vec<(Val, Val)> = if matches!(node.op, JoinFused(..) | JoinFusedRhs(..)) {
                        let mut acc = vec![];
                        fused_fold(&mut acc, &st.b);
                        acc
                    } else {
                        st.b.iter().map(|x| (x.ab().0.clone(), x.ab().1.clone())).collect()
                    };
                    let mut o = vec![];
                    for (k1, v1) in &lhs {
                        for (k2, v2) in &rhs {
                            if k1 == k2 {
                                o.push(Val::pair(k1.clone(), Val::pair(v1.clone(), v2.clone())));
                            }
                        }
                    }
                    vec![o]
                }
                // "items in pos that do not have matching keys in neg; multiset semantics only on pos"
                AntiJoin(pp, pn) | Difference(pp, pn) => {
                    begin(*pp, &mut st.a);
                    begin(*pn, &mut st.b);
                    st.a.extend(inp[0].iter().cloned());
                    st.b.extend(inp[1].iter().cloned());
                    let whole = matches!(node.op, Difference(..));
                    vec![st
                        .a
                        .iter()
                        .filter(|x| {
                            let k = if whole { (*x).clone() } else { x.ab().0.clone() };
                            !st.b.contains(&k)
                        })
                        .cloned()
                        .collect()]
                }
                // "ignoring everything after the first element [of single] .. joins it with all the
                //  elements in the other stream if an element is present"
                CrossSingleton(p) => {
                    assert!(p.is_none(), "cross_singleton persistence is undocumented: differential only");
                    vec![match inp[1].first() {
                        None => vec![],
                        Some(s) => inp[0].iter().map(|x| Val::pair(x.clone(), s.clone())).collect(),
                    }]
                }
                // "Within the lifetime, excess items from one input or the other will be discarded."
                Zip(pa, pb) => {
                    begin(*pa, &mut st.a);
                    begin(*pb, &mut st.b);
                    st.a.extend(inp[0].iter().cloned());
                    st.b.extend(inp[1].iter().cloned());
                    let n = st.a.len().min(st.b.len());
                    let l: Vec<Val> = st.a.drain(..n).collect();
                    let r: Vec<Val> = st.b.drain(..n).collect();
                    vec![l.into_iter().zip(r).map(|(x, y)| Val::pair(x, y)).collect()]
                }
                ZipLongest(p) => {
                    assert!(p.is_none(), "zip_longest persistence is undocumented: differential only");
                    let (l, r) = (inp[0], inp[1]);
                    let mut o = vec![];
                    for i in 0..l.len().max(r.len()) {
                        o.push(match (l.get(i), r.get(i)) {
                            (Some(x), Some(y)) => Val::T(vec![Val::N(0), x.clone(), y.clone()]),
                            (Some(x), None) => Val::T(vec![Val::N(1), x.clone()]),
                            (None, Some(y)) => Val::T(vec![Val::N(2), y.clone()]),
                            (None, None) => unreachable!(),
                        });
                    }
                    vec![o]
                }
                // "collected in order ..; when anything is sent to signal the collected data is released"
                DeferSignal => {
                    st.a.extend(inp[0].iter().cloned());
                    vec![if inp[1].is_empty() { vec![] } else { std::mem::take(&mut st.a) }]
                }
                // value of the referenced singleton after all its same-tick producers ran
                RefMap(n) => {
                    let s = &outs[*n][0];
                    assert!(s.len() == 1, "RefMap: referenced singleton holds {} items", s.len());
                    vec![inp[0].iter().map(|x| Val::pair(x.clone(), s[0].clone())).collect()]
                }
            };
            debug_assert_eq!(o.len(), node.op.n_out());
            outs.push(o);
        }
        TickOut { sinks, unspecified: sink_unspec }
    }
}

/// Run a whole history: `hist[tick][source]`. Result: `[tick][sink] -> items` and
/// `[tick][sink] -> unspecified?`.
pub fn run(prog: &Prog, hist: &[Vec<Vec<(u8, u8)>>]) -> (Vec<Vec<Vec<Val>>>, Vec<Vec<bool>>) {
    let mut it = Interp::new(prog);
    let mut tr = vec![];
    let mut un = vec![];
    for t in hist {
        let o = it.tick(t);
        tr.push(o.sinks);
        un.push(o.unspecified);
    }
    (tr, un)
}

/// Canonical form of one tick's items on one sink under the sink's comparison flag.
pub fn canon(flag: Flag, items: &[Val]) -> Vec<Val> {
    match flag {
        Flag::Seq => items.to_vec(),
        Flag::Ms => {
            let mut v = items.to_vec();
            v.sort();
            v
        }
        Flag::Runs(rk) => {
            let key = |x: &Val| -> Val {
                match rk {
                    RunKey::First => x.as_t()[0].clone(),
                    RunKey::KeyProbe => Val::pair(x.ab().0.clone(), x.ab().1.ab().0.clone()),
                }
            };
            let mut out: Vec<Val> = vec![];
            let mut i = 0;
            while i < items.len() {
                let k = key(&items[i]);
                let mut j = i;
                while j < items.len() && key(&items[j]) == k {
                    j += 1;
                }
                let mut run = items[i..j].to_vec();
                run.sort();
                out.extend(run);
                i = j;
            }
            out
        }
    }
}
