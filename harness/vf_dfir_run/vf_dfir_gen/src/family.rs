//! The bounded-exhaustive program families.
//!
//! * **Operator family** (C21, C22): every operator-under-test spec (`op_specs`) × every shape
//!   (`Shape`). The semantics-preserving shapes of one spec form a C22 group whose base is
//!   `Shape::Base`; all shapes of documented specs are C21 programs.
//! * **Blocking family** (C23): `source -> P -> blocking input` for every same-tick pipeline `P`
//!   of depth <= `C23_DEPTH` over `Stage` and every `Consumer`.
//!
//! `family()` is deterministic; program ids are indices into its result.

use crate::ast::*;

/// An operator under test with the adapters that turn `(u8,u8)` source items into its input types.
#[derive(Clone, Debug)]
pub struct OpSpec {
    pub name: String,
    pub op: Op,
    pub adapters: Vec<Option<MapFn>>,
    /// The operator's doc comment specifies this configuration (=> interpreter oracle, C21).
    /// `false`: covered only differentially (C22).
    pub documented: bool,
}

#[derive(Clone, Copy, Debug, PartialEq, Eq, Hash)]
pub enum Shape {
    /// `sources -> op -> sinks` (a unary operator ends up in pull position).
    Base,
    /// `identity()` on input edge i / on output edge 0.
    IdIn(usize),
    IdOut,
    /// `src -> tee() -> {null(), op}`: forces push on the operator's input i.
    TeeIn(usize),
    /// `op -> union() <- source_iter([])`: forces pull after the operator.
    UnionOut,
    TeeInUnionOut,
    /// `handoff()` on input edge i / on output edge 0: forces a subgraph boundary.
    HoffIn(usize),
    HoffOut,
    /// `defer_tick()` on input edge i (delays that input by one tick; C21 only).
    DeferIn(usize),
    /// input i comes through a 2-way `union()` (or `chain()` if the operator is order-sensitive
    /// there) with an extra live source (C21 only).
    UnionIn(usize),
}

impl Shape {
    pub fn preserving(self) -> bool {
        !matches!(self, Shape::DeferIn(_) | Shape::UnionIn(_))
    }
    pub fn name(self) -> String {
        match self {
            Shape::Base => "base".into(),
            Shape::IdIn(i) => format!("id_in{i}"),
            Shape::IdOut => "id_out".into(),
            Shape::TeeIn(i) => format!("tee_in{i}"),
            Shape::UnionOut => "union_out".into(),
            Shape::TeeInUnionOut => "tee_in0_union_out".into(),
            Shape::HoffIn(i) => format!("hoff_in{i}"),
            Shape::HoffOut => "hoff_out".into(),
            Shape::DeferIn(i) => format!("defer_in{i}"),
            Shape::UnionIn(i) => format!("union_in{i}"),
        }
    }
    /// Shapes applied to an operator with `n_in` inputs. Input-side shapes are applied to input 0;
    /// the push-forcing tee and the defer_tick context also to input 1 of binary operators.
    pub fn all(n_in: usize) -> Vec<Shape> {
        let mut v = vec![Shape::Base, Shape::IdIn(0), Shape::IdOut];
        for i in 0..n_in {
            v.push(Shape::TeeIn(i));
        }
        v.extend([Shape::UnionOut, Shape::TeeInUnionOut, Shape::HoffIn(0), Shape::HoffOut]);
        for i in 0..n_in {
            v.push(Shape::DeferIn(i));
        }
        v.push(Shape::UnionIn(0));
        v
    }
}

pub fn op_specs() -> Vec<OpSpec> {
    use Op::*;
    let mut v: Vec<OpSpec> = vec![];
    let mut add = |name: &str, op: Op, adapters: Vec<Option<MapFn>>, documented: bool| {
        assert_eq!(adapters.len(), op.n_in());
        v.push(OpSpec { name: name.to_string(), op, adapters, documented });
    };
    let pn = |base: &str, p: P| format!("{base}_{}", p.short());
    let pn2 = |base: &str, a: P, b: P| format!("{base}_{}{}", a.short(), b.short());

    // ---- simplest first: stateless unary -----------------------------------------------------
    add("map", Map(MapFn::SuccSwap), vec![None], true);
    add("filter", Filter, vec![None], true);
    add("filter_map", FilterMap, vec![None], true);
    add("flat_map", FlatMap, vec![None], true);
    add("flatten", Flatten, vec![Some(MapFn::Pair2)], true);
    add("inspect", Probe(1), vec![None], true);
    add("identity", Identity, vec![None], true);
    // ---- stateful unary ----------------------------------------------------------------------
    add("sort", Sort, vec![None], true);
    add("sort_by_key", SortByKey, vec![None], true);
    add("persist", Persist, vec![None], true);
    add("multiset_delta", MultisetDelta, vec![None], true);
    add("defer_tick", DeferTick, vec![None], true);
    add("defer_tick_lazy", DeferTickLazy, vec![None], true);
    for p in P::BOTH {
        add(&pn("enumerate", p), Enumerate(p), vec![None], true);
        add(&pn("unique", p), Unique(p), vec![None], true);
        add(&pn("fold", p), Fold(p, Comb::Ord), vec![None], true);
        add(&pn("fold_no_replay", p), FoldNoReplay(p, Comb::Ord), vec![None], true);
        add(&pn("reduce", p), Reduce(p, Comb::Ord), vec![None], true);
        add(&pn("reduce_no_replay", p), ReduceNoReplay(p, Comb::Ord), vec![None], true);
        add(&pn("fold_keyed", p), FoldKeyed(p, Comb::Ord), vec![None], true);
        add(&pn("reduce_keyed", p), ReduceKeyed(p, Comb::Ord), vec![None], true);
        add(&pn("scan", p), Scan(p), vec![None], true);
        add(&pn("scan_stop", p), ScanStop(p), vec![None], true);
        add(&pn("lattice_fold", p), LatticeFold(p), vec![Some(MapFn::ToMax)], true);
        add(&pn("lattice_reduce", p), LatticeReduce(p), vec![Some(MapFn::ToMax)], true);
    }
    // ---- fan-out -----------------------------------------------------------------------------
    add("tee", Tee, vec![None], true);
    add("unzip", Unzip, vec![None], true);
    add("partition", Partition, vec![None], true);
    add("demux_enum", DemuxEnum, vec![Some(MapFn::ToEnum)], true);
    for p in P::BOTH {
        add(&pn("state", p), State(p), vec![Some(MapFn::ToMax)], true);
        add(&pn("state_by", p), StateBy(p), vec![None], true);
    }
    // ---- fan-in ------------------------------------------------------------------------------
    add("union", Union, vec![None, None], true);
    add("chain", Chain, vec![None, None], true);
    add("chain_first_n", ChainFirstN(2), vec![None, None], true);
    add("defer_signal", DeferSignal, vec![None, None], true);
    add("cross_singleton", CrossSingleton(None), vec![None, None], true);
    add("zip_longest", ZipLongest(None), vec![None, None], true);
    add("join_multiset_half", JoinMultisetHalf(None), vec![None, None], true);
    // persistence arguments these operators accept but do not document: differential only
    for p in P::BOTH {
        add(&pn("cross_singleton", p), CrossSingleton(Some(p)), vec![None, None], false);
        if p == P::Tick {
            // (`zip_longest::<'static>` is rejected with the diagnostic "can only have 'tick persistence")
            add(&pn("zip_longest", p), ZipLongest(Some(p)), vec![None, None], false);
        }
    }
    for a in P::BOTH {
        for b in P::BOTH {
            add(&pn2("join", a, b), Join(a, b), vec![None, None], true);
            add(&pn2("join_multiset", a, b), JoinMultiset(a, b), vec![None, None], true);
            add(&pn2("cross_join", a, b), CrossJoin(a, b), vec![None, None], true);
            add(&pn2("cross_join_multiset", a, b), CrossJoinMultiset(a, b), vec![None, None], true);
            add(&pn2("anti_join", a, b), AntiJoin(a, b), vec![None, Some(MapFn::Key)], true);
            add(&pn2("difference", a, b), Difference(a, b), vec![None, None], true);
            add(&pn2("zip", a, b), Zip(a, b), vec![None, None], true);
            add(&pn2("join_fused", a, b), JoinFused(a, b), vec![None, None], true);
            add(&pn2("join_fused_lhs", a, b), JoinFusedLhs(a, b), vec![None, None], true);
            add(&pn2("join_fused_rhs", a, b), JoinFusedRhs(a, b), vec![None, None], true);
            add(&pn2("join_multiset_half", a, b), JoinMultisetHalf(Some((a, b))), vec![None, None], false);
        }
    }
    v
}

/// Build the program of `spec` in `shape`.
pub fn build_op_prog(spec: &OpSpec, shape: Shape) -> Prog {
    fn go(spec: &OpSpec, shape: Shape, use_chain: bool) -> Prog {
        use Op::*;
        let n_in = spec.op.n_in();
        let n_out = spec.op.n_out();
        let mut p = Prog::default();
        let mut next_src = n_in;
        let mut ins = vec![];
        for i in 0..n_in {
            let mut e = (p.push(Src(i), vec![]), 0);
            let tee_here = matches!(shape, Shape::TeeIn(j) if j == i) || (shape == Shape::TeeInUnionOut && i == 0);
            if shape == Shape::IdIn(i) {
                e = (p.push(Identity, vec![e]), 0);
            } else if tee_here {
                let t = p.push(Tee, vec![e]);
                p.push(Null, vec![(t, 0)]);
                e = (t, 1);
            } else if shape == Shape::HoffIn(i) {
                e = (p.push(Handoff, vec![e]), 0);
            } else if shape == Shape::DeferIn(i) {
                e = (p.push(DeferTick, vec![e]), 0);
            } else if shape == Shape::UnionIn(i) {
                let extra = p.push(Src(next_src), vec![]);
                next_src += 1;
                e = (p.push(if use_chain { Chain } else { Union }, vec![e, (extra, 0)]), 0);
            }
            if let Some(f) = spec.adapters[i] {
                e = (p.push(Map(f), vec![e]), 0);
            }
            ins.push(e);
        }
        let opn = p.push(spec.op.clone(), ins);
        for j in 0..n_out {
            let mut e = (opn, j);
            if j == 0 {
                match shape {
                    Shape::IdOut => e = (p.push(Identity, vec![e]), 0),
                    Shape::HoffOut => e = (p.push(Handoff, vec![e]), 0),
                    Shape::UnionOut | Shape::TeeInUnionOut => {
                        let em = p.push(Empty, vec![]);
                        e = (p.push(Union, vec![e, (em, 0)]), 0);
                    }
                    _ => {}
                }
            }
            p.push(Sink(j), vec![e]);
        }
        p
    }
    let p = go(spec, shape, false);
    if p.check_discipline().is_ok() {
        return p;
    }
    let p = go(spec, shape, true);
    p.check_discipline().unwrap_or_else(|e| panic!("{} / {:?}: {e}", spec.name, shape));
    p
}

// ------------------------------------------------------------------------------------------------
// C23
// ------------------------------------------------------------------------------------------------

/// Maximum pipeline depth of the compiled C23 family.
pub const C23_DEPTH: usize = 2;

#[derive(Clone, Copy, Debug, PartialEq, Eq, Hash)]
pub enum Stage {
    Map,
    /// 2-way `union()` with a second live source.
    Union2,
    /// `tee()` whose other branch ends in `null()`.
    Tee,
    /// `handoff()`.
    Handoff,
    Unique,
    FlatMap,
}
pub const STAGES: [Stage; 6] = [Stage::Map, Stage::Union2, Stage::Tee, Stage::Handoff, Stage::Unique, Stage::FlatMap];

#[derive(Clone, Copy, Debug, PartialEq, Eq, Hash)]
pub enum Consumer {
    AntiJoinNeg,
    DifferenceNeg,
    Fold,
    Reduce,
    FoldKeyed,
    Sort,
    Persist,
    CrossSingletonSingle,
    FoldRef,
}
pub const CONSUMERS: [Consumer; 9] = [
    Consumer::AntiJoinNeg,
    Consumer::DifferenceNeg,
    Consumer::Fold,
    Consumer::Reduce,
    Consumer::FoldKeyed,
    Consumer::Sort,
    Consumer::Persist,
    Consumer::CrossSingletonSingle,
    Consumer::FoldRef,
];

pub fn pipelines(max_depth: usize) -> Vec<Vec<Stage>> {
    let mut out: Vec<Vec<Stage>> = vec![vec![]];
    let mut layer: Vec<Vec<Stage>> = vec![vec![]];
    for _ in 0..max_depth {
        let mut next = vec![];
        for p in &layer {
            for s in STAGES {
                // "Adjacent handoff/singleton operators are not allowed" is a documented diagnostic.
                if s == Stage::Handoff && p.last() == Some(&Stage::Handoff) {
                    continue;
                }
                let mut q = p.clone();
                q.push(s);
                next.push(q);
            }
        }
        out.extend(next.iter().cloned());
        layer = next;
    }
    out
}

/// `source 0 -> P -> blocking input`; sink 0 = the consumer's output; for the negative-side
/// consumers sink 1 = a probe recording what actually entered `neg`.
pub fn build_blocking_prog(pipe: &[Stage], cons: Consumer) -> Prog {
    use Op::*;
    let mut p = Prog::default();
    let mut next_src = 1;
    let mut e = (p.push(Src(0), vec![]), 0);
    for st in pipe {
        e = match st {
            Stage::Map => (p.push(Map(MapFn::Swap), vec![e]), 0),
            Stage::Union2 => {
                let s = p.push(Src(next_src), vec![]);
                next_src += 1;
                (p.push(Union, vec![e, (s, 0)]), 0)
            }
            Stage::Tee => {
                let t = p.push(Tee, vec![e]);
                p.push(Null, vec![(t, 0)]);
                (t, 1)
            }
            Stage::Handoff => (p.push(Handoff, vec![e]), 0),
            Stage::Unique => (p.push(Unique(P::Tick), vec![e]), 0),
            Stage::FlatMap => (p.push(FlatMap, vec![e]), 0),
        };
    }
    let ms = p.flags()[e.0][e.1] != Flag::Seq;
    let comb = if ms { Comb::Comm } else { Comb::Ord };
    match cons {
        Consumer::AntiJoinNeg | Consumer::DifferenceNeg => {
            let pos = p.push(Src(next_src), vec![]);
            if cons == Consumer::AntiJoinNeg {
                e = (p.push(Map(MapFn::Key), vec![e]), 0);
            }
            let pr = p.push(Probe(1), vec![e]);
            let op = if cons == Consumer::AntiJoinNeg { AntiJoin(P::Tick, P::Tick) } else { Difference(P::Tick, P::Tick) };
            let aj = p.push(op, vec![(pos, 0), (pr, 0)]);
            p.un(Sink(0), aj);
        }
        Consumer::Fold => {
            let f = p.push(Fold(P::Tick, comb), vec![e]);
            p.un(Sink(0), f);
        }
        Consumer::Reduce => {
            let f = p.push(Reduce(P::Tick, comb), vec![e]);
            p.un(Sink(0), f);
        }
        Consumer::FoldKeyed => {
            let f = p.push(FoldKeyed(P::Tick, comb), vec![e]);
            p.un(Sink(0), f);
        }
        Consumer::Sort => {
            let f = p.push(Sort, vec![e]);
            p.un(Sink(0), f);
        }
        Consumer::Persist => {
            let f = p.push(Persist, vec![e]);
            p.un(Sink(0), f);
        }
        Consumer::CrossSingletonSingle => {
            let inp = p.push(Src(next_src), vec![]);
            if ms {
                // which item is "first" is unspecified on an unordered edge: make all items equal
                e = (p.push(Map(MapFn::Const), vec![e]), 0);
            }
            let cs = p.push(CrossSingleton(None), vec![(inp, 0), e]);
            p.un(Sink(0), cs);
        }
        Consumer::FoldRef => {
            let rd = p.push(Src(next_src), vec![]);
            let f = p.push(Fold(P::Tick, comb), vec![e]);
            let s = p.un(Singleton, f);
            let m = p.un(RefMap(s), rd);
            p.un(Sink(0), m);
        }
    }
    p.check_discipline().unwrap_or_else(|err| panic!("C23 {:?}/{:?}: {err}", pipe, cons));
    p
}

// ------------------------------------------------------------------------------------------------

#[derive(Clone, Debug)]
pub enum Kind {
    /// operator family member
    Op { spec: usize, shape: Shape, documented: bool },
    /// blocking family member
    Blocking { pipe: Vec<Stage>, cons: Consumer },
}

#[derive(Clone, Debug)]
pub struct ProgSpec {
    pub id: usize,
    pub name: String,
    pub prog: Prog,
    pub kind: Kind,
}

/// Programs that `dfir_lang` accepts but whose expansion rustc rejects with E0282 ("type
/// annotations needed") although the item types are fully determined by the typed source and the
/// typed sink: the operator's generated closure is type-checked before the surrounding pipeline
/// pins its item type. Such a program cannot be part of a compiled family (it would break the
/// shard build), so it is excluded here and listed in the engine's report as a compile-agreement
/// observation for C22 (base shape compiles, this shape does not).
pub fn rustc_cannot_infer(spec_name: &str, shape: Shape) -> bool {
    match shape {
        // push-side `multiset_delta` (behind a tee) and `multiset_delta` reading a defer_tick buffer
        Shape::TeeIn(0) | Shape::TeeInUnionOut | Shape::DeferIn(0) if spec_name == "multiset_delta" => true,
        // the non-fused input of join_fused_lhs / join_fused_rhs reading a defer_tick buffer
        Shape::DeferIn(1) if spec_name.starts_with("join_fused_lhs_") => true,
        Shape::DeferIn(0) if spec_name.starts_with("join_fused_rhs_") => true,
        _ => false,
    }
}

/// Names (and programs) of the excluded shape variants, for the C22 observation list.
pub fn excluded_rustc() -> Vec<(String, Prog)> {
    let mut out = vec![];
    for spec in op_specs() {
        for shape in Shape::all(spec.op.n_in()) {
            if rustc_cannot_infer(&spec.name, shape) {
                out.push((format!("{}/{}", spec.name, shape.name()), build_op_prog(&spec, shape)));
            }
        }
    }
    out
}

/// Development aid: building with `VF_DFIR_SUBSET=1` in the environment compiles only the base
/// shapes and the depth-0 blocking programs (fast turnaround while editing operator templates).
/// The registered checks are built without it.
const SUBSET: bool = option_env!("VF_DFIR_SUBSET").is_some();

pub fn family() -> Vec<ProgSpec> {
    let mut out: Vec<ProgSpec> = vec![];
    for (si, spec) in op_specs().iter().enumerate() {
        for shape in Shape::all(spec.op.n_in()) {
            if SUBSET && shape != Shape::Base {
                continue;
            }
            if rustc_cannot_infer(&spec.name, shape) {
                continue;
            }
            if !spec.documented && !shape.preserving() {
                // undocumented configurations are covered differentially (C22) only
                continue;
            }
            let prog = build_op_prog(spec, shape);
            out.push(ProgSpec {
                id: out.len(),
                name: format!("{}/{}", spec.name, shape.name()),
                prog,
                kind: Kind::Op { spec: si, shape, documented: spec.documented },
            });
        }
    }
    for pipe in pipelines(if SUBSET { 0 } else { C23_DEPTH }) {
        for cons in CONSUMERS {
            let prog = build_blocking_prog(&pipe, cons);
            let pn = if pipe.is_empty() { "direct".to_string() } else { pipe.iter().map(|s| format!("{s:?}")).collect::<Vec<_>>().join(">") };
            out.push(ProgSpec { id: out.len(), name: format!("blocking/{pn}/{cons:?}"), prog, kind: Kind::Blocking { pipe: pipe.clone(), cons } });
        }
    }
    out
}
