//! Library-level compile check: the same pipeline `dfir_syntax!` runs (parse -> flat graph ->
//! `eliminate_extra_unions_tees` -> `partition_graph` -> `as_code`), without rustc.

use crate::ast::Prog;
use crate::print::dfir_source;

/// `Ok(())` if `dfir_lang` accepts the program and produces code; `Err(text)` with the
/// diagnostics (or panic message) otherwise.
pub fn lib_compile(p: &Prog) -> Result<(), String> {
    let src = dfir_source(p);
    let r = std::panic::catch_unwind(|| -> Result<(), String> {
        let code: dfir_lang::parse::DfirCode = syn::parse_str(&src).map_err(|e| format!("parse error: {e}"))?;
        let root = quote::quote! { dfir_rs };
        match dfir_lang::graph::build_dfir_code(code, &root) {
            Ok(out) => {
                if out.diagnostics.has_error() {
                    Err(format!("diagnostics with error: {:?}", out.diagnostics))
                } else {
                    Ok(())
                }
            }
            Err(d) => Err(format!("{:?}", d)),
        }
    });
    match r {
        Ok(x) => x,
        Err(e) => Err(format!(
            "panic: {}",
            e.downcast_ref::<String>().cloned().or_else(|| e.downcast_ref::<&str>().map(|s| s.to_string())).unwrap_or_default()
        )),
    }
}
