//! Dynamically typed value used by the reference interpreter and by the recording sinks.
//!
//! Encoding of Rust values (see `vf_dfir_rt::ToVal`): integers -> `N`; tuples, arrays, `Vec`s
//! and sets (in their sorted iteration order) -> `T`; `Option` -> `T[]`/`T[x]`;
//! `EitherOrBoth::{Both(a,b), Left(a), Right(b)}` -> `T[N(0),a,b]`, `T[N(1),a]`, `T[N(2),b]`.
//! The derived `Ord` is lexicographic, i.e. it agrees with Rust's ordering of same-shaped tuples.

#[derive(Clone, Debug, PartialEq, Eq, PartialOrd, Ord, Hash)]
pub enum Val {
    N(u64),
    T(Vec<Val>),
}

impl Val {
    pub fn n(x: u64) -> Val {
        Val::N(x)
    }
    pub fn pair(a: Val, b: Val) -> Val {
        Val::T(vec![a, b])
    }
    pub fn kv(a: u8, b: u8) -> Val {
        Val::T(vec![Val::N(a as u64), Val::N(b as u64)])
    }
    pub fn as_n(&self) -> u64 {
        match self {
            Val::N(x) => *x,
            _ => panic!("Val::as_n on {:?}", self),
        }
    }
    pub fn as_t(&self) -> &[Val] {
        match self {
            Val::T(x) => x,
            _ => panic!("Val::as_t on {:?}", self),
        }
    }
    /// `(a, b)` components of a 2-tuple.
    pub fn ab(&self) -> (&Val, &Val) {
        let t = self.as_t();
        assert!(t.len() == 2, "Val::ab on {:?}", self);
        (&t[0], &t[1])
    }
    /// Both components of a `(u8,u8)` item.
    pub fn u8s(&self) -> (u8, u8) {
        let (a, b) = self.ab();
        (a.as_n() as u8, b.as_n() as u8)
    }
    /// Compact text form, e.g. `(0,(1,2))`.
    pub fn show(&self) -> String {
        match self {
            Val::N(x) => x.to_string(),
            Val::T(v) => format!("({})", v.iter().map(|x| x.show()).collect::<Vec<_>>().join(",")),
        }
    }
}

pub fn show_seq(v: &[Val]) -> String {
    format!("[{}]", v.iter().map(|x| x.show()).collect::<Vec<_>>().join(", "))
}
