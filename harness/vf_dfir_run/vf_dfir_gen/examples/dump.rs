//! Developer tool: list the program family, run the library-level compile check on every program,
//! optionally print one program (`dump <id|name>`).
use vf_dfir_gen::{family, libcheck, print};
fn main() {
    let fam = family::family();
    let arg = std::env::args().nth(1);
    if arg.as_deref() == Some("excluded") {
        for (name, prog) in family::excluded_rustc() {
            println!("// EXCLUDED (rustc E0282) {name}\n{}// lib: {:?}\n", print::dfir_source(&prog), libcheck::lib_compile(&prog));
        }
        return;
    }
    if let Some(a) = &arg {
        for ps in &fam {
            if a.parse::<usize>().ok() == Some(ps.id) || &ps.name == a {
                println!("// {} {}\n{}", ps.id, ps.name, print::dfir_source(&ps.prog));
                println!("// sources={} sinks={} flags={:?}", ps.prog.n_sources(), ps.prog.n_sinks(), ps.prog.sink_flags());
                println!("// lib: {:?}", libcheck::lib_compile(&ps.prog));
            }
        }
        return;
    }
    let mut bad = 0;
    for ps in &fam {
        if let Err(e) = libcheck::lib_compile(&ps.prog) {
            bad += 1;
            println!("REJECTED {} {}: {}", ps.id, ps.name, &e[..e.len().min(300)]);
        }
    }
    let nb = fam.iter().filter(|p| matches!(p.kind, family::Kind::Blocking { .. })).count();
    println!("{} programs ({} operator family, {} blocking family), {} rejected at library level", fam.len(), fam.len() - nb, nb, bad);
}
