//! Runtime support linked into the generated program shards: recording sinks, the tick driver,
//! and the `ToVal` encoding of the Rust values that flow out of DFIR operators.

use std::cell::{Cell, RefCell};

pub use vf_dfir_gen::hist::{Hist, Item};
pub use vf_dfir_gen::val::Val;

/// `(sink index, tick, item)` in emission order.
pub type Out = Vec<(usize, usize, Val)>;

pub struct Entry {
    pub id: usize,
    pub name: &'static str,
    /// The `dfir_syntax!` body the function was compiled from.
    pub src: &'static str,
    /// Accepted by `dfir_lang` at the library level when the shard was built.
    pub lib_ok: bool,
    pub lib_err: &'static str,
    pub run: fn(&Hist) -> Out,
}

/// Recording target shared (by reference) by all sinks/probes of one program instance.
pub struct Rec {
    tick: Cell<usize>,
    items: RefCell<Out>,
}
impl Rec {
    #[allow(clippy::new_without_default)]
    pub fn new() -> Self {
        Rec { tick: Cell::new(0), items: RefCell::new(Vec::new()) }
    }
    pub fn push<T: ToVal>(&self, sink: usize, x: &T) {
        self.items.borrow_mut().push((sink, self.tick.get(), x.to_val()));
    }
}

/// Feed the history tick by tick: send the tick's items into the source channels, run exactly
/// one tick, and attribute everything the sinks record to that tick.
pub fn drive(
    h: &Hist,
    txs: &[&dfir_rs::tokio::sync::mpsc::UnboundedSender<Item>],
    rec: &Rec,
    mut run_tick: impl FnMut(),
) -> Out {
    for (t, per_source) in h.iter().enumerate() {
        for (s, items) in per_source.iter().enumerate() {
            if let Some(tx) = txs.get(s) {
                for it in items {
                    tx.send(*it).expect("source channel closed");
                }
            } else {
                assert!(items.is_empty(), "history addresses source {s} which the program does not have");
            }
        }
        rec.tick.set(t);
        run_tick();
    }
    rec.items.take()
}

/// Input type of the `demux_enum` program.
#[derive(dfir_rs::DemuxEnum, Clone, Debug)]
pub enum Kv2 {
    Zero(u8),
    One(u8, u8),
}

pub trait ToVal {
    fn to_val(&self) -> Val;
}
macro_rules! int_to_val {
    ($($t:ty),*) => { $( impl ToVal for $t { fn to_val(&self) -> Val { Val::N(*self as u64) } } )* };
}
// (`enumerate()`'s index type is inferred; without an annotation it defaults to `i32`)
int_to_val!(u8, u16, u32, u64, usize, i32, i64);
impl<T: ToVal + ?Sized> ToVal for &T {
    fn to_val(&self) -> Val {
        (**self).to_val()
    }
}
impl<A: ToVal> ToVal for (A,) {
    fn to_val(&self) -> Val {
        Val::T(vec![self.0.to_val()])
    }
}
impl<A: ToVal, B: ToVal> ToVal for (A, B) {
    fn to_val(&self) -> Val {
        Val::T(vec![self.0.to_val(), self.1.to_val()])
    }
}
impl<A: ToVal, B: ToVal, C: ToVal> ToVal for (A, B, C) {
    fn to_val(&self) -> Val {
        Val::T(vec![self.0.to_val(), self.1.to_val(), self.2.to_val()])
    }
}
impl<T: ToVal> ToVal for Vec<T> {
    fn to_val(&self) -> Val {
        Val::T(self.iter().map(|x| x.to_val()).collect())
    }
}
impl<T: ToVal, const N: usize> ToVal for [T; N] {
    fn to_val(&self) -> Val {
        Val::T(self.iter().map(|x| x.to_val()).collect())
    }
}
impl<T: ToVal> ToVal for Option<T> {
    fn to_val(&self) -> Val {
        Val::T(self.iter().map(|x| x.to_val()).collect())
    }
}
impl<A: ToVal, B: ToVal> ToVal for dfir_rs::itertools::EitherOrBoth<A, B> {
    fn to_val(&self) -> Val {
        use dfir_rs::itertools::EitherOrBoth::*;
        match self {
            Both(a, b) => Val::T(vec![Val::N(0), a.to_val(), b.to_val()]),
            Left(a) => Val::T(vec![Val::N(1), a.to_val()]),
            Right(b) => Val::T(vec![Val::N(2), b.to_val()]),
        }
    }
}
impl<T: ToVal> ToVal for dfir_rs::lattices::Max<T> {
    fn to_val(&self) -> Val {
        self.as_reveal_ref().to_val()
    }
}
impl<T: ToVal + Ord> ToVal for dfir_rs::lattices::set_union::SetUnionBTreeSet<T> {
    fn to_val(&self) -> Val {
        Val::T(self.as_reveal_ref().iter().map(|x| x.to_val()).collect())
    }
}
impl<T: ToVal> ToVal for dfir_rs::lattices::set_union::SetUnionSingletonSet<T> {
    fn to_val(&self) -> Val {
        Val::T(vec![self.as_reveal_ref().0.to_val()])
    }
}
