//! Engine B (C27): loom over the REAL `Dfir::run()` / `WakeState` wake protocol, reached through
//! hook H1 (`dfir_rs::scheduled::verif_sync`). See DESIGN.md §3 C27.
//!
//! Parent process: for each variant spawns itself as a child (`--child <variant> <bound>`), because
//! a loom failure may abort the process. The child prints `LOOM-EXECUTIONS n`, and on an oracle
//! failure `LOOM-VIOLATION <json>` and exits 101.
use std::future::Future;
use std::pin::Pin;
use std::rc::Rc;
use std::sync::Arc as StdArc;
use std::sync::atomic::Ordering as O;
use std::task::{Context as TaskCx, Poll, Wake, Waker};

use dfir_rs::scheduled::context::{Context, Dfir, WakeState};
use dfir_rs::scheduled::verif_sync::{CellOps, Factory, FlagOps, install};
use loom::sync::atomic::{AtomicBool, AtomicUsize};
use loom::sync::{Arc, Mutex, Notify};
use vf_explore::{Report, Stats, cli, json};

// ---------------------------------------------------------------------------------------------
// loom-backed seam objects
// ---------------------------------------------------------------------------------------------

/// Every operation is an RMW so that the location's coherence order equals the explored
/// interleaving order (loom 0.7.2 otherwise reports stale loads across an RMW; DESIGN §3 C27).
struct LoomFlag(AtomicBool);
impl FlagOps for LoomFlag {
    fn load(&self, _o: O) -> bool {
        self.0.fetch_or(false, O::SeqCst)
    }
    fn store(&self, v: bool, _o: O) {
        self.0.swap(v, O::SeqCst);
    }
    fn swap(&self, v: bool, _o: O) -> bool {
        self.0.swap(v, O::SeqCst)
    }
}
struct LoomCell(loom::future::AtomicWaker);
impl CellOps for LoomCell {
    fn register(&self, w: &Waker) {
        self.0.register_by_ref(w)
    }
    fn wake(&self) {
        self.0.wake()
    }
}
fn mk_flag(v: bool) -> Box<dyn FlagOps> {
    Box::new(LoomFlag(AtomicBool::new(v)))
}
fn mk_cell() -> Box<dyn CellOps> {
    Box::new(LoomCell(loom::future::AtomicWaker::new()))
}

// ---------------------------------------------------------------------------------------------
// runner-side waker: sets `woken`, notifies the runner thread
// ---------------------------------------------------------------------------------------------
struct RunnerWake {
    woken: AtomicBool,
    notify: Notify,
}
impl Wake for RunnerWake {
    fn wake(self: StdArc<Self>) {
        self.wake_by_ref()
    }
    fn wake_by_ref(self: &StdArc<Self>) {
        self.woken.swap(true, O::SeqCst);
        self.notify.notify();
    }
}

#[derive(Clone, Copy)]
struct Variant {
    name: &'static str,
    /// number of external waker threads
    wakers: usize,
    /// wake events per waker thread
    events: usize,
    /// the first tick calls `schedule_subgraph(true)` from inside the tick
    internal_wake: bool,
}

const VARIANTS: &[Variant] = &[
    Variant { name: "one_waker", wakers: 1, events: 1, internal_wake: false },
    Variant { name: "one_waker_internal", wakers: 1, events: 1, internal_wake: true },
    Variant { name: "one_waker_two_events", wakers: 1, events: 2, internal_wake: false },
    Variant { name: "two_wakers", wakers: 2, events: 1, internal_wake: false },
];

static EXECS: std::sync::atomic::AtomicU64 = std::sync::atomic::AtomicU64::new(0);
static OUTCOMES: std::sync::Mutex<std::collections::BTreeSet<String>> =
    std::sync::Mutex::new(std::collections::BTreeSet::new());

fn model_body(v: Variant) {
    EXECS.fetch_add(1, O::SeqCst);
    let ticks_started = Arc::new(AtomicUsize::new(0));
    let inbox: Arc<Mutex<Vec<u32>>> = Arc::new(Mutex::new(Vec::new()));
    let consumed: Arc<Mutex<Vec<u32>>> = Arc::new(Mutex::new(Vec::new()));

    let wake_state = StdArc::new(WakeState::default());
    let context = Context::new(wake_state.clone(), Rc::new(Default::default()));
    let ext_waker: Waker = context.waker(); // the real `impl Wake for WakeState`

    let ts = ticks_started.clone();
    let ib = inbox.clone();
    let cs = consumed.clone();
    let internal = v.internal_wake;
    let tick = async move |ctx: &mut Context| -> bool {
        let n = ts.fetch_add(1, O::SeqCst);
        if internal && n == 0 {
            ctx.schedule_subgraph(true);
        }
        let items: Vec<u32> = std::mem::take(&mut *ib.lock().unwrap());
        let had = !items.is_empty();
        cs.lock().unwrap().extend(items);
        ctx.__end_tick();
        had
    };
    let mut df = Dfir::new(tick, context, None, None);

    let rw = StdArc::new(RunnerWake { woken: AtomicBool::new(false), notify: Notify::new() });
    let done = Arc::new(AtomicUsize::new(0));
    let t0s: Arc<Mutex<Vec<(u32, usize)>>> = Arc::new(Mutex::new(Vec::new()));

    let mut handles = vec![];
    for w in 0..v.wakers {
        let (ib, ts, t0s, done, rw2, ew) =
            (inbox.clone(), ticks_started.clone(), t0s.clone(), done.clone(), rw.clone(), ext_waker.clone());
        let events = v.events;
        handles.push(loom::thread::spawn(move || {
            for e in 0..events {
                let datum = (w * 10 + e) as u32;
                ib.lock().unwrap().push(datum);
                // the datum is visible; a tick must START after this point
                let t0 = ts.load(O::SeqCst);
                ew.wake_by_ref();
                t0s.lock().unwrap().push((datum, t0));
            }
            done.fetch_add(1, O::SeqCst);
            // Only notify: never set `woken`, never cause a re-poll (would mask a lost wake-up).
            rw2.notify.notify();
        }));
    }

    {
        let waker = Waker::from(rw.clone());
        let mut cx = TaskCx::from_waker(&waker);
        let mut fut: Pin<Box<dyn Future<Output = dfir_rs::Never> + '_>> = Box::pin(df.run());
        loop {
            match fut.as_mut().poll(&mut cx) {
                Poll::Pending => {}
                Poll::Ready(_) => unreachable!(),
            }
            loop {
                // read `done` BEFORE `woken`
                let d = done.load(O::SeqCst) == v.wakers;
                if rw.woken.swap(false, O::SeqCst) {
                    break; // poll again
                }
                if d {
                    // all wake events issued, runner idle and un-woken: horizon reached
                    drop(fut);
                    for h in handles {
                        h.join().unwrap();
                    }
                    let tf = ticks_started.load(O::SeqCst);
                    let t0s = t0s.lock().unwrap().clone();
                    let cons = consumed.lock().unwrap().clone();
                    let mut key = format!("tf={tf}");
                    for (d, t0) in &t0s {
                        key.push_str(&format!(" d{d}@{t0}"));
                    }
                    OUTCOMES.lock().unwrap().insert(key);
                    let mut bad = vec![];
                    for (d, t0) in &t0s {
                        if tf <= *t0 {
                            bad.push(format!("datum {d}: visible at ticks_started={t0}, final ticks_started={tf} (no tick started after the wake)"));
                        }
                        if !cons.contains(d) {
                            bad.push(format!("datum {d} never consumed by any tick"));
                        }
                    }
                    if internal && tf < 2 {
                        bad.push(format!("schedule_subgraph(true) inside tick 0 but only {tf} tick(s) ran"));
                    }
                    if !bad.is_empty() {
                        println!(
                            "LOOM-VIOLATION {}",
                            json!({"variant": v.name, "execution": EXECS.load(O::SeqCst), "what": bad, "t0s": t0s, "ticks_final": tf})
                        );
                        std::process::exit(101);
                    }
                    return;
                }
                rw.notify.wait();
            }
        }
    }
}

fn child(vname: &str, bound: &str) -> ! {
    let v = *VARIANTS.iter().find(|v| v.name == vname).expect("variant");
    install(Some(Factory { flag: mk_flag, cell: mk_cell }));
    let mut b = loom::model::Builder::new();
    b.preemption_bound = if bound == "none" { None } else { Some(bound.parse().unwrap()) };
    b.max_branches = 100_000;
    if let Ok(s) = std::env::var("VF_LOOM_MAX_SECS") {
        b.max_duration = Some(std::time::Duration::from_secs(s.parse().unwrap()));
    }
    let t = std::time::Instant::now();
    b.check(move || model_body(v));
    let capped = b.max_duration.is_some_and(|d| t.elapsed() >= d);
    println!("LOOM-EXECUTIONS {}", EXECS.load(O::SeqCst));
    println!("LOOM-OUTCOMES {}", json!(OUTCOMES.lock().unwrap().iter().collect::<Vec<_>>()));
    if capped {
        println!("LOOM-CAPPED wall");
    }
    std::process::exit(0);
}

fn run_child(v: &Variant, bound: &str, max_secs: Option<u64>) -> (i32, String) {
    let exe = std::env::current_exe().unwrap();
    let mut c = std::process::Command::new(exe);
    c.args(["--child", v.name, bound]);
    if let Some(s) = max_secs {
        c.env("VF_LOOM_MAX_SECS", s.to_string());
    }
    let out = c.output().expect("spawn child");
    (out.status.code().unwrap_or(-1), String::from_utf8_lossy(&out.stdout).to_string()
        + &String::from_utf8_lossy(&out.stderr))
}

fn main() {
    let args: Vec<String> = std::env::args().collect();
    if args.len() >= 4 && args[1] == "--child" {
        child(&args[2], &args[3]);
    }
    let cli = cli();
    assert_eq!(cli.property, "C27", "vf_loom serves C27 only");
    let mut rep = Report::new("C27", &cli.tier, "vf_loom");
    rep.rule = "loom DPOR over all interleavings (within the stated preemption bound) of the real Dfir::run() future on the runner thread with external waker threads calling the real WakeState waker; a case = one complete loom execution; distinct = distinct (final tick count, tick count at each wake) outcomes".into();
    rep.explanation = "oracle: for every wake event a tick STARTED after the datum was visible (ticks_started_final > t0) and the datum was consumed; an in-tick schedule_subgraph(true) causes a further tick".into();
    rep.assume("flag operations are modelled as RMWs: all interleavings under per-location sequential consistency, not weaker-than-SC reorderings");
    rep.assume("loom::future::AtomicWaker stands in for futures::task::AtomicWaker (trusted base)");
    rep.assume("tokio::task::yield_now outside a runtime wakes the task immediately (observed behaviour of the pinned tokio)");

    // (variant, bound, wall cap)
    let plan: Vec<(usize, &str, Option<u64>)> = if let Some(rp) = &cli.replay {
        let v: vf_explore::Value = vf_explore::serde_json::from_str(&std::fs::read_to_string(rp).unwrap()).unwrap();
        let name = v["case"]["variant"].as_str().unwrap().to_string();
        let bound: String = v["case"]["bound"].as_str().unwrap().to_string();
        let i = VARIANTS.iter().position(|x| x.name == name).unwrap();
        vec![(i, Box::leak(bound.into_boxed_str()), None)]
    } else if rep.thorough() {
        vec![(0, "none", Some(600)), (1, "none", Some(600)), (2, "4", Some(600)), (3, "3", Some(900))]
    } else {
        vec![(0, "3", Some(60)), (1, "3", Some(60)), (2, "2", Some(60)), (3, "2", Some(60))]
    };
    rep.bound("plan", json!(plan.iter().map(|(i, b, c)| json!({"variant": VARIANTS[*i].name, "preemption_bound": b, "wall_cap_s": c})).collect::<Vec<_>>()));

    let results: Vec<(usize, &str, (i32, String))> = std::thread::scope(|s| {
        let hs: Vec<_> = plan
            .iter()
            .map(|(i, b, c)| {
                let (i, b, c) = (*i, *b, *c);
                s.spawn(move || (i, b, run_child(&VARIANTS[i], b, c)))
            })
            .collect();
        hs.into_iter().map(|h| h.join().unwrap()).collect()
    });

    for (i, bound, (code, out)) in results {
        let v = &VARIANTS[i];
        let mut st = Stats::new();
        let execs: u64 = out
            .lines()
            .find_map(|l| l.strip_prefix("LOOM-EXECUTIONS "))
            .and_then(|s| s.trim().parse().ok())
            .unwrap_or(0);
        st.evaluations = execs;
        st.states = execs;
        st.transitions = execs;
        st.traces = execs;
        if let Some(l) = out.lines().find_map(|l| l.strip_prefix("LOOM-OUTCOMES ")) {
            if let Ok(vf_explore::Value::Array(a)) = vf_explore::serde_json::from_str::<vf_explore::Value>(l) {
                for o in &a {
                    st.outcome(&(v.name, o.to_string()));
                    st.nontrivial(&(v.name, o.to_string()));
                }
                st.sample(|| json!({"variant": v.name, "preemption_bound": bound, "executions": execs, "outcomes": a.iter().take(4).collect::<Vec<_>>()}));
            }
        }
        if out.lines().any(|l| l.starts_with("LOOM-CAPPED")) {
            st.cap(format!("variant {} bound {}: wall cap reached after {} executions", v.name, bound, execs));
        }
        if let Some(l) = out.lines().find_map(|l| l.strip_prefix("LOOM-VIOLATION ")) {
            let detail: vf_explore::Value = vf_explore::serde_json::from_str(l).unwrap_or(json!(l));
            st.evaluations = st.evaluations.max(1);
            st.violation(
                format!("missed-wake:{}", v.name),
                format!("variant {} (preemption bound {}): {}", v.name, bound, detail["what"]),
                json!({"variant": v.name, "bound": bound, "detail": detail}),
            );
        } else if code != 0 {
            println!("MACHINERY-ERROR: loom child for variant {} exited with {} :\n{}", v.name, code, &out[out.len().saturating_sub(3000)..]);
            std::process::exit(2);
        }
        rep.section(v.name, st);
    }
    rep.finish();
}
