//! Hydro programs for engine E2 (C30 / C35 / C41). Ordinary `pub fn`s with `q!` closures; the
//! `emb` crate's build.rs instantiates them and runs the production embedded code generator.
#[cfg(stageleft_runtime)]
hydro_lang::setup!();

pub mod net;
pub mod tickops;
pub mod top;
