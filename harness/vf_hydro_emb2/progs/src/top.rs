//! C41: top-level (unbounded) operator family `U : Stream<i32, Process> -> Stream<i32, Process>`
//! and structural stressors. Only "does the production code generator accept it, does the
//! generated Rust compile, does it run without panicking" is judged for these programs.
use hydro_lang::live_collections::stream::{ExactlyOnce, NoOrder, TotalOrder};
use hydro_lang::prelude::*;

use crate::tickops::{P, TS};

pub type US<'a> = Stream<i32, P<'a>, Unbounded, TotalOrder, ExactlyOnce>;
pub type UFn = for<'a> fn(US<'a>) -> US<'a>;

fn ord<'a>(s: Stream<i32, P<'a>, Unbounded, NoOrder, ExactlyOnce>) -> US<'a> {
    s.assume_ordering(nondet!(/** only compilation / crash-freedom is judged */))
}

pub fn u_map<'a>(s: US<'a>) -> US<'a> {
    s.map(q!(|x| x.wrapping_add(1)))
}
pub fn u_filter<'a>(s: US<'a>) -> US<'a> {
    s.filter(q!(|x| *x & 1 == 0))
}
pub fn u_flat_map<'a>(s: US<'a>) -> US<'a> {
    s.flat_map_ordered(q!(|x| vec![x, x.wrapping_add(1)]))
}
pub fn u_filter_map<'a>(s: US<'a>) -> US<'a> {
    s.filter_map(q!(|x| if x > 0 { Some(x.wrapping_mul(2)) } else { None }))
}
pub fn u_inspect<'a>(s: US<'a>) -> US<'a> {
    s.inspect(q!(|x| {
        let _ = *x;
    }))
}
pub fn u_enum<'a>(s: US<'a>) -> US<'a> {
    s.enumerate()
        .map(q!(|(i, x)| (i as i32).wrapping_mul(1000).wrapping_add(x)))
}
pub fn u_unique<'a>(s: US<'a>) -> US<'a> {
    s.unique()
}
pub fn u_scan<'a>(s: US<'a>) -> US<'a> {
    s.scan(
        q!(|| 0i32),
        q!(|st: &mut i32, x: i32| {
            *st = st.wrapping_add(x);
            Some(*st)
        }),
    )
}
pub fn u_fold_snap<'a>(s: US<'a>) -> US<'a> {
    let tick = s.location().tick();
    s.fold(q!(|| 0i32), q!(|a: &mut i32, x: i32| *a = a.wrapping_add(x)))
        .snapshot(&tick, nondet!(/** compile-only */))
        .all_ticks()
}
pub fn u_reduce_snap<'a>(s: US<'a>) -> US<'a> {
    let tick = s.location().tick();
    s.reduce(q!(|a: &mut i32, x: i32| *a = a.wrapping_mul(3).wrapping_add(x)))
        .snapshot(&tick, nondet!(/** compile-only */))
        .all_ticks()
}
pub fn u_count_snap<'a>(s: US<'a>) -> US<'a> {
    let tick = s.location().tick();
    s.count()
        .snapshot(&tick, nondet!(/** compile-only */))
        .map(q!(|c| c as i32))
        .all_ticks()
}
pub fn u_max_snap<'a>(s: US<'a>) -> US<'a> {
    let tick = s.location().tick();
    s.max().snapshot(&tick, nondet!(/** compile-only */)).all_ticks()
}
pub fn u_join_static<'a>(s: US<'a>) -> US<'a> {
    let build = s.location().source_iter(q!([(0i32, 10i32), (1i32, 11i32)]));
    s.map(q!(|x| (x & 1, x)))
        .join(build)
        .map(q!(|(_k, (v, w))| v.wrapping_mul(100).wrapping_add(w)))
}
pub fn u_join_self<'a>(s: US<'a>) -> US<'a> {
    let other = s.clone().map(q!(|x| (x & 1, x.wrapping_add(10))));
    ord(s
        .map(q!(|x| (x & 1, x)))
        .join(other)
        .map(q!(|(_k, (v, w))| v.wrapping_mul(100).wrapping_add(w))))
}
pub fn u_cross_self<'a>(s: US<'a>) -> US<'a> {
    let other = s.clone();
    ord(s
        .cross_product(other)
        .map(q!(|(v, w)| v.wrapping_mul(100).wrapping_add(w))))
}
pub fn u_xsing_static<'a>(s: US<'a>) -> US<'a> {
    let five = s.location().singleton(q!(5i32));
    s.cross_singleton(five)
        .map(q!(|(x, c)| x.wrapping_mul(10).wrapping_add(c)))
}
pub fn u_antijoin_static<'a>(s: US<'a>) -> US<'a> {
    let neg = s.location().source_iter(q!([1i32]));
    s.map(q!(|x| (x & 1, x))).anti_join(neg).map(q!(|(_k, v)| v))
}
pub fn u_chain_static<'a>(s: US<'a>) -> US<'a> {
    s.location().source_iter(q!([7i32, 8i32])).chain(s)
}
pub fn u_merge<'a>(s: US<'a>) -> US<'a> {
    let other: US<'a> = s.location().source_iter(q!([7i32, 8i32])).into();
    ord(s.merge_unordered(other))
}
pub fn u_keyed_fold<'a>(s: US<'a>) -> US<'a> {
    let tick = s.location().tick();
    s.map(q!(|x| (x & 1, x)))
        .into_keyed()
        .fold(q!(|| 0i32), q!(|a: &mut i32, x: i32| *a = a.wrapping_add(x)))
        .snapshot(&tick, nondet!(/** compile-only */))
        .entries()
        .map(q!(|(k, v)| k.wrapping_mul(1000).wrapping_add(v)))
        .assume_ordering(nondet!(/** compile-only */))
        .all_ticks()
}
pub fn u_atomic<'a>(s: US<'a>) -> US<'a> {
    s.atomic().map(q!(|x| x.wrapping_add(3))).end_atomic()
}

fn via_tick<'a>(s: US<'a>, f: fn(TS<'a>) -> TS<'a>) -> US<'a> {
    let tick = s.location().tick();
    f(s.batch(&tick, nondet!(/** compile-only */))).all_ticks()
}
pub fn u_tk_fold<'a>(s: US<'a>) -> US<'a> {
    via_tick(s, crate::tickops::t_fold)
}
pub fn u_tk_cyc<'a>(s: US<'a>) -> US<'a> {
    via_tick(s, crate::tickops::t_cyc_carry)
}
pub fn u_tk_bymut<'a>(s: US<'a>) -> US<'a> {
    via_tick(s, crate::tickops::t_bymut)
}
pub fn u_tk_across<'a>(s: US<'a>) -> US<'a> {
    via_tick(s, crate::tickops::t_across_fold)
}
pub fn u_tk_defer_join<'a>(s: US<'a>) -> US<'a> {
    via_tick(s, crate::tickops::t_antijoin_prev)
}

pub fn uops() -> Vec<(&'static str, UFn)> {
    vec![
        ("map", u_map as UFn),
        ("filter", u_filter),
        ("flat_map", u_flat_map),
        ("filter_map", u_filter_map),
        ("inspect", u_inspect),
        ("enum", u_enum),
        ("unique", u_unique),
        ("scan", u_scan),
        ("fold_snap", u_fold_snap),
        ("reduce_snap", u_reduce_snap),
        ("count_snap", u_count_snap),
        ("max_snap", u_max_snap),
        ("join_static", u_join_static),
        ("join_self", u_join_self),
        ("cross_self", u_cross_self),
        ("xsing_static", u_xsing_static),
        ("antijoin_static", u_antijoin_static),
        ("chain_static", u_chain_static),
        ("merge", u_merge),
        ("keyed_fold", u_keyed_fold),
        ("atomic", u_atomic),
        ("tk_fold", u_tk_fold),
        ("tk_cyc", u_tk_cyc),
        ("tk_bymut", u_tk_bymut),
        ("tk_across", u_tk_across),
        ("tk_defer_join", u_tk_defer_join),
    ]
}

pub fn core_uops() -> Vec<&'static str> {
    vec!["enum", "fold_snap", "join_self", "keyed_fold", "tk_cyc", "tk_bymut"]
}

// ------------------------------------------------------------------------------------------------
// Structural stressors (single location). Each takes the input stream and returns the output.

/// One shared sub-expression feeds a tick (batch) AND top-level state (unbounded fold).
pub fn x_shared_tick_and_top<'a>(s: US<'a>) -> US<'a> {
    let shared = s.map(q!(|x| x.wrapping_add(1)));
    let tick = shared.location().tick();
    let top_state = shared
        .clone()
        .fold(q!(|| 0i32), q!(|a: &mut i32, x: i32| *a = a.wrapping_add(x)));
    let in_tick = shared.batch(&tick, nondet!(/** compile-only */));
    in_tick
        .cross_singleton(top_state.snapshot(&tick, nondet!(/** compile-only */)))
        .map(q!(|(x, t)| x.wrapping_mul(100).wrapping_add(t)))
        .all_ticks()
}

/// A tee feeding both sides of a top-level join and of a tick join.
pub fn x_tee_join_both<'a>(s: US<'a>) -> US<'a> {
    let k = s.map(q!(|x| (x & 1, x)));
    let top = ord(k
        .clone()
        .join(k.clone())
        .map(q!(|(_k, (v, w))| v.wrapping_mul(100).wrapping_add(w))));
    let tick = top.location().tick();
    let b = k.batch(&tick, nondet!(/** compile-only */));
    let tj = b
        .clone()
        .join(b)
        .map(q!(|(_k, (v, w))| v.wrapping_mul(100).wrapping_add(w)))
        .all_ticks();
    ord(top.merge_unordered(tj))
}

/// forward_ref at top level, completed by a stream that went through a tick.
pub fn x_forward_ref_through_tick<'a>(s: US<'a>) -> US<'a> {
    let p = s.location().clone();
    let tick = p.tick();
    let (h, fwd) = p.forward_ref::<US<'a>>();
    let out = fwd.map(q!(|x| x.wrapping_mul(2)));
    let through_tick = s
        .batch(&tick, nondet!(/** compile-only */))
        .sort()
        .all_ticks();
    h.complete(through_tick);
    out
}

/// forward_ref of a tick-scoped optional, used before it is defined (no same-tick cycle).
pub fn x_forward_ref_in_tick<'a>(s: US<'a>) -> US<'a> {
    let tick = s.location().tick();
    let (h, fwd) = tick.forward_ref::<Optional<i32, Tick<P<'a>>, Bounded>>();
    let b = s.batch(&tick, nondet!(/** compile-only */));
    let out = b
        .clone()
        .cross_singleton(fwd)
        .map(q!(|(x, m)| x.wrapping_mul(10).wrapping_add(m)));
    h.complete(b.clone().defer_tick().max());
    drop(b);
    out.all_ticks()
}

/// Genuine asynchronous cycle at top level: forward_ref completed with a function of itself
/// (through a tick with defer), merged with the input; terminates because values are filtered.
pub fn x_cycle_through_tick<'a>(s: US<'a>) -> US<'a> {
    let p = s.location().clone();
    let tick = p.tick();
    let (h, fwd) = p.forward_ref::<Stream<i32, P<'a>, Unbounded, NoOrder, ExactlyOnce>>();
    let all = s.merge_unordered(fwd);
    let next = all
        .clone()
        .filter(q!(|x| *x > 0 && *x < 3))
        .map(q!(|x| x.wrapping_add(1)))
        .batch(&tick, nondet!(/** compile-only */))
        .defer_tick()
        .all_ticks();
    h.complete(next);
    ord(all)
}

/// by_ref to a top-level bounded singleton from a bounded top-level stream closure.
pub fn x_byref_top<'a>(s: US<'a>) -> US<'a> {
    let p = s.location().clone();
    let total = p
        .source_iter(q!(0..5i32))
        .fold(q!(|| 0i32), q!(|a: &mut i32, x: i32| *a += x));
    let r = total.by_ref();
    let bounded = p.source_iter(q!(1..=3i32)).map(q!(|x| x + *r));
    bounded.chain(s)
}

/// Two by_ref handles (singleton + optional) captured in one closure inside a tick, plus the
/// referenced collections consumed as well.
pub fn x_two_refs_one_closure<'a>(s: US<'a>) -> US<'a> {
    let tick = s.location().tick();
    let b = s.batch(&tick, nondet!(/** compile-only */));
    let c = b.clone().count();
    let m = b.clone().min();
    let rc = c.by_ref();
    let rm = m.by_ref();
    let out = b.map(q!(|x| x
        .wrapping_mul(100)
        .wrapping_add(*rc as i32)
        .wrapping_add(rm.unwrap_or(0))));
    let tail = c.map(q!(|c| c as i32)).into_stream().chain(m.into_stream());
    out.chain(tail).all_ticks()
}

/// Two independent ticks on one process fed by the same source.
pub fn x_two_ticks<'a>(s: US<'a>) -> US<'a> {
    let t1 = s.location().tick();
    let t2 = s.location().tick();
    let a = s
        .clone()
        .batch(&t1, nondet!(/** compile-only */))
        .count()
        .map(q!(|c| c as i32))
        .all_ticks();
    let b = s.batch(&t2, nondet!(/** compile-only */)).sort().all_ticks();
    ord(a.merge_unordered(b))
}

/// Tick cycle whose carried value also escapes to top-level state which is snapshotted back.
pub fn x_cycle_and_top_state<'a>(s: US<'a>) -> US<'a> {
    let tick = s.location().tick();
    let b = s.batch(&tick, nondet!(/** compile-only */));
    let (h, prev) = tick.cycle::<TS<'a>, _>();
    let cur = prev.chain(b);
    h.complete_next_tick(cur.clone().limit(q!(2usize)));
    let top_count = cur.clone().all_ticks().count();
    cur.cross_singleton(top_count.snapshot(&tick, nondet!(/** compile-only */)))
        .map(q!(|(x, c)| x.wrapping_mul(100).wrapping_add(c as i32)))
        .all_ticks()
}

pub fn stressors() -> Vec<(&'static str, UFn)> {
    vec![
        ("shared_tick_and_top", x_shared_tick_and_top as UFn),
        ("tee_join_both", x_tee_join_both),
        ("forward_ref_through_tick", x_forward_ref_through_tick),
        ("forward_ref_in_tick", x_forward_ref_in_tick),
        ("cycle_through_tick", x_cycle_through_tick),
        ("byref_top", x_byref_top),
        ("two_refs_one_closure", x_two_refs_one_closure),
        ("two_ticks", x_two_ticks),
        ("cycle_and_top_state", x_cycle_and_top_state),
    ]
}

// ------------------------------------------------------------------------------------------------
// Two-location stressors (process A -> process B [-> A]).

pub struct LA {}
pub struct LB {}
pub type UA<'a> = Stream<i32, Process<'a, LA>, Unbounded, TotalOrder, ExactlyOnce>;
pub type UB<'a> = Stream<i32, Process<'a, LB>, Unbounded, TotalOrder, ExactlyOnce>;

/// A -> B, a tick on B.
pub fn y_hop_then_tick<'a>(s: UA<'a>, b: &Process<'a, LB>) -> UB<'a> {
    let r = s.send(b, TCP.fail_stop().bincode().name("ab"));
    let tick = b.tick();
    r.batch(&tick, nondet!(/** compile-only */))
        .fold(q!(|| 0i32), q!(|a: &mut i32, x: i32| *a = a.wrapping_add(x)))
        .all_ticks()
}

/// Cycle through a network hop: A's forward_ref is completed by data that went A -> B -> A.
/// Returns (output on A).
pub fn y_cycle_through_network<'a>(s: UA<'a>, b: &Process<'a, LB>) -> UA<'a> {
    let a = s.location().clone();
    let (h, fwd) = a.forward_ref::<Stream<i32, Process<'a, LA>, Unbounded, NoOrder, ExactlyOnce>>();
    let all = s.merge_unordered(fwd);
    let on_b = all
        .clone()
        .filter(q!(|x| *x > 0 && *x < 3))
        .send(b, TCP.fail_stop().bincode().name("ab"));
    let back = on_b
        .map(q!(|x| x.wrapping_add(1)))
        .send(&a, TCP.fail_stop().bincode().name("ba"));
    h.complete(back);
    all.assume_ordering(nondet!(/** compile-only */))
}

/// A shared stream both sent over the network and consumed locally in a tick; the two results
/// meet again on A.
pub fn y_shared_send_and_tick<'a>(s: UA<'a>, b: &Process<'a, LB>) -> UA<'a> {
    let a = s.location().clone();
    let tick = a.tick();
    let local = s
        .clone()
        .batch(&tick, nondet!(/** compile-only */))
        .enumerate()
        .map(q!(|(i, x)| (i as i32).wrapping_mul(1000).wrapping_add(x)))
        .all_ticks();
    let remote = s
        .send(b, TCP.fail_stop().bincode().name("ab"))
        .map(q!(|x| x.wrapping_neg()))
        .send(&a, TCP.fail_stop().bincode().name("ba"));
    local
        .merge_unordered(remote)
        .assume_ordering(nondet!(/** compile-only */))
}
