//! C30 grammar: tick-scoped transformers `T : Stream<i32, Tick> -> Stream<i32, Tick>`.
//!
//! Every operator of the property's grammar is wrapped so that input and output are a totally
//! ordered bounded stream of `i32` inside the tick; depth-2 programs are plain function
//! composition (done by `emb/build.rs`). Aggregates are re-exported with `into_stream()` (a
//! singleton becomes a one-element batch, an empty optional an empty batch); tuples are folded
//! into one `i32` by an injective-enough arithmetic code (wrapping arithmetic, mirrored exactly
//! by the reference interpreter in `emb/src/refsem.rs`).
use hydro_lang::live_collections::stream::{ExactlyOnce, TotalOrder};
use hydro_lang::prelude::*;

pub type P<'a> = Process<'a, ()>;
pub type TS<'a> = Stream<i32, Tick<P<'a>>, Bounded, TotalOrder, ExactlyOnce>;
pub type OpFn = for<'a> fn(TS<'a>) -> TS<'a>;
pub type Op2Fn = for<'a> fn(TS<'a>, TS<'a>) -> TS<'a>;

// ---------------------------------------------------------------- aggregates

pub fn t_fold<'a>(s: TS<'a>) -> TS<'a> {
    s.fold(
        q!(|| 0i32),
        q!(|a: &mut i32, x: i32| *a = a.wrapping_mul(3).wrapping_add(x).wrapping_add(1)),
    )
    .into_stream()
}

pub fn t_reduce<'a>(s: TS<'a>) -> TS<'a> {
    s.reduce(q!(|a: &mut i32, x: i32| *a = a.wrapping_mul(3).wrapping_add(x)))
        .into_stream()
}

pub fn t_count<'a>(s: TS<'a>) -> TS<'a> {
    s.count().map(q!(|c| c as i32)).into_stream()
}

pub fn t_max<'a>(s: TS<'a>) -> TS<'a> {
    s.max().into_stream()
}

pub fn t_min<'a>(s: TS<'a>) -> TS<'a> {
    s.min().into_stream()
}

pub fn t_first<'a>(s: TS<'a>) -> TS<'a> {
    s.first().into_stream()
}

pub fn t_last<'a>(s: TS<'a>) -> TS<'a> {
    s.last().into_stream()
}

// ---------------------------------------------------------------- order / prefix

pub fn t_limit0<'a>(s: TS<'a>) -> TS<'a> {
    s.limit(q!(0usize))
}

pub fn t_limit1<'a>(s: TS<'a>) -> TS<'a> {
    s.limit(q!(1usize))
}

pub fn t_limit2<'a>(s: TS<'a>) -> TS<'a> {
    s.limit(q!(2usize))
}

pub fn t_sort<'a>(s: TS<'a>) -> TS<'a> {
    s.sort()
}

pub fn t_enum<'a>(s: TS<'a>) -> TS<'a> {
    s.enumerate()
        .map(q!(|(i, x)| (i as i32).wrapping_mul(1000).wrapping_add(x)))
}

// ---------------------------------------------------------------- singleton / joins

pub fn t_xsing_count<'a>(s: TS<'a>) -> TS<'a> {
    let c = s.clone().count();
    s.cross_singleton(c)
        .map(q!(|(x, c)| x.wrapping_mul(10).wrapping_add(c as i32)))
}

/// cross_singleton with an Optional that is absent whenever the batch has no multiple of 3.
pub fn t_xsing_opt<'a>(s: TS<'a>) -> TS<'a> {
    let z = s.clone().filter(q!(|x| *x % 3 == 0)).first();
    s.cross_singleton(z)
        .map(q!(|(x, z)| x.wrapping_mul(10).wrapping_add(z).wrapping_add(5)))
}

/// join whose bounded (build) side has exactly one row per key => exactly one match per probe
/// row; the output must be the probe order.
pub fn t_join_u<'a>(s: TS<'a>) -> TS<'a> {
    let build = s
        .clone()
        .count()
        .flat_map_ordered(q!(|c| vec![(0i32, c as i32), (1i32, c as i32 + 5)]));
    s.map(q!(|x| (x & 1, x)))
        .join(build)
        .map(q!(|(_k, (v, w))| v.wrapping_mul(10).wrapping_add(w)))
}

/// join against the batch itself (several matches per probe row, duplicates on both sides).
/// Only used as the outermost operator: the order *within* one probe row's matches is not
/// promised by the property, so the driver compares those runs as multisets.
pub fn t_join_m<'a>(s: TS<'a>) -> TS<'a> {
    let build = s.clone().map(q!(|x| (x & 1, x)));
    s.map(q!(|x| (x & 1, x)))
        .join(build)
        .map(q!(|(_k, (v, w))| v.wrapping_mul(100).wrapping_add(w)))
}

pub fn t_antijoin_same<'a>(s: TS<'a>) -> TS<'a> {
    let neg = s
        .clone()
        .filter(q!(|x| *x >= 1))
        .map(q!(|x| x.wrapping_sub(1) & 1));
    s.map(q!(|x| (x & 1, x))).anti_join(neg).map(q!(|(_k, v)| v))
}

/// Items of this batch that did not occur in the previous batch.
pub fn t_antijoin_prev<'a>(s: TS<'a>) -> TS<'a> {
    let neg = s.clone().defer_tick();
    s.map(q!(|x| (x, x))).anti_join(neg).map(q!(|(_k, v)| v))
}

// ---------------------------------------------------------------- next-tick values

pub fn t_defer<'a>(s: TS<'a>) -> TS<'a> {
    s.defer_tick()
}

/// Stream cycle: out_t = carry_t ++ batch_t ; carry_{t+1} = odd items of out_t.
pub fn t_cyc_carry<'a>(s: TS<'a>) -> TS<'a> {
    let tick = s.location().clone();
    let (h, prev) = tick.cycle::<TS<'a>, _>();
    let out = prev.chain(s);
    h.complete_next_tick(out.clone().filter(q!(|x| *x & 1 == 1)));
    out
}

/// Optional cycle: total_t = sum(batch_t) + (prev_t or 100); prev_{t+1} = total_t only if even.
pub fn t_cyc_opt<'a>(s: TS<'a>) -> TS<'a> {
    let tick = s.location().clone();
    let (h, prev) = tick.cycle::<Optional<i32, Tick<P<'a>>, Bounded>, _>();
    let sum = s.fold(q!(|| 0i32), q!(|a: &mut i32, x: i32| *a = a.wrapping_add(x)));
    let total = sum
        .zip(prev.unwrap_or(tick.singleton(q!(100i32))))
        .map(q!(|(a, b)| a.wrapping_add(b)));
    h.complete_next_tick(total.clone().filter(q!(|t| *t & 1 == 0)));
    total.into_stream()
}

/// Singleton cycle with initial value: v_0 = 7 ; v_{t+1} = 2 v_t + |batch_t| ; emits v_t.
pub fn t_cyc_init<'a>(s: TS<'a>) -> TS<'a> {
    let tick = s.location().clone();
    let (h, v) = tick.cycle_with_initial(tick.singleton(q!(7i32)));
    let next = v
        .clone()
        .zip(s.count())
        .map(q!(|(v, c)| v.wrapping_mul(2).wrapping_add(c as i32)));
    h.complete_next_tick(next);
    v.into_stream()
}

// ---------------------------------------------------------------- across_ticks

pub fn t_across_count<'a>(s: TS<'a>) -> TS<'a> {
    s.across_ticks(|a| a.count())
        .map(q!(|c| c as i32))
        .into_stream()
}

pub fn t_across_fold<'a>(s: TS<'a>) -> TS<'a> {
    s.across_ticks(|a| {
        a.fold(
            q!(|| 0i32),
            q!(|acc: &mut i32, x: i32| *acc = acc.wrapping_mul(3).wrapping_add(x).wrapping_add(1)),
        )
    })
    .into_stream()
}

pub fn t_across_enum<'a>(s: TS<'a>) -> TS<'a> {
    s.across_ticks(|a| a.enumerate())
        .map(q!(|(i, x)| (i as i32).wrapping_mul(1000).wrapping_add(x)))
}

// ---------------------------------------------------------------- by_ref / by_mut (handoff_ref.rs)

pub fn t_byref_single<'a>(s: TS<'a>) -> TS<'a> {
    let c = s.clone().count();
    let r = c.by_ref();
    s.map(q!(|x| x.wrapping_mul(10).wrapping_add(*r as i32)))
}

pub fn t_byref_opt<'a>(s: TS<'a>) -> TS<'a> {
    let m = s.clone().max();
    let r = m.by_ref();
    s.map(q!(|x| x.wrapping_mul(10).wrapping_add(r.unwrap_or(-1))))
}

pub fn t_byref_stream<'a>(s: TS<'a>) -> TS<'a> {
    let t = s.clone().map(q!(|x| x.wrapping_add(1)));
    let r = t.by_ref();
    s.map(q!(|x| x
        .wrapping_mul(100)
        .wrapping_add(r.iter().fold(0i32, |a, b| a.wrapping_mul(3).wrapping_add(*b)))))
}

pub fn t_bymut<'a>(s: TS<'a>) -> TS<'a> {
    let c = s
        .clone()
        .fold(q!(|| 0i32), q!(|a: &mut i32, x: i32| *a = a.wrapping_add(x)));
    let m = c.by_mut();
    s.map(q!(|x| {
        *m = m.wrapping_add(x);
        x.wrapping_mul(100).wrapping_add(*m)
    }))
}

/// read (group 0), then mutate (group 1), then read again (group 2) the same tick-scoped fold.
pub fn t_ref_mut_ref<'a>(s: TS<'a>) -> TS<'a> {
    let c = s
        .clone()
        .fold(q!(|| 0i32), q!(|a: &mut i32, x: i32| *a = a.wrapping_add(x)));
    let r1 = c.by_ref();
    let a = s.clone().map(q!(|x| x.wrapping_mul(100).wrapping_add(*r1)));
    let m = c.by_mut();
    let b = s.clone().map(q!(|x| {
        *m = m.wrapping_add(x).wrapping_add(1);
        x.wrapping_mul(100).wrapping_add(*m)
    }));
    let r2 = c.by_ref();
    let d = s.map(q!(|x| x.wrapping_mul(100).wrapping_add(*r2).wrapping_add(50)));
    a.chain(b).chain(d)
}

// ---------------------------------------------------------------- two-input programs

pub fn u_join_ab<'a>(a: TS<'a>, b: TS<'a>) -> TS<'a> {
    a.map(q!(|x| (x & 1, x)))
        .join(b.map(q!(|x| (x & 1, x.wrapping_add(10)))))
        .map(q!(|(_k, (v, w))| v.wrapping_mul(100).wrapping_add(w)))
}

pub fn u_join_ba<'a>(a: TS<'a>, b: TS<'a>) -> TS<'a> {
    b.map(q!(|x| (x & 1, x)))
        .join(a.map(q!(|x| (x & 1, x.wrapping_add(10)))))
        .map(q!(|(_k, (v, w))| v.wrapping_mul(100).wrapping_add(w)))
}

pub fn u_antijoin<'a>(a: TS<'a>, b: TS<'a>) -> TS<'a> {
    a.map(q!(|x| (x, x))).anti_join(b).map(q!(|(_k, v)| v))
}

pub fn u_antijoin_defer<'a>(a: TS<'a>, b: TS<'a>) -> TS<'a> {
    a.map(q!(|x| (x, x)))
        .anti_join(b.defer_tick())
        .map(q!(|(_k, v)| v))
}

pub fn u_xsing<'a>(a: TS<'a>, b: TS<'a>) -> TS<'a> {
    a.cross_singleton(b.first())
        .map(q!(|(x, z)| x.wrapping_mul(10).wrapping_add(z)))
}

pub fn u_chain_defer<'a>(a: TS<'a>, b: TS<'a>) -> TS<'a> {
    a.defer_tick().chain(b)
}

// ---------------------------------------------------------------- tables

/// All unary operators of the grammar (depth-1 programs).
pub fn ops() -> Vec<(&'static str, OpFn)> {
    vec![
        ("fold", t_fold as OpFn),
        ("reduce", t_reduce),
        ("count", t_count),
        ("max", t_max),
        ("min", t_min),
        ("first", t_first),
        ("last", t_last),
        ("limit0", t_limit0),
        ("limit1", t_limit1),
        ("limit2", t_limit2),
        ("sort", t_sort),
        ("enum", t_enum),
        ("xsing_count", t_xsing_count),
        ("xsing_opt", t_xsing_opt),
        ("join_u", t_join_u),
        ("join_m", t_join_m),
        ("antijoin_same", t_antijoin_same),
        ("antijoin_prev", t_antijoin_prev),
        ("defer", t_defer),
        ("cyc_carry", t_cyc_carry),
        ("cyc_opt", t_cyc_opt),
        ("cyc_init", t_cyc_init),
        ("across_count", t_across_count),
        ("across_fold", t_across_fold),
        ("across_enum", t_across_enum),
        ("byref_single", t_byref_single),
        ("byref_opt", t_byref_opt),
        ("byref_stream", t_byref_stream),
        ("bymut", t_bymut),
        ("ref_mut_ref", t_ref_mut_ref),
    ]
}

/// Operators used on both levels of the depth-2 compositions (one per mechanism class).
pub fn core_ops() -> Vec<&'static str> {
    vec![
        "fold",
        "last",
        "limit2",
        "sort",
        "enum",
        "xsing_count",
        "join_u",
        "antijoin_prev",
        "defer",
        "cyc_carry",
        "across_fold",
        "bymut",
    ]
}

pub fn ops2() -> Vec<(&'static str, Op2Fn)> {
    vec![
        ("join_ab", u_join_ab as Op2Fn),
        ("join_ba", u_join_ba),
        ("antijoin", u_antijoin),
        ("antijoin_defer", u_antijoin_defer),
        ("xsing", u_xsing),
        ("chain_defer", u_chain_defer),
    ]
}
