use hydro_lang::live_collections::stream::{ExactlyOnce, TotalOrder};
use hydro_lang::prelude::*;

pub type P<'a> = Process<'a, ()>;
pub type TS<'a> = Stream<i32, Tick<P<'a>>, Bounded, TotalOrder, ExactlyOnce>;
pub type OpFn = for<'a> fn(TS<'a>) -> TS<'a>;

pub fn t_fold<'a>(s: TS<'a>) -> TS<'a> {
    s.fold(
        q!(|| 0i32),
        q!(|a: &mut i32, x: i32| *a = a.wrapping_mul(3).wrapping_add(x).wrapping_add(1)),
    )
    .into_stream()
}

pub fn t_sort<'a>(s: TS<'a>) -> TS<'a> {
    s.sort()
}

pub fn t_defer<'a>(s: TS<'a>) -> TS<'a> {
    s.defer_tick()
}

pub fn ops() -> Vec<(&'static str, OpFn)> {
    vec![("fold", t_fold), ("sort", t_sort), ("defer", t_defer)]
}
