//! C35: multi-location flows, generic over the payload type. `emb/build.rs` instantiates every
//! shape with every payload type and the harness wires the generated network-out closures to the
//! generated network-in streams.
use hydro_lang::live_collections::stream::{ExactlyOnce, NoOrder, TotalOrder};
use hydro_lang::location::MemberId;
use hydro_lang::prelude::*;
use serde::de::DeserializeOwned;
use serde::{Deserialize, Serialize};

/// Sender-side location tag.
pub struct S {}
/// Receiver-side location tag.
pub struct R {}

/// 3-variant enum with a struct variant.
#[derive(Clone, Debug, PartialEq, Eq, Hash, Serialize, Deserialize)]
pub enum E3 {
    Unit,
    Tup(i32),
    Rec { x: u8, s: String },
}

pub type TNested = (u8, (i16, (String, bool)));
pub type TRes = Result<u32, String>;
pub type TOpt = Option<(u8, String)>;

type In<'a, T, L> = Stream<T, L, Unbounded, TotalOrder, ExactlyOnce>;

pub fn o2o<'a, T: Serialize + DeserializeOwned>(
    src: In<'a, T, Process<'a, S>>,
    dst: &Process<'a, R>,
) -> Stream<T, Process<'a, R>, Unbounded, TotalOrder, ExactlyOnce> {
    src.send(dst, TCP.fail_stop().bincode().name("ch"))
}

pub fn o2m_demux<'a, T: Serialize + DeserializeOwned>(
    src: In<'a, (MemberId<R>, T), Process<'a, S>>,
    dst: &Cluster<'a, R>,
) -> Stream<T, Cluster<'a, R>, Unbounded, TotalOrder, ExactlyOnce> {
    src.demux(dst, TCP.fail_stop().bincode().name("ch"))
        .assume_ordering(nondet!(/** harness delivers in order */))
}

pub fn o2m_bcast<'a, T: Clone + Serialize + DeserializeOwned>(
    src: In<'a, T, Process<'a, S>>,
    dst: &Cluster<'a, R>,
) -> Stream<T, Cluster<'a, R>, Unbounded, TotalOrder, ExactlyOnce> {
    src.broadcast(
        dst,
        TCP.fail_stop().bincode().name("ch"),
        nondet!(/** membership is fixed by the harness before any data */),
    )
    .assume_ordering(nondet!(/** harness delivers in order */))
}

pub fn m2o<'a, T: Serialize + DeserializeOwned>(
    src: In<'a, T, Cluster<'a, S>>,
    dst: &Process<'a, R>,
) -> Stream<(MemberId<S>, T), Process<'a, R>, Unbounded, TotalOrder, ExactlyOnce> {
    let e: Stream<(MemberId<S>, T), Process<'a, R>, Unbounded, NoOrder, ExactlyOnce> = src
        .send(dst, TCP.fail_stop().bincode().name("ch"))
        .entries();
    e.assume_ordering(nondet!(/** compared per sender by the harness */))
}

pub fn m2m_demux<'a, T: Serialize + DeserializeOwned>(
    src: In<'a, (MemberId<R>, T), Cluster<'a, S>>,
    dst: &Cluster<'a, R>,
) -> Stream<(MemberId<S>, T), Cluster<'a, R>, Unbounded, TotalOrder, ExactlyOnce> {
    src.demux(dst, TCP.fail_stop().bincode().name("ch"))
        .entries()
        .assume_ordering(nondet!(/** compared per sender by the harness */))
}

pub fn m2m_bcast<'a, T: Clone + Serialize + DeserializeOwned>(
    src: In<'a, T, Cluster<'a, S>>,
    dst: &Cluster<'a, R>,
) -> Stream<(MemberId<S>, T), Cluster<'a, R>, Unbounded, TotalOrder, ExactlyOnce> {
    src.broadcast(
        dst,
        TCP.fail_stop().bincode().name("ch"),
        nondet!(/** membership is fixed by the harness before any data */),
    )
    .entries()
    .assume_ordering(nondet!(/** compared per sender by the harness */))
}
