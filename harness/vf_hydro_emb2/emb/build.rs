use std::fmt::Write as _;
use std::panic::{AssertUnwindSafe, catch_unwind};

use hydro_lang::compile::builder::FlowBuilder;
use hydro_lang::location::Location;
use hydro_lang::prelude::nondet;

fn main() {
    println!("cargo::rerun-if-changed=build.rs");
    let out_dir = std::env::var("OUT_DIR").unwrap();
    std::panic::set_hook(Box::new(|_| {}));

    let ops = vf_emb2_progs::tickops::ops();
    let mut table = String::new();
    let mut mods = String::new();
    let mut n = 0;
    for (n1, f1) in &ops {
        for (n2, f2) in &ops {
            let id = format!("p{:04}", n);
            n += 1;
            let r = catch_unwind(AssertUnwindSafe(|| {
                let mut flow = FlowBuilder::new();
                let p = flow.process::<()>();
                let tick = p.tick();
                let a = p.embedded_input::<i32>("a");
                let b = a.batch(&tick, nondet!(/** the driver chooses the batches */));
                let out = f2(f1(b));
                out.all_ticks().embedded_output("out");
                flow.with_process(&p, "prog").generate_embedded("vf_emb2_progs")
            }));
            match r {
                Ok(code) => {
                    std::fs::write(format!("{out_dir}/{id}.rs"), prettyplease::unparse(&code)).unwrap();
                    writeln!(mods, "pub mod {id} {{ include!(concat!(env!(\"OUT_DIR\"), \"/{id}.rs\")); }}").unwrap();
                    writeln!(table, "(\"{id}\", \"{n1}\", \"{n2}\"),").unwrap();
                }
                Err(_) => {
                    writeln!(table, "// FAILED {id} {n1} {n2}").unwrap();
                }
            }
        }
    }
    std::fs::write(format!("{out_dir}/mods.rs"), mods).unwrap();
    std::fs::write(format!("{out_dir}/table.rs"), format!("pub static T: &[(&str,&str,&str)] = &[\n{table}];\n")).unwrap();
}
