//! Runs the PRODUCTION Hydro code generator (`generate_embedded` = compile_internal +
//! partition_graph + as_code) on every program of the C30 / C35 / C41 families.
//!
//! Every program is generated under `catch_unwind`; a failure is recorded in the generated table
//! `GEN_FAILURES` (reported by the C41 check as a violation) instead of aborting the build, so
//! one failing program cannot hide the others. Successful programs are written to
//! `$OUT_DIR/<id>.rs` and included by the binary (so the generated Rust must compile).
use std::fmt::Write as _;
use std::panic::{AssertUnwindSafe, catch_unwind};
use std::sync::Mutex;

use hydro_lang::compile::builder::FlowBuilder;
use hydro_lang::location::{Location, MemberId};
use hydro_lang::prelude::*;
use vf_emb2_progs::net::{self, E3, R, S, TNested, TOpt, TRes};
use vf_emb2_progs::tickops::{self, OpFn};
use vf_emb2_progs::top::{self, LA, LB, UFn};

const CRATE: &str = "vf_emb2_progs";

static LAST_PANIC: Mutex<String> = Mutex::new(String::new());

struct Gen {
    out_dir: String,
    mods: String,
    progs: String,
    nets: String,
    failures: String,
    have: String,
    n_ok: usize,
    n_fail: usize,
}

impl Gen {
    /// Run one generator closure under catch_unwind; on success write the file + `mod`.
    fn one(&mut self, id: &str, family: &str, desc: &str, f: impl FnOnce() -> syn::File) -> bool {
        LAST_PANIC.lock().unwrap().clear();
        let r = catch_unwind(AssertUnwindSafe(f));
        match r {
            Ok(code) => {
                let txt = prettyplease::unparse(&code);
                std::fs::write(format!("{}/{id}.rs", self.out_dir), txt).unwrap();
                writeln!(
                    self.mods,
                    "pub mod {id} {{ include!(concat!(env!(\"OUT_DIR\"), \"/{id}.rs\")); }}"
                )
                .unwrap();
                writeln!(self.have, "#[allow(unused_macros)] macro_rules! have_{id} {{ ($($t:tt)*) => {{ $($t)* }} }}").unwrap();
                self.n_ok += 1;
                true
            }
            Err(e) => {
                let mut msg = LAST_PANIC.lock().unwrap().clone();
                if msg.is_empty() {
                    msg = if let Some(s) = e.downcast_ref::<&str>() {
                        s.to_string()
                    } else if let Some(s) = e.downcast_ref::<String>() {
                        s.clone()
                    } else {
                        "<non-string panic>".into()
                    };
                }
                writeln!(
                    self.failures,
                    "    GenFailure {{ id: {id:?}, family: {family:?}, desc: {desc:?}, message: {msg:?} }},"
                )
                .unwrap();
                writeln!(self.have, "#[allow(unused_macros)] macro_rules! have_{id} {{ ($($t:tt)*) => {{ }} }}").unwrap();
                self.n_fail += 1;
                false
            }
        }
    }
}

fn ops_list(l: &[&str]) -> String {
    let v: Vec<String> = l.iter().map(|s| format!("{s:?}")).collect();
    format!("&[{}]", v.join(", "))
}

fn main() {
    println!("cargo::rerun-if-changed=build.rs");
    let out_dir = std::env::var("OUT_DIR").unwrap();
    std::panic::set_hook(Box::new(|info| {
        let msg = if let Some(s) = info.payload().downcast_ref::<&str>() {
            s.to_string()
        } else if let Some(s) = info.payload().downcast_ref::<String>() {
            s.clone()
        } else {
            "<non-string panic>".to_string()
        };
        let loc = info
            .location()
            .map(|l| format!(" @ {}:{}", l.file(), l.line()))
            .unwrap_or_default();
        let mut g = LAST_PANIC.lock().unwrap();
        if g.is_empty() {
            *g = format!("{msg}{loc}");
        }
    }));

    let mut g = Gen {
        out_dir,
        mods: String::new(),
        progs: String::new(),
        nets: String::new(),
        failures: String::new(),
        have: String::new(),
        n_ok: 0,
        n_fail: 0,
    };

    // ------------------------------------------------------------------ C30: tick family
    let ops = tickops::ops();
    let find = |n: &str| -> OpFn { ops.iter().find(|(m, _)| *m == n).unwrap().1 };
    let gen_tick = |fs: Vec<OpFn>| -> syn::File {
        let mut flow = FlowBuilder::new();
        let p = flow.process::<()>();
        let tick = p.tick();
        let a = p.embedded_input::<i32>("a");
        let mut cur = a.batch(&tick, nondet!(/** the driver chooses the batches */));
        for f in fs {
            cur = f(cur);
        }
        cur.all_ticks().embedded_output("out");
        flow.with_process(&p, "prog").generate_embedded(CRATE)
    };
    for (name, f) in &ops {
        let id = format!("t1_{name}");
        let f = *f;
        if g.one(&id, "tick1", name, || gen_tick(vec![f])) {
            writeln!(g.progs, "    ProgInfo {{ id: {id:?}, family: \"tick1\", ops: {}, run: Runner::A1(|b| run_a1!({id}, b)) }},", ops_list(&[name])).unwrap();
        }
    }
    let core = tickops::core_ops();
    for n1 in &core {
        for n2 in core.iter().chain(["join_m"].iter()) {
            let id = format!("t2_{n1}__{n2}");
            let (f1, f2) = (find(n1), find(n2));
            if g.one(&id, "tick2", &format!("{n2}({n1}(batch))"), || gen_tick(vec![f1, f2])) {
                writeln!(g.progs, "    ProgInfo {{ id: {id:?}, family: \"tick2\", ops: {}, run: Runner::A1(|b| run_a1!({id}, b)) }},", ops_list(&[n1, n2])).unwrap();
            }
        }
    }
    for (name, f) in tickops::ops2() {
        let id = format!("b2_{name}");
        let ok = g.one(&id, "tick_two_inputs", name, || {
            let mut flow = FlowBuilder::new();
            let p = flow.process::<()>();
            let tick = p.tick();
            let a = p
                .embedded_input::<i32>("a")
                .batch(&tick, nondet!(/** the driver chooses the batches */));
            let b = p
                .embedded_input::<i32>("b")
                .batch(&tick, nondet!(/** the driver chooses the batches */));
            f(a, b).all_ticks().embedded_output("out");
            flow.with_process(&p, "prog").generate_embedded(CRATE)
        });
        if ok {
            writeln!(g.progs, "    ProgInfo {{ id: {id:?}, family: \"tick_two_inputs\", ops: {}, run: Runner::A2(|b| run_a2!({id}, b)) }},", ops_list(&[name])).unwrap();
        }
    }

    // ------------------------------------------------------------------ C41: top-level family
    let uops = top::uops();
    let ufind = |n: &str| -> UFn { uops.iter().find(|(m, _)| *m == n).unwrap().1 };
    let gen_top = |fs: Vec<UFn>| -> syn::File {
        let mut flow = FlowBuilder::new();
        let p = flow.process::<()>();
        let mut cur = p.embedded_input::<i32>("a");
        for f in fs {
            cur = f(cur);
        }
        cur.embedded_output("out");
        flow.with_process(&p, "prog").generate_embedded(CRATE)
    };
    for (name, f) in &uops {
        let id = format!("u1_{name}");
        let f = *f;
        if g.one(&id, "top1", name, || gen_top(vec![f])) {
            writeln!(g.progs, "    ProgInfo {{ id: {id:?}, family: \"top1\", ops: {}, run: Runner::A1(|b| run_a1!({id}, b)) }},", ops_list(&[name])).unwrap();
        }
    }
    let ucore = top::core_uops();
    for n1 in &ucore {
        for n2 in &ucore {
            let id = format!("u2_{n1}__{n2}");
            let (f1, f2) = (ufind(n1), ufind(n2));
            if g.one(&id, "top2", &format!("{n2}({n1}(input))"), || gen_top(vec![f1, f2])) {
                writeln!(g.progs, "    ProgInfo {{ id: {id:?}, family: \"top2\", ops: {}, run: Runner::A1(|b| run_a1!({id}, b)) }},", ops_list(&[n1, n2])).unwrap();
            }
        }
    }
    for (name, f) in top::stressors() {
        let id = format!("x_{name}");
        if g.one(&id, "stressor", name, || gen_top(vec![f])) {
            writeln!(g.progs, "    ProgInfo {{ id: {id:?}, family: \"stressor\", ops: {}, run: Runner::A1(|b| run_a1!({id}, b)) }},", ops_list(&[name])).unwrap();
        }
    }
    // two-location stressors (driven by hand-written glue in src/twoloc.rs, guarded by have_*!)
    if g.one("y_hop_then_tick", "stressor2", "A -> B then tick on B", || {
        let mut flow = FlowBuilder::new();
        let a = flow.process::<LA>();
        let b = flow.process::<LB>();
        top::y_hop_then_tick(a.embedded_input::<i32>("a"), &b).embedded_output("out");
        flow.with_process(&a, "loc_a")
            .with_process(&b, "loc_b")
            .generate_embedded(CRATE)
    }) {
        writeln!(g.progs, "    ProgInfo {{ id: \"y_hop_then_tick\", family: \"stressor2\", ops: &[\"hop_then_tick\"], run: Runner::A1(crate::twoloc::run_hop_then_tick) }},").unwrap();
    }
    if g.one("y_cycle_through_network", "stressor2", "forward_ref completed through A -> B -> A", || {
        let mut flow = FlowBuilder::new();
        let a = flow.process::<LA>();
        let b = flow.process::<LB>();
        top::y_cycle_through_network(a.embedded_input::<i32>("a"), &b).embedded_output("out");
        flow.with_process(&a, "loc_a")
            .with_process(&b, "loc_b")
            .generate_embedded(CRATE)
    }) {
        writeln!(g.progs, "    ProgInfo {{ id: \"y_cycle_through_network\", family: \"stressor2\", ops: &[\"cycle_through_network\"], run: Runner::A1(crate::twoloc::run_cycle_through_network) }},").unwrap();
    }
    if g.one("y_shared_send_and_tick", "stressor2", "shared stream: network round trip + local tick", || {
        let mut flow = FlowBuilder::new();
        let a = flow.process::<LA>();
        let b = flow.process::<LB>();
        top::y_shared_send_and_tick(a.embedded_input::<i32>("a"), &b).embedded_output("out");
        flow.with_process(&a, "loc_a")
            .with_process(&b, "loc_b")
            .generate_embedded(CRATE)
    }) {
        writeln!(g.progs, "    ProgInfo {{ id: \"y_shared_send_and_tick\", family: \"stressor2\", ops: &[\"shared_send_and_tick\"], run: Runner::A1(crate::twoloc::run_shared_send_and_tick) }},").unwrap();
    }

    // ------------------------------------------------------------------ C35: network flows
    macro_rules! net_flows {
        ($tyname:literal, $ty:ty, bcast = $bc:expr) => {{
            let ty_src = stringify!($ty);
            {
                let id = format!("n_o2o_{}", $tyname);
                if g.one(&id, "net", &format!("o2o<{ty_src}>"), || {
                    let mut flow = FlowBuilder::new();
                    let s = flow.process::<S>();
                    let r = flow.process::<R>();
                    net::o2o::<$ty>(s.embedded_input("a"), &r).embedded_output("out");
                    flow.with_process(&s, "snd").with_process(&r, "rcv").generate_embedded(CRATE)
                }) {
                    writeln!(g.nets, "    NetInfo {{ id: {id:?}, shape: \"o2o\", ty: {:?}, run: |c, st| net_o2o!({id}, {ty_src}, c, st) }},", $tyname).unwrap();
                }
            }
            {
                let id = format!("n_o2m_{}", $tyname);
                if g.one(&id, "net", &format!("o2m_demux<{ty_src}>"), || {
                    let mut flow = FlowBuilder::new();
                    let s = flow.process::<S>();
                    let r = flow.cluster::<R>();
                    net::o2m_demux::<$ty>(s.embedded_input::<(MemberId<R>, $ty)>("a"), &r).embedded_output("out");
                    flow.with_process(&s, "snd").with_cluster(&r, "rcv").generate_embedded(CRATE)
                }) {
                    writeln!(g.nets, "    NetInfo {{ id: {id:?}, shape: \"o2m_demux\", ty: {:?}, run: |c, st| net_o2m!({id}, {ty_src}, c, st) }},", $tyname).unwrap();
                }
            }
            {
                let id = format!("n_m2o_{}", $tyname);
                if g.one(&id, "net", &format!("m2o<{ty_src}>"), || {
                    let mut flow = FlowBuilder::new();
                    let s = flow.cluster::<S>();
                    let r = flow.process::<R>();
                    net::m2o::<$ty>(s.embedded_input("a"), &r).embedded_output("out");
                    flow.with_cluster(&s, "snd").with_process(&r, "rcv").generate_embedded(CRATE)
                }) {
                    writeln!(g.nets, "    NetInfo {{ id: {id:?}, shape: \"m2o\", ty: {:?}, run: |c, st| net_m2o!({id}, {ty_src}, c, st) }},", $tyname).unwrap();
                }
            }
            {
                let id = format!("n_m2m_{}", $tyname);
                if g.one(&id, "net", &format!("m2m_demux<{ty_src}>"), || {
                    let mut flow = FlowBuilder::new();
                    let s = flow.cluster::<S>();
                    let r = flow.cluster::<R>();
                    net::m2m_demux::<$ty>(s.embedded_input::<(MemberId<R>, $ty)>("a"), &r).embedded_output("out");
                    flow.with_cluster(&s, "snd").with_cluster(&r, "rcv").generate_embedded(CRATE)
                }) {
                    writeln!(g.nets, "    NetInfo {{ id: {id:?}, shape: \"m2m_demux\", ty: {:?}, run: |c, st| net_m2m!({id}, {ty_src}, c, st) }},", $tyname).unwrap();
                }
            }
            if $bc {
                {
                    let id = format!("n_o2mb_{}", $tyname);
                    if g.one(&id, "net", &format!("o2m_bcast<{ty_src}>"), || {
                        let mut flow = FlowBuilder::new();
                        let s = flow.process::<S>();
                        let r = flow.cluster::<R>();
                        net::o2m_bcast::<$ty>(s.embedded_input("a"), &r).embedded_output("out");
                        flow.with_process(&s, "snd").with_cluster(&r, "rcv").generate_embedded(CRATE)
                    }) {
                        writeln!(g.nets, "    NetInfo {{ id: {id:?}, shape: \"o2m_bcast\", ty: {:?}, run: |c, st| net_o2mb!({id}, {ty_src}, c, st) }},", $tyname).unwrap();
                    }
                }
                {
                    let id = format!("n_m2mb_{}", $tyname);
                    if g.one(&id, "net", &format!("m2m_bcast<{ty_src}>"), || {
                        let mut flow = FlowBuilder::new();
                        let s = flow.cluster::<S>();
                        let r = flow.cluster::<R>();
                        net::m2m_bcast::<$ty>(s.embedded_input("a"), &r).embedded_output("out");
                        flow.with_cluster(&s, "snd").with_cluster(&r, "rcv").generate_embedded(CRATE)
                    }) {
                        writeln!(g.nets, "    NetInfo {{ id: {id:?}, shape: \"m2m_bcast\", ty: {:?}, run: |c, st| net_m2mb!({id}, {ty_src}, c, st) }},", $tyname).unwrap();
                    }
                }
            }
        }};
    }
    net_flows!("i64", i64, bcast = true);
    net_flows!("string", String, bcast = false);
    net_flows!("opt", TOpt, bcast = false);
    net_flows!("vecu16", Vec<u16>, bcast = true);
    net_flows!("e3", E3, bcast = true);
    net_flows!("nested", TNested, bcast = false);
    net_flows!("res", TRes, bcast = false);

    // ------------------------------------------------------------------ write tables
    let out_dir = g.out_dir.clone();
    std::fs::write(format!("{out_dir}/mods.rs"), &g.mods).unwrap();
    std::fs::write(format!("{out_dir}/have.rs"), &g.have).unwrap();
    std::fs::write(
        format!("{out_dir}/table.rs"),
        format!(
            "pub static PROGS: &[ProgInfo] = &[\n{}];\n\npub static NETS: &[NetInfo] = &[\n{}];\n\npub static GEN_FAILURES: &[GenFailure] = &[\n{}];\n\npub const GEN_OK: usize = {};\npub const GEN_FAILED: usize = {};\n",
            g.progs, g.nets, g.failures, g.n_ok, g.n_fail
        ),
    )
    .unwrap();
    let _ = std::panic::take_hook();
}
