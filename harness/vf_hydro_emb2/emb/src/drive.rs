//! Harness-owned input stream: a FIFO the driver fills between ticks. It never ends (returns
//! `Pending` when empty), so the generated `source_stream` simply drains what is there.
use std::cell::RefCell;
use std::collections::VecDeque;
use std::pin::Pin;
use std::rc::Rc;
use std::task::{Context, Poll};

pub struct Q<T>(Rc<RefCell<VecDeque<T>>>);

impl<T> Clone for Q<T> {
    fn clone(&self) -> Self {
        Q(self.0.clone())
    }
}

impl<T> Q<T> {
    pub fn new() -> Self {
        Q(Rc::new(RefCell::new(VecDeque::new())))
    }
    pub fn push(&self, t: T) {
        self.0.borrow_mut().push_back(t)
    }
}

impl<T> futures::Stream for Q<T> {
    type Item = T;
    fn poll_next(self: Pin<&mut Self>, _cx: &mut Context<'_>) -> Poll<Option<T>> {
        match self.0.borrow_mut().pop_front() {
            Some(x) => Poll::Ready(Some(x)),
            None => Poll::Pending,
        }
    }
}

impl<T> Unpin for Q<T> {}
