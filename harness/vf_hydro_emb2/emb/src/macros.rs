//! Glue between the generated per-program modules (`crate::gen_::<id>`) and the drivers.
//! Generated function parameter order (compile/embedded.rs): cluster self id, membership,
//! singleton inputs, inputs (by name), outputs, network_in, network_out.

/// One i32 input `a`, one i32 output `out`; one `run_tick_sync()` per batch.
macro_rules! run_a1 {
    ($m:ident, $batches:expr) => {{
        let q = $crate::drive::Q::<i32>::new();
        let col = std::cell::RefCell::new(Vec::<i32>::new());
        let mut outs = $crate::gen_::$m::prog::EmbeddedOutputs {
            out: |x: i32| col.borrow_mut().push(x),
        };
        let mut df = $crate::gen_::$m::prog(q.clone(), &mut outs);
        let mut res: Vec<Vec<i32>> = Vec::new();
        for b in $batches.iter() {
            for x in b.iter() {
                q.push(*x);
            }
            df.run_tick_sync();
            res.push(col.take());
        }
        drop(df);
        res
    }};
}

/// Two i32 inputs `a`, `b`, one output.
macro_rules! run_a2 {
    ($m:ident, $batches:expr) => {{
        let qa = $crate::drive::Q::<i32>::new();
        let qb = $crate::drive::Q::<i32>::new();
        let col = std::cell::RefCell::new(Vec::<i32>::new());
        let mut outs = $crate::gen_::$m::prog::EmbeddedOutputs {
            out: |x: i32| col.borrow_mut().push(x),
        };
        let mut df = $crate::gen_::$m::prog(qa.clone(), qb.clone(), &mut outs);
        let mut res: Vec<Vec<i32>> = Vec::new();
        for (a, b) in $batches.iter() {
            for x in a.iter() {
                qa.push(*x);
            }
            for x in b.iter() {
                qb.push(*x);
            }
            df.run_tick_sync();
            res.push(col.take());
        }
        drop(df);
        res
    }};
}

// ------------------------------------------------------------------------------------------------
// C35 network shapes. `$c: &NetCtx`, `$st: &mut Stats`.

macro_rules! net_o2o {
    ($m:ident, $ty:ty, $c:expr, $st:expr) => {{
        use $crate::gen_::$m as g;
        $crate::c35::drive_o2o::<$ty>(stringify!($m), $c, $st, |msgs: &[$ty]| {
            // sender
            let wire = std::cell::RefCell::new(Vec::<$crate::c35::Bytes>::new());
            {
                let q = $crate::drive::Q::<$ty>::new();
                let mut no = g::snd::EmbeddedNetworkOut { ch: |b: $crate::c35::Bytes| wire.borrow_mut().push(b) };
                let mut df = g::snd(q.clone(), &mut no);
                for m in msgs { q.push(m.clone()); }
                df.run_tick_sync();
                df.run_tick_sync();
            }
            // receiver
            let got = std::cell::RefCell::new(Vec::<$ty>::new());
            {
                let qi = $crate::drive::Q::<Result<$crate::c35::BytesMut, std::io::Error>>::new();
                let mut outs = g::rcv::EmbeddedOutputs { out: |v: $ty| got.borrow_mut().push(v) };
                let ni = g::rcv::EmbeddedNetworkIn { ch: qi.clone() };
                let mut df = g::rcv(&mut outs, ni);
                for b in wire.borrow().iter() { qi.push(Ok($crate::c35::BytesMut::from(b.as_ref()))); }
                df.run_tick_sync();
                df.run_tick_sync();
            }
            (wire.borrow().len(), got.into_inner())
        })
    }};
}

/// process -> cluster, demux: input items are (MemberId<R>, T).
macro_rules! net_o2m {
    ($m:ident, $ty:ty, $c:expr, $st:expr) => {{
        use $crate::gen_::$m as g;
        $crate::c35::drive_to_cluster::<$ty>(stringify!($m), false, false, $c, $st,
            |_sender: Option<u32>, members: &[u32], msgs: &[(u32, $ty)]| {
            let wire = std::cell::RefCell::new(Vec::<($crate::c35::TaglessMemberId, $crate::c35::Bytes)>::new());
            {
                let q = $crate::drive::Q::<($crate::c35::MemberId<$crate::c35::R>, $ty)>::new();
                let mut no = g::snd::EmbeddedNetworkOut { ch: |b| wire.borrow_mut().push(b) };
                let mut df = g::snd(q.clone(), &mut no);
                for (d, m) in msgs { q.push(($crate::c35::MemberId::from_raw_id(*d), m.clone())); }
                df.run_tick_sync();
                df.run_tick_sync();
            }
            let wire = wire.into_inner();
            let mut per_member: Vec<Vec<(Option<u32>, $ty)>> = Vec::new();
            for id in members {
                let got = std::cell::RefCell::new(Vec::<(Option<u32>, $ty)>::new());
                {
                    let me = $crate::c35::TaglessMemberId::from_raw_id(*id);
                    let qi = $crate::drive::Q::<Result<$crate::c35::BytesMut, std::io::Error>>::new();
                    let mut outs = g::rcv::EmbeddedOutputs { out: |v: $ty| got.borrow_mut().push((None, v)) };
                    let ni = g::rcv::EmbeddedNetworkIn { ch: qi.clone() };
                    let mut df = g::rcv(&me, &mut outs, ni);
                    for (dst, b) in wire.iter() {
                        if dst.get_raw_id() == *id { qi.push(Ok($crate::c35::BytesMut::from(b.as_ref()))); }
                    }
                    df.run_tick_sync();
                    df.run_tick_sync();
                }
                per_member.push(got.into_inner());
            }
            (wire.iter().map(|(d, _)| d.get_raw_id()).collect::<Vec<u32>>(), per_member)
        })
    }};
}

/// process -> cluster, broadcast (needs the membership stream of the receiving cluster).
macro_rules! net_o2mb {
    ($m:ident, $ty:ty, $c:expr, $st:expr) => {{
        use $crate::gen_::$m as g;
        $crate::c35::drive_to_cluster::<$ty>(stringify!($m), false, true, $c, $st,
            |_sender: Option<u32>, members: &[u32], msgs: &[(u32, $ty)]| {
            let wire = std::cell::RefCell::new(Vec::<($crate::c35::TaglessMemberId, $crate::c35::Bytes)>::new());
            {
                let q = $crate::drive::Q::<$ty>::new();
                let qm = $crate::drive::Q::<($crate::c35::TaglessMemberId, $crate::c35::MembershipEvent)>::new();
                let mem = g::snd::EmbeddedMembershipStreams { rcv: qm.clone() };
                let mut no = g::snd::EmbeddedNetworkOut { ch: |b| wire.borrow_mut().push(b) };
                let mut df = g::snd(mem, q.clone(), &mut no);
                for id in members { qm.push(($crate::c35::TaglessMemberId::from_raw_id(*id), $crate::c35::MembershipEvent::Joined)); }
                df.run_tick_sync();
                df.run_tick_sync();
                for (_d, m) in msgs { q.push(m.clone()); }
                df.run_tick_sync();
                df.run_tick_sync();
            }
            let wire = wire.into_inner();
            let mut per_member: Vec<Vec<(Option<u32>, $ty)>> = Vec::new();
            for id in members {
                let got = std::cell::RefCell::new(Vec::<(Option<u32>, $ty)>::new());
                {
                    let me = $crate::c35::TaglessMemberId::from_raw_id(*id);
                    let qi = $crate::drive::Q::<Result<$crate::c35::BytesMut, std::io::Error>>::new();
                    let mut outs = g::rcv::EmbeddedOutputs { out: |v: $ty| got.borrow_mut().push((None, v)) };
                    let ni = g::rcv::EmbeddedNetworkIn { ch: qi.clone() };
                    let mut df = g::rcv(&me, &mut outs, ni);
                    for (dst, b) in wire.iter() {
                        if dst.get_raw_id() == *id { qi.push(Ok($crate::c35::BytesMut::from(b.as_ref()))); }
                    }
                    df.run_tick_sync();
                    df.run_tick_sync();
                }
                per_member.push(got.into_inner());
            }
            (wire.iter().map(|(d, _)| d.get_raw_id()).collect::<Vec<u32>>(), per_member)
        })
    }};
}

/// cluster -> process: every sender member sends; the receiver sees (MemberId<S>, T).
macro_rules! net_m2o {
    ($m:ident, $ty:ty, $c:expr, $st:expr) => {{
        use $crate::gen_::$m as g;
        $crate::c35::drive_m2o::<$ty>(stringify!($m), $c, $st, |sends: &[(u32, Vec<$ty>)]| {
            // each sending member is its own instance of the cluster function
            let mut tagged: Vec<(u32, $crate::c35::Bytes)> = Vec::new();
            for (sid, msgs) in sends {
                let wire = std::cell::RefCell::new(Vec::<$crate::c35::Bytes>::new());
                {
                    let me = $crate::c35::TaglessMemberId::from_raw_id(*sid);
                    let q = $crate::drive::Q::<$ty>::new();
                    let mut no = g::snd::EmbeddedNetworkOut { ch: |b: $crate::c35::Bytes| wire.borrow_mut().push(b) };
                    let mut df = g::snd(&me, q.clone(), &mut no);
                    for m in msgs { q.push(m.clone()); }
                    df.run_tick_sync();
                    df.run_tick_sync();
                }
                for b in wire.into_inner() { tagged.push((*sid, b)); }
            }
            let got = std::cell::RefCell::new(Vec::<(u32, $ty)>::new());
            {
                let qi = $crate::drive::Q::<Result<($crate::c35::TaglessMemberId, $crate::c35::BytesMut), std::io::Error>>::new();
                let mut outs = g::rcv::EmbeddedOutputs {
                    out: |v: ($crate::c35::MemberId<$crate::c35::S>, $ty)| got.borrow_mut().push((v.0.into_tagless().get_raw_id(), v.1)),
                };
                let ni = g::rcv::EmbeddedNetworkIn { ch: qi.clone() };
                let mut df = g::rcv(&mut outs, ni);
                for (sid, b) in tagged.iter() {
                    qi.push(Ok(($crate::c35::TaglessMemberId::from_raw_id(*sid), $crate::c35::BytesMut::from(b.as_ref()))));
                }
                df.run_tick_sync();
                df.run_tick_sync();
            }
            (tagged.len(), got.into_inner())
        })
    }};
}

/// cluster -> cluster demux: one sending member, items (MemberId<R>, T).
macro_rules! net_m2m {
    ($m:ident, $ty:ty, $c:expr, $st:expr) => {{
        use $crate::gen_::$m as g;
        $crate::c35::drive_to_cluster::<$ty>(stringify!($m), true, false, $c, $st,
            |sender: Option<u32>, members: &[u32], msgs: &[(u32, $ty)]| {
            let sid = sender.unwrap();
            let wire = std::cell::RefCell::new(Vec::<($crate::c35::TaglessMemberId, $crate::c35::Bytes)>::new());
            {
                let me = $crate::c35::TaglessMemberId::from_raw_id(sid);
                let q = $crate::drive::Q::<($crate::c35::MemberId<$crate::c35::R>, $ty)>::new();
                let mut no = g::snd::EmbeddedNetworkOut { ch: |b| wire.borrow_mut().push(b) };
                let mut df = g::snd(&me, q.clone(), &mut no);
                for (d, m) in msgs { q.push(($crate::c35::MemberId::from_raw_id(*d), m.clone())); }
                df.run_tick_sync();
                df.run_tick_sync();
            }
            let wire = wire.into_inner();
            let mut per_member: Vec<Vec<(Option<u32>, $ty)>> = Vec::new();
            for id in members {
                let got = std::cell::RefCell::new(Vec::<(Option<u32>, $ty)>::new());
                {
                    let me = $crate::c35::TaglessMemberId::from_raw_id(*id);
                    let qi = $crate::drive::Q::<Result<($crate::c35::TaglessMemberId, $crate::c35::BytesMut), std::io::Error>>::new();
                    let mut outs = g::rcv::EmbeddedOutputs {
                        out: |v: ($crate::c35::MemberId<$crate::c35::S>, $ty)| got.borrow_mut().push((Some(v.0.into_tagless().get_raw_id()), v.1)),
                    };
                    let ni = g::rcv::EmbeddedNetworkIn { ch: qi.clone() };
                    let mut df = g::rcv(&me, &mut outs, ni);
                    for (dst, b) in wire.iter() {
                        if dst.get_raw_id() == *id {
                            qi.push(Ok(($crate::c35::TaglessMemberId::from_raw_id(sid), $crate::c35::BytesMut::from(b.as_ref()))));
                        }
                    }
                    df.run_tick_sync();
                    df.run_tick_sync();
                }
                per_member.push(got.into_inner());
            }
            (wire.iter().map(|(d, _)| d.get_raw_id()).collect::<Vec<u32>>(), per_member)
        })
    }};
}

/// cluster -> cluster broadcast.
macro_rules! net_m2mb {
    ($m:ident, $ty:ty, $c:expr, $st:expr) => {{
        use $crate::gen_::$m as g;
        $crate::c35::drive_to_cluster::<$ty>(stringify!($m), true, true, $c, $st,
            |sender: Option<u32>, members: &[u32], msgs: &[(u32, $ty)]| {
            let sid = sender.unwrap();
            let wire = std::cell::RefCell::new(Vec::<($crate::c35::TaglessMemberId, $crate::c35::Bytes)>::new());
            {
                let me = $crate::c35::TaglessMemberId::from_raw_id(sid);
                let q = $crate::drive::Q::<$ty>::new();
                let qm = $crate::drive::Q::<($crate::c35::TaglessMemberId, $crate::c35::MembershipEvent)>::new();
                let mem = g::snd::EmbeddedMembershipStreams { rcv: qm.clone() };
                let mut no = g::snd::EmbeddedNetworkOut { ch: |b| wire.borrow_mut().push(b) };
                let mut df = g::snd(&me, mem, q.clone(), &mut no);
                for id in members { qm.push(($crate::c35::TaglessMemberId::from_raw_id(*id), $crate::c35::MembershipEvent::Joined)); }
                df.run_tick_sync();
                df.run_tick_sync();
                for (_d, m) in msgs { q.push(m.clone()); }
                df.run_tick_sync();
                df.run_tick_sync();
            }
            let wire = wire.into_inner();
            let mut per_member: Vec<Vec<(Option<u32>, $ty)>> = Vec::new();
            for id in members {
                let got = std::cell::RefCell::new(Vec::<(Option<u32>, $ty)>::new());
                {
                    let me = $crate::c35::TaglessMemberId::from_raw_id(*id);
                    let qi = $crate::drive::Q::<Result<($crate::c35::TaglessMemberId, $crate::c35::BytesMut), std::io::Error>>::new();
                    let mut outs = g::rcv::EmbeddedOutputs {
                        out: |v: ($crate::c35::MemberId<$crate::c35::S>, $ty)| got.borrow_mut().push((Some(v.0.into_tagless().get_raw_id()), v.1)),
                    };
                    let ni = g::rcv::EmbeddedNetworkIn { ch: qi.clone() };
                    let mut df = g::rcv(&me, &mut outs, ni);
                    for (dst, b) in wire.iter() {
                        if dst.get_raw_id() == *id {
                            qi.push(Ok(($crate::c35::TaglessMemberId::from_raw_id(sid), $crate::c35::BytesMut::from(b.as_ref()))));
                        }
                    }
                    df.run_tick_sync();
                    df.run_tick_sync();
                }
                per_member.push(got.into_inner());
            }
            (wire.iter().map(|(d, _)| d.get_raw_id()).collect::<Vec<u32>>(), per_member)
        })
    }};
}
