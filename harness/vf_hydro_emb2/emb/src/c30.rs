//! C30 — tick-scoped collections behave like finite batches.
use std::collections::BTreeMap;
use std::sync::Mutex;

use vf_explore::{Report, Stats, Value, catch, combi, json, ncpu, par_map};

use crate::refsem::{self, Groups};
use crate::{PROGS, ProgInfo, Runner};

pub const ALPHA: [i32; 3] = [0, 1, 2];
pub const ALPHA_B: [i32; 2] = [0, 1];

/// All batches with at most `max_items` items.
pub fn batches(alpha: &[i32], max_items: usize) -> Vec<Vec<i32>> {
    combi::sequences_upto(alpha, max_items)
}

/// Expected per-tick groups for a one-input program.
fn expected_a1(ops: &[&str], seq: &[Vec<i32>]) -> Vec<Groups> {
    let mut steps: Vec<Box<dyn refsem::Step>> = ops.iter().map(|o| refsem::make(o)).collect();
    seq.iter()
        .map(|b| {
            let mut cur: Groups = b.iter().map(|x| vec![*x]).collect();
            for s in steps.iter_mut() {
                cur = s.step(&refsem::flatten(&cur));
            }
            cur
        })
        .collect()
}

fn expected_a2(op: &str, seq: &[(Vec<i32>, Vec<i32>)]) -> Vec<Groups> {
    let mut s = refsem::make2(op);
    seq.iter().map(|(a, b)| s.step(a, b)).collect()
}

#[derive(Clone, Debug)]
pub enum Input {
    One(Vec<Vec<i32>>),
    Two(Vec<(Vec<i32>, Vec<i32>)>),
}

impl Input {
    fn truncate(&self, n: usize) -> Input {
        match self {
            Input::One(v) => Input::One(v[..n].to_vec()),
            Input::Two(v) => Input::Two(v[..n].to_vec()),
        }
    }
    fn to_json(&self) -> Value {
        match self {
            Input::One(v) => json!({"a": v}),
            Input::Two(v) => json!({"a": v.iter().map(|x| x.0.clone()).collect::<Vec<_>>(),
                                    "b": v.iter().map(|x| x.1.clone()).collect::<Vec<_>>()}),
        }
    }
    fn from_json(v: &Value) -> Input {
        let get = |k: &str| -> Option<Vec<Vec<i32>>> {
            v.get(k).map(|a| {
                a.as_array()
                    .unwrap()
                    .iter()
                    .map(|b| b.as_array().unwrap().iter().map(|x| x.as_i64().unwrap() as i32).collect())
                    .collect()
            })
        };
        let a = get("a").expect("replay: missing a");
        match get("b") {
            None => Input::One(a),
            Some(b) => Input::Two(a.into_iter().zip(b).collect()),
        }
    }
    fn nonempty(&self) -> bool {
        match self {
            Input::One(v) => v.iter().any(|b| !b.is_empty()),
            Input::Two(v) => v.iter().any(|b| !b.0.is_empty() || !b.1.is_empty()),
        }
    }
}

/// Result of judging one execution.
pub struct Judged {
    pub actual: Result<Vec<Vec<i32>>, String>,
    pub expected: Vec<Groups>,
    /// (tick index, text) of the first tick whose output differs.
    pub mismatch: Option<(usize, String)>,
}

pub fn judge(p: &ProgInfo, input: &Input) -> Judged {
    let (actual, expected) = match (&p.run, input) {
        (Runner::A1(f), Input::One(seq)) => (catch(|| f(seq)), expected_a1(p.ops, seq)),
        (Runner::A2(f), Input::Two(seq)) => (catch(|| f(seq)), expected_a2(p.ops[0], seq)),
        _ => panic!("runner / input kind mismatch for {}", p.id),
    };
    let mismatch = match &actual {
        Err(e) => Some((0, format!("panic in generated dataflow: {e}"))),
        Ok(act) => {
            let mut m = None;
            for (t, exp) in expected.iter().enumerate() {
                if !refsem::matches(exp, &act[t]) {
                    m = Some((
                        t,
                        format!(
                            "tick {t}: output {:?}, reference {:?}",
                            act[t],
                            refsem::flatten(exp)
                        ),
                    ));
                    break;
                }
            }
            m
        }
    };
    Judged { actual, expected, mismatch }
}

struct Bounds {
    /// (max_batches, max_items) for one-input programs; every listed space is enumerated.
    one: Vec<(usize, usize)>,
    /// (ticks, max_items_a, max_items_b) for two-input programs.
    two: Vec<(usize, usize, usize)>,
}

fn is_c30(p: &ProgInfo) -> bool {
    matches!(p.family, "tick1" | "tick2" | "tick_two_inputs")
}

pub fn run(rep: &mut Report) {
    let thorough = rep.thorough();
    let bounds = if thorough {
        Bounds { one: vec![(4, 2), (3, 3)], two: vec![(3, 2, 2)] }
    } else {
        Bounds { one: vec![(3, 2)], two: vec![(3, 2, 1)] }
    };
    rep.rule = "case = (program of the tick grammar, sequence of input batches); every sequence of exactly \
                N batches is executed (shorter sequences are its prefixes: outputs are compared tick by tick); \
                non-trivial = some batch non-empty and the reference output non-empty in some tick"
        .into();
    rep.explanation = "each program input.batch(&tick) -> T -> all_ticks() is compiled by the production \
        generate_embedded path; the driver pushes batch t and calls run_tick_sync(); the output collected in \
        tick t must equal the iterator-semantics reference of T on batch t (state only where the property \
        allows it: defer_tick, tick cycles, across_ticks); join matches of one probe row are compared as a multiset"
        .into();
    rep.assume("reference interpreter emb/src/refsem.rs is the meaning of the operators (iterator semantics)");
    rep.assume("one run_tick_sync() call = one tick; inputs pushed before the call form that tick's batch");
    rep.assume("generated code is deterministic (each failing case is re-executed once)");
    rep.bound("alphabet", json!(ALPHA));
    rep.bound("one_input_spaces_(batches,max_items)", json!(bounds.one));
    rep.bound("two_input_spaces_(ticks,max_items_a,max_items_b_over_{0,1})", json!(bounds.two));

    let progs: Vec<&ProgInfo> = PROGS.iter().filter(|p| is_c30(p)).collect();
    rep.bound("programs", progs.len());
    rep.bound(
        "programs_depth1",
        progs.iter().filter(|p| p.family == "tick1").count(),
    );
    rep.bound(
        "programs_depth2",
        progs.iter().filter(|p| p.family == "tick2").count(),
    );

    // jobs: (program, space, first batch index)
    struct Job {
        prog: usize,
        space: usize,
        first: usize,
    }
    let mut jobs = vec![];
    for (pi, p) in progs.iter().enumerate() {
        match p.run {
            Runner::A1(_) => {
                for (si, (_nb, mi)) in bounds.one.iter().enumerate() {
                    for f in 0..batches(&ALPHA, *mi).len() {
                        jobs.push(Job { prog: pi, space: si, first: f });
                    }
                }
            }
            Runner::A2(_) => {
                for (si, (_t, ma, mb)) in bounds.two.iter().enumerate() {
                    let n = batches(&ALPHA, *ma).len() * batches(&ALPHA_B, *mb).len();
                    for f in 0..n {
                        jobs.push(Job { prog: pi, space: si, first: f });
                    }
                }
            }
        }
    }
    // minimal failing case per program: (failing tick, input prefix json string) -> Input
    let worst: Mutex<BTreeMap<String, (usize, String, Input)>> = Mutex::new(BTreeMap::new());

    let st = par_map(jobs.len(), ncpu().min(16), |ji| {
        let job = &jobs[ji];
        let p = progs[job.prog];
        let mut st = Stats::new();
        let mut handle = |input: Input, show: bool| {
            let j = judge(p, &input);
            st.eval();
            if input.nonempty() && j.expected.iter().any(|g| !g.is_empty()) {
                st.nontrivial(&(p.id, format!("{input:?}")));
            }
            st.outcome(&format!("{:?}", j.actual));
            if show {
                st.sample(|| json!({"program": p.id, "ops": p.ops, "input": input.to_json(),
                                     "output_per_tick": format!("{:?}", j.actual)}));
            }
            if let Some((t, _)) = &j.mismatch {
                st.violations_total += 1;
                let pre = input.truncate(t + 1);
                let key = pre.to_json().to_string();
                let mut w = worst.lock().unwrap();
                let better = match w.get(p.id) {
                    None => true,
                    Some((wt, wk, _)) => (*t, &key) < (*wt, wk),
                };
                if better {
                    w.insert(p.id.to_string(), (*t, key, pre));
                }
            }
        };
        match p.run {
            Runner::A1(_) => {
                let (nb, mi) = bounds.one[job.space];
                let bs = batches(&ALPHA, mi);
                let total = bs.len().pow((nb - 1) as u32);
                for c0 in 0..total {
                    let mut seq = vec![bs[job.first].clone()];
                    let mut c = c0;
                    for _ in 1..nb {
                        seq.push(bs[c % bs.len()].clone());
                        c /= bs.len();
                    }
                    handle(Input::One(seq), c0 + 1 == total && job.first + 1 == bs.len());
                }
            }
            Runner::A2(_) => {
                let (nt, ma, mb) = bounds.two[job.space];
                let ba = batches(&ALPHA, ma);
                let bb = batches(&ALPHA_B, mb);
                let pairs: Vec<(Vec<i32>, Vec<i32>)> = ba
                    .iter()
                    .flat_map(|a| bb.iter().map(move |b| (a.clone(), b.clone())))
                    .collect();
                let total = pairs.len().pow((nt - 1) as u32);
                for c0 in 0..total {
                    let mut seq = vec![pairs[job.first].clone()];
                    let mut c = c0;
                    for _ in 1..nt {
                        seq.push(pairs[c % pairs.len()].clone());
                        c /= pairs.len();
                    }
                    handle(Input::Two(seq), c0 + 1 == total && job.first + 1 == pairs.len());
                }
            }
        }
        st
    });
    let mut st = st;
    // violations_total was counted per failing execution; report one canonical case per program
    let failing_execs = st.violations_total;
    st.violations_total = 0;
    let worst = worst.into_inner().unwrap();
    for (id, (_t, key, input)) in &worst {
        let p = progs.iter().find(|p| p.id == id).unwrap();
        let j = judge(p, input);
        match j.mismatch {
            None => {
                println!("MACHINERY-ERROR: C30 {id} {key} failed once and then passed");
                std::process::exit(2);
            }
            Some((_, text)) => st.violation(
                format!("C30:{id}:{key}"),
                format!("program {id} (ops {:?}) on batches {key}: {text}", p.ops),
                json!({"kind": "tick", "program": id, "input": input.to_json()}),
            ),
        }
    }
    rep.bound("failing_executions", failing_execs);
    // programs that could not be generated are not checked here (C41 reports them)
    for f in crate::GEN_FAILURES.iter().filter(|f| f.family.starts_with("tick")) {
        st.cap(format!("program {} was not generated (reported by C41): not checked", f.id));
    }
    rep.section("tick_programs", st);
}

pub fn replay(case: &Value) -> bool {
    let id = case["program"].as_str().unwrap();
    let p = PROGS.iter().find(|p| p.id == id).expect("unknown program");
    let input = Input::from_json(&case["input"]);
    let j = judge(p, &input);
    println!("program {id} ops {:?}", p.ops);
    println!("input    {}", input.to_json());
    println!("observed {:?}", j.actual);
    println!(
        "expected {:?}",
        j.expected.iter().map(refsem::flatten).collect::<Vec<_>>()
    );
    match j.mismatch {
        Some((_, t)) => {
            println!("still violates: {t}");
            true
        }
        None => {
            println!("matches the reference");
            false
        }
    }
}
