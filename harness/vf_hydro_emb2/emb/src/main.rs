#[allow(unused_imports, unused_qualifications, non_snake_case, unused)]
mod gen_ {
    include!(concat!(env!("OUT_DIR"), "/mods.rs"));
}
include!(concat!(env!("OUT_DIR"), "/table.rs"));

use std::cell::RefCell;
use std::collections::VecDeque;
use std::pin::Pin;
use std::rc::Rc;
use std::task::{Context, Poll};

pub struct Q<T>(Rc<RefCell<VecDeque<T>>>);
impl<T> Clone for Q<T> { fn clone(&self) -> Self { Q(self.0.clone()) } }
impl<T> Q<T> {
    pub fn new() -> Self { Q(Rc::new(RefCell::new(VecDeque::new()))) }
    pub fn push(&self, t: T) { self.0.borrow_mut().push_back(t) }
}
impl<T> futures::Stream for Q<T> {
    type Item = T;
    fn poll_next(self: Pin<&mut Self>, _cx: &mut Context<'_>) -> Poll<Option<T>> {
        match self.0.borrow_mut().pop_front() { Some(x) => Poll::Ready(Some(x)), None => Poll::Pending }
    }
}
impl<T> Unpin for Q<T> {}

fn main() {
    let q = Q::<i32>::new();
    let col = RefCell::new(Vec::<i32>::new());
    let mut outs = gen_::p0001::prog::EmbeddedOutputs { out: |x: i32| col.borrow_mut().push(x) };
    let mut df = gen_::p0001::prog(q.clone(), &mut outs);
    for b in [vec![2, 1], vec![], vec![0, 0, 1]] {
        for x in b { q.push(x); }
        df.run_tick_sync();
        println!("{:?}", col.take());
    }
    println!("{:?}", T);
}
