//! Engine E2: Hydro through the production embedded code generator (C30, C35, C41).
#[macro_use]
mod macros;
include!(concat!(env!("OUT_DIR"), "/have.rs"));

pub mod drive;
pub mod refsem;
pub mod c30;
pub mod c35;
pub mod c41;
pub mod twoloc;

#[allow(unused_imports, unused_qualifications, non_snake_case, unused, clippy::all)]
pub mod gen_ {
    include!(concat!(env!("OUT_DIR"), "/mods.rs"));
}

pub enum Runner {
    /// one input `a`
    A1(fn(&[Vec<i32>]) -> Vec<Vec<i32>>),
    /// two inputs `a`, `b`
    A2(fn(&[(Vec<i32>, Vec<i32>)]) -> Vec<Vec<i32>>),
}

pub struct ProgInfo {
    pub id: &'static str,
    pub family: &'static str,
    pub ops: &'static [&'static str],
    pub run: Runner,
}

pub struct GenFailure {
    pub id: &'static str,
    pub family: &'static str,
    pub desc: &'static str,
    pub message: &'static str,
}

use c35::{E3, NetInfo, TNested, TOpt, TRes};
include!(concat!(env!("OUT_DIR"), "/table.rs"));

use vf_explore::{Report, Stats, Value, cli, ncpu, par_map, quiet_panics};

fn run_c35(rep: &mut Report) {
    let thorough = rep.thorough();
    rep.rule = "case = (network flow = shape x payload type, cluster member-id set, sender, sequence of 1 or 2 \
        (addressee, value) messages): ALL values of the per-type boundary alphabet, ALL ordered pairs, ALL \
        (sender, addressee) pairs; every case differs in flow or message content".into();
    rep.explanation = "flows are compiled by the production generate_embedded; the harness is the transport: it \
        moves what the generated network-out closure emitted (bytes + addressee TaglessMemberId) to the generated \
        network-in stream of the member with that id, tagging with the sender id; oracle: each receiver's output \
        callback got exactly the sent values (compared as a multiset per receiver), nothing at non-addressed members, \
        tag == sender id; MemberId <-> TaglessMemberId round trip over raw ids; sinktools::demux_map routes by key, also with \
        scripted back-pressuring member sinks (Pending at every subset of <= 2 of each sink's first 3 poll_ready / 3 poll_flush \
        calls): after send/flush completes every payload is in the addressed member's inbox, in order, nowhere else; \
        String / Vec<u16> flows additionally with encodings of 4095/4096/4097/~9000 bytes mixed with small messages \
        ([large, small], [small, large, small], other member / other sender / other-type flow next on the same thread)".into();
    rep.assume("values outside the boundary alphabet are not covered (bounded input enumeration)");
    rep.assume("the harness plays the transport (delivers by the emitted addressee id, tags with the sender id)");
    rep.assume("embedded deployment path (compile/embedded.rs); the deployed runtimes' socket layer is not exercised");
    let ctx = c35::NetCtx::new(thorough);
    rep.bound("member_id_sets", vf_explore::json!(ctx.member_sets));
    rep.bound("flows", NETS.len());
    rep.bound("raw_ids", vf_explore::json!(c35::RAW_IDS));
    rep.bound("max_messages_per_case", 2);
    let mut st = Stats::new();
    c35::member_ids(&mut st);
    rep.section("member_id_round_trip", st);
    let mut st = Stats::new();
    c35::demux_map_routing(&mut st, thorough);
    rep.section("demux_map_routing", st);
    rep.section("demux_map_scripted_backpressure", c35::demux_map_scripted(thorough));
    let st = par_map(NETS.len(), ncpu().min(16), |i| {
        let mut st = Stats::new();
        let ctx = c35::NetCtx::new(thorough);
        (NETS[i].run)(&ctx, &mut st);
        st
    });
    rep.section("network_flows", st);
    rep.bound("large_frame_encoded_sizes", vf_explore::json!(c35::NetCtx::new_large(thorough).large_sizes));
    rep.section("large_frames_same_thread", c35::large_frames(thorough, NETS, None));
    for f in GEN_FAILURES.iter().filter(|f| f.family == "net") {
        let mut st = Stats::new();
        st.cap(format!("flow {} was not generated (reported by C41): not checked", f.id));
        rep.section(&format!("missing_{}", f.id), st);
    }
}

fn replay_c35(case: &Value) -> bool {
    let flow = case["flow"].as_str().unwrap();
    let mut st = Stats::new();
    match flow {
        "member_id" | "member_id_pairs" => c35::member_ids(&mut st),
        "demux_map" => c35::demux_map_routing(&mut st, true),
        "demux_map_scripted" => {
            return c35::replay_demux_scripted(&case["case"]);
        }
        _ => {
            if case["case"]["large"].as_bool() == Some(true) {
                let st = c35::large_frames(true, NETS, Some((flow.to_string(), case["case"].clone())));
                println!("replayed {} large-frame case(s) of {flow}: {} violation(s)", st.evaluations, st.violations_total);
                for v in &st.violations {
                    println!("  {}", v.what);
                }
                return st.violations_total > 0;
            }
            let n = NETS.iter().find(|n| n.id == flow).expect("unknown flow");
            let mut ctx = c35::NetCtx::new(true);
            ctx.only = Some(case["case"].clone());
            (n.run)(&ctx, &mut st);
        }
    }
    println!("replayed {} case(s) of {flow}: {} violation(s)", st.evaluations, st.violations_total);
    for v in &st.violations {
        println!("  {}", v.what);
    }
    st.violations_total > 0
}

fn main() {
    let cli = cli();
    quiet_panics();
    if let Some(f) = &cli.replay {
        let txt = std::fs::read_to_string(f).expect("cannot read replay file");
        let v: Value = vf_explore::serde_json::from_str(&txt).expect("replay file is not JSON");
        let case = &v["case"];
        let still = match cli.property.as_str() {
            "C30" => c30::replay(case),
            "C35" => replay_c35(case),
            "C41" => c41::replay(case),
            p => {
                eprintln!("unknown property {p}");
                std::process::exit(2)
            }
        };
        std::process::exit(if still { 1 } else { 0 });
    }
    let mut rep = Report::new(&cli.property, &cli.tier, "vf_hydro_emb2");
    match cli.property.as_str() {
        "C30" => c30::run(&mut rep),
        "C35" => run_c35(&mut rep),
        "C41" => c41::run(&mut rep),
        p => {
            eprintln!("vf_hydro_emb2 does not serve property {p}");
            std::process::exit(2)
        }
    }
    rep.finish();
}
