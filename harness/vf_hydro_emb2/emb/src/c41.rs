//! C41 — every well-typed Hydro flow compiles to a valid dataflow.
//!
//! The deciding work happened at build time: `build.rs` ran the production generator
//! (`generate_embedded` = compile_internal + partition_graph + as_code) on every program of the
//! families under `catch_unwind`; this binary contains (and therefore rustc compiled) every
//! generated function. Here we (1) report every generation failure recorded in `GEN_FAILURES`,
//! (2) instantiate and execute every generated single-/two-location program on all small input
//! histories; a run-time panic is printed / stored as an OBSERVATION only (the statement obliges
//! "partitions and compiles", not crash-freedom on later ticks), and count what was covered.
use vf_explore::{Report, Stats, Value, catch, json, ncpu, par_map};

use crate::c30::{ALPHA, ALPHA_B, batches};
use crate::{GEN_FAILED, GEN_FAILURES, GEN_OK, NETS, PROGS, ProgInfo, Runner};

fn histories(nb: usize) -> Vec<Vec<Vec<i32>>> {
    vf_explore::combi::sequences(&batches(&ALPHA, 2), nb)
}

fn histories2(nb: usize) -> Vec<Vec<(Vec<i32>, Vec<i32>)>> {
    let pairs: Vec<(Vec<i32>, Vec<i32>)> = batches(&ALPHA, 2)
        .iter()
        .flat_map(|a| batches(&ALPHA_B, 1).into_iter().map(move |b| (a.clone(), b)))
        .collect();
    vf_explore::combi::sequences(&pairs, nb)
}

/// Execute one generated program on every history; a panic is an OBSERVATION (the C41 statement
/// only obliges "partitions and compiles"), never a violation. Returns the canonical observation
/// (shortest failing prefix of the first failing history) if any execution panicked.
fn smoke(p: &ProgInfo, nb: usize) -> (Stats, Option<Value>) {
    let mut st = Stats::new();
    let mut obs: Option<Value> = None;
    let mut panics = 0u64;
    let mut one = |st: &mut Stats, input: Value, r: Result<Vec<Vec<i32>>, String>, minimal: &dyn Fn() -> Value| {
        st.eval();
        st.nontrivial(&(p.id, input.to_string()));
        st.outcome(&format!("{r:?}"));
        st.sample(|| json!({"program": p.id, "input": input.clone(), "output": format!("{r:?}")}));
        if let Err(e) = r {
            panics += 1;
            if obs.is_none() {
                let min = minimal();
                obs = Some(json!({"program": p.id, "family": p.family, "ops": p.ops,
                                  "what": format!("generated dataflow panicked: {e}"),
                                  "minimal_input": min, "first_failing_history": input}));
            }
        }
    };
    match p.run {
        Runner::A1(f) => {
            for h in histories(nb) {
                let r = catch(|| f(&h));
                let minimal = || {
                    for n in 1..=h.len() {
                        if catch(|| f(&h[..n])).is_err() {
                            return json!({"a": h[..n]});
                        }
                    }
                    Value::Null
                };
                one(&mut st, json!({"a": h}), r, &minimal);
            }
        }
        Runner::A2(f) => {
            for h in histories2(nb) {
                let r = catch(|| f(&h));
                let a: Vec<_> = h.iter().map(|x| x.0.clone()).collect();
                let b: Vec<_> = h.iter().map(|x| x.1.clone()).collect();
                let minimal = || {
                    for n in 1..=h.len() {
                        if catch(|| f(&h[..n])).is_err() {
                            return json!({"a": a[..n], "b": b[..n]});
                        }
                    }
                    Value::Null
                };
                one(&mut st, json!({"a": a, "b": b}), r, &minimal);
            }
        }
    }
    if let Some(o) = obs.as_mut() {
        o["panicking_histories"] = json!(panics);
    }
    (st, obs)
}

pub fn run(rep: &mut Report) {
    let thorough = rep.thorough();
    let nb = if thorough { 3 } else { 2 };
    rep.rule = "case = one program of the families (tick grammar depth 1-2, top-level grammar depth 1-2, \
        structural stressors, network flows); non-trivial = every program (they are pairwise different terms); \
        run cases = (program, input history)".into();
    rep.explanation = "build.rs called the production generate_embedded on every program under catch_unwind; \
        a recorded failure (partition error, DFIR codegen error, any panic) is a violation; every generated \
        function is compiled into this binary by rustc (verdict = no generation failure + everything compiled); \
        each generated dataflow is additionally executed on every history of exactly N batches of <= 2 items; a \
        panic there is recorded as an OBSERVATION (bounds.observations), not as a violation".into();
    rep.assume("a rustc error in generated code aborts the build of this binary: the check driver then reports a build failure of the generated-program crate (classified as C41 by the lead's rule), not a verdict from here");
    rep.assume("type-incorrect terms are not in the (typed) grammar: every program is an ordinary Rust function that type-checks");
    rep.assume("simulator builder (flow.sim().compiled()) is NOT exercised by this engine");
    rep.bound("programs_generated_ok", GEN_OK);
    rep.bound("programs_generation_failed", GEN_FAILED);
    rep.bound("history_batches", nb);
    let mut fam = std::collections::BTreeMap::<&str, usize>::new();
    for p in PROGS.iter() {
        *fam.entry(p.family).or_default() += 1;
    }
    fam.insert("net", NETS.len());
    rep.bound("programs_by_family", json!(fam));

    // (1) generation
    let mut st = Stats::new();
    for p in PROGS.iter() {
        st.eval();
        st.nontrivial(&p.id);
        st.outcome(&"generated+compiled");
        st.sample(|| json!({"program": p.id, "family": p.family, "ops": p.ops, "result": "generated and compiled"}));
    }
    for n in NETS.iter() {
        st.eval();
        st.nontrivial(&n.id);
        st.outcome(&"generated+compiled");
    }
    for f in GEN_FAILURES.iter() {
        st.eval();
        st.nontrivial(&f.id);
        st.outcome(&format!("failed: {}", f.message));
        st.violation(
            format!("C41:gen:{}", f.id),
            format!("generate_embedded failed for program {} ({}; family {}): {}", f.id, f.desc, f.family, f.message),
            json!({"kind": "gen", "program": f.id, "message": f.message}),
        );
    }
    rep.section("generate_and_compile", st);

    // (2) execution: every generated program is run on every small history. Panics are recorded
    // as OBSERVATIONS only (outside what the C41 statement obliges).
    let observations = std::sync::Mutex::new(Vec::<Value>::new());
    let st = par_map(PROGS.len(), ncpu().min(16), |i| {
        let (st, obs) = smoke(&PROGS[i], nb);
        if let Some(o) = obs {
            observations.lock().unwrap().push(o);
        }
        st
    });
    let mut observations = observations.into_inner().unwrap();
    observations.sort_by_key(|o| o["program"].as_str().unwrap_or("").to_string());
    for o in &observations {
        println!(
            "OBSERVATION: property=C41 {} {} (minimal input {}, {} panicking histories)",
            o["program"].as_str().unwrap_or("?"),
            o["what"].as_str().unwrap_or("?"),
            o["minimal_input"],
            o["panicking_histories"]
        );
    }
    rep.bound("observations_count", observations.len());
    rep.bound("observations", json!(observations));
    rep.section("execute_generated_dataflows", st);
    rep.min_outcomes = 2;
}

pub fn replay(case: &Value) -> bool {
    match case["kind"].as_str() {
        Some("gen") => {
            let id = case["program"].as_str().unwrap();
            match GEN_FAILURES.iter().find(|f| f.id == id) {
                Some(f) => {
                    println!("program {id} still fails to generate in this build: {}", f.message);
                    true
                }
                None => {
                    println!("program {id} generates in this build");
                    false
                }
            }
        }
        Some("run") => {
            let id = case["program"].as_str().unwrap();
            let p = PROGS.iter().find(|p| p.id == id).expect("unknown program");
            let arr = |k: &str| -> Vec<Vec<i32>> {
                case["input"][k].as_array().unwrap().iter()
                    .map(|b| b.as_array().unwrap().iter().map(|x| x.as_i64().unwrap() as i32).collect())
                    .collect()
            };
            let r = match p.run {
                Runner::A1(f) => { let a = arr("a"); catch(|| f(&a)) }
                Runner::A2(f) => {
                    let h: Vec<_> = arr("a").into_iter().zip(arr("b")).collect();
                    catch(|| f(&h))
                }
            };
            println!("program {id} input {} -> {:?}", case["input"], r);
            r.is_err()
        }
        _ => panic!("unknown replay kind"),
    }
}
