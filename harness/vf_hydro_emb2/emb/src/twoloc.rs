//! Hand-written drivers for the two-location stressors of C41 (`y_*`): the harness shuttles the
//! bytes emitted by one location's generated network-out closure into the other location's
//! generated network-in stream, alternating ticks, for a fixed number of rounds per batch.
#![allow(unused)]
use std::cell::RefCell;

use crate::c35::{Bytes, BytesMut};
use crate::drive::Q;

type NetIn = Q<Result<BytesMut, std::io::Error>>;

fn pump(from: &RefCell<Vec<Bytes>>, to: &NetIn) {
    for b in from.take() {
        to.push(Ok(BytesMut::from(b.as_ref())));
    }
}

const ROUNDS: usize = 4;

have_y_hop_then_tick! {
pub fn run_hop_then_tick(batches: &[Vec<i32>]) -> Vec<Vec<i32>> {
    use crate::gen_::y_hop_then_tick as g;
    let qa = Q::<i32>::new();
    let ab = RefCell::new(Vec::<Bytes>::new());
    let ab_in: NetIn = Q::new();
    let col = RefCell::new(Vec::<i32>::new());
    let mut no = g::loc_a::EmbeddedNetworkOut { ab: |b: Bytes| ab.borrow_mut().push(b) };
    let mut da = g::loc_a(qa.clone(), &mut no);
    let mut outs = g::loc_b::EmbeddedOutputs { out: |x: i32| col.borrow_mut().push(x) };
    let mut db = g::loc_b(&mut outs, g::loc_b::EmbeddedNetworkIn { ab: ab_in.clone() });
    let mut res = vec![];
    for b in batches {
        for x in b { qa.push(*x); }
        for _ in 0..ROUNDS {
            da.run_tick_sync();
            pump(&ab, &ab_in);
            db.run_tick_sync();
        }
        res.push(col.take());
    }
    res
}
}

have_y_cycle_through_network! {
pub fn run_cycle_through_network(batches: &[Vec<i32>]) -> Vec<Vec<i32>> {
    use crate::gen_::y_cycle_through_network as g;
    let qa = Q::<i32>::new();
    let ab = RefCell::new(Vec::<Bytes>::new());
    let ba = RefCell::new(Vec::<Bytes>::new());
    let ab_in: NetIn = Q::new();
    let ba_in: NetIn = Q::new();
    let col = RefCell::new(Vec::<i32>::new());
    let mut outs = g::loc_a::EmbeddedOutputs { out: |x: i32| col.borrow_mut().push(x) };
    let mut no_a = g::loc_a::EmbeddedNetworkOut { ab: |b: Bytes| ab.borrow_mut().push(b) };
    let mut da = g::loc_a(qa.clone(), &mut outs, g::loc_a::EmbeddedNetworkIn { ba: ba_in.clone() }, &mut no_a);
    let mut no_b = g::loc_b::EmbeddedNetworkOut { ba: |b: Bytes| ba.borrow_mut().push(b) };
    let mut db = g::loc_b(g::loc_b::EmbeddedNetworkIn { ab: ab_in.clone() }, &mut no_b);
    let mut res = vec![];
    for b in batches {
        for x in b { qa.push(*x); }
        for _ in 0..ROUNDS {
            da.run_tick_sync();
            pump(&ab, &ab_in);
            db.run_tick_sync();
            pump(&ba, &ba_in);
        }
        res.push(col.take());
    }
    res
}
}

have_y_shared_send_and_tick! {
pub fn run_shared_send_and_tick(batches: &[Vec<i32>]) -> Vec<Vec<i32>> {
    use crate::gen_::y_shared_send_and_tick as g;
    let qa = Q::<i32>::new();
    let ab = RefCell::new(Vec::<Bytes>::new());
    let ba = RefCell::new(Vec::<Bytes>::new());
    let ab_in: NetIn = Q::new();
    let ba_in: NetIn = Q::new();
    let col = RefCell::new(Vec::<i32>::new());
    let mut outs = g::loc_a::EmbeddedOutputs { out: |x: i32| col.borrow_mut().push(x) };
    let mut no_a = g::loc_a::EmbeddedNetworkOut { ab: |b: Bytes| ab.borrow_mut().push(b) };
    let mut da = g::loc_a(qa.clone(), &mut outs, g::loc_a::EmbeddedNetworkIn { ba: ba_in.clone() }, &mut no_a);
    let mut no_b = g::loc_b::EmbeddedNetworkOut { ba: |b: Bytes| ba.borrow_mut().push(b) };
    let mut db = g::loc_b(g::loc_b::EmbeddedNetworkIn { ab: ab_in.clone() }, &mut no_b);
    let mut res = vec![];
    for b in batches {
        for x in b { qa.push(*x); }
        for _ in 0..ROUNDS {
            da.run_tick_sync();
            pump(&ab, &ab_in);
            db.run_tick_sync();
            pump(&ba, &ba_in);
        }
        res.push(col.take());
    }
    res
}
}
