//! C35 — messages survive serialization and reach the addressed member.
//!
//! For every generated network flow (shape x payload type) the harness IS the transport: it
//! takes what the generated `EmbeddedNetworkOut` closure of the sender emits (bytes, plus the
//! addressee's `TaglessMemberId` for cluster-addressed channels), delivers it to the generated
//! `EmbeddedNetworkIn` stream of the member whose id equals the emitted addressee id (tagging it
//! with the sender's id for cluster senders, as a transport does) and compares what each
//! receiver's `EmbeddedOutputs` callback got with what was sent.
use std::fmt::Debug;

pub use hydro_lang::location::member_id::TaglessMemberId;
pub use hydro_lang::location::{MemberId, MembershipEvent};
pub use hydro_lang::runtime_support::dfir_rs::bytes::{Bytes, BytesMut};
use vf_explore::{Stats, Value, catch, json};
pub use vf_emb2_progs::net::{E3, R, S, TNested, TOpt, TRes};

pub const RAW_IDS: [u32; 5] = [0, 1, 2, 255, u32::MAX];

/// Enumeration context; `only` restricts to one case (replay).
pub struct NetCtx {
    pub member_sets: Vec<Vec<u32>>,
    pub only: Option<Value>,
    /// Large-frame mode: instead of the boundary alphabet, send values whose bincode encoding is
    /// 4095/4096/4097/~9000 bytes (around the obvious buffer sizes) mixed with small values.
    pub large: bool,
    pub large_sizes: Vec<usize>,
}

impl NetCtx {
    pub fn new(thorough: bool) -> Self {
        NetCtx {
            member_sets: if thorough {
                vec![vec![0, 1], vec![0, 1, 2], vec![2, 255, u32::MAX]]
            } else {
                vec![vec![0, 1], vec![255, 0, 2]]
            },
            only: None,
            large: false,
            large_sizes: vec![],
        }
    }
    pub fn new_large(thorough: bool) -> Self {
        NetCtx {
            member_sets: if thorough { vec![vec![0, 1], vec![2, 255, u32::MAX]] } else { vec![vec![0, 1]] },
            only: None,
            large: true,
            large_sizes: if thorough {
                vec![4094, 4095, 4096, 4097, 4098, 8191, 8192, 8193, 9000, 16385, 70000]
            } else {
                vec![4095, 4096, 4097, 9000]
            },
        }
    }
    fn wants(&self, case: &Value) -> bool {
        match &self.only {
            None => true,
            Some(o) => o == case,
        }
    }
}

pub struct NetInfo {
    pub id: &'static str,
    pub shape: &'static str,
    pub ty: &'static str,
    pub run: fn(&NetCtx, &mut Stats),
}

pub trait Payload: Clone + PartialEq + Debug + 'static {
    fn alphabet() -> Vec<Self>;
    /// A value whose bincode encoding has (about) `enc_bytes` bytes, if the type can grow.
    fn large(_enc_bytes: usize) -> Option<Self> {
        None
    }
}

/// Debug text, shortened for big values (keeps keys / evidence small but still distinguishing).
fn sh<T: Debug>(t: &T) -> String {
    let s = format!("{t:?}");
    if s.len() > 160 {
        let head: String = s.chars().take(48).collect();
        format!("{head}...[{} bytes of Debug text, hash {:x}]", s.len(), vf_explore::hash_of(&s))
    } else {
        s
    }
}
fn shv<T: Debug>(v: &[T]) -> String {
    format!("[{}]", v.iter().map(sh).collect::<Vec<_>>().join(", "))
}

impl Payload for i64 {
    fn alphabet() -> Vec<Self> {
        vec![i64::MIN, -1, 0, 1, i64::MAX]
    }
}
impl Payload for String {
    fn alphabet() -> Vec<Self> {
        vec![
            String::new(),
            "a".into(),
            "\u{e9}\u{65e5}\u{672c}\u{1F600}".into(), // 2-, 3-, 3- and 4-byte UTF-8
            "a\0b".into(),
            "x".repeat(300),
        ]
    }
    fn large(enc: usize) -> Option<Self> {
        // bincode: u64 length + bytes
        Some("L".repeat(enc.saturating_sub(8)))
    }
}
impl Payload for TOpt {
    fn alphabet() -> Vec<Self> {
        vec![
            None,
            Some((0, String::new())),
            Some((255, "a".into())),
            Some((1, "\u{65e5}\u{672c}".into())),
        ]
    }
}
impl Payload for Vec<u16> {
    fn alphabet() -> Vec<Self> {
        vec![vec![], vec![0], vec![u16::MAX], vec![1, u16::MAX], vec![0, 0]]
    }
    fn large(enc: usize) -> Option<Self> {
        // bincode: u64 length + 2 bytes per element
        Some((0..(enc.saturating_sub(8) / 2)).map(|i| (i % 65521) as u16).collect())
    }
}
impl Payload for E3 {
    fn alphabet() -> Vec<Self> {
        vec![
            E3::Unit,
            E3::Tup(i32::MIN),
            E3::Tup(0),
            E3::Tup(i32::MAX),
            E3::Rec { x: 0, s: String::new() },
            E3::Rec { x: 255, s: "\u{e9}".into() },
        ]
    }
}
impl Payload for TNested {
    fn alphabet() -> Vec<Self> {
        vec![
            (0, (i16::MIN, (String::new(), false))),
            (255, (i16::MAX, ("a".into(), true))),
            (1, (0, ("\u{65e5}\u{672c}".into(), true))),
            (1, (-1, ("a".into(), false))),
        ]
    }
}
impl Payload for TRes {
    fn alphabet() -> Vec<Self> {
        vec![
            Ok(0),
            Ok(u32::MAX),
            Err(String::new()),
            Err("a".into()),
            Err("\u{e9}".into()),
        ]
    }
}

/// All 1- and 2-message sequences over the alphabet (all values, all ordered pairs).
fn value_seqs<T: Payload>(ctx: &NetCtx) -> Vec<Vec<T>> {
    let a = T::alphabet();
    if ctx.large {
        // [large, small] and [small, large, small] for every boundary length
        let small = a[1].clone();
        let mut out = vec![];
        for &n in &ctx.large_sizes {
            if let Some(l) = T::large(n) {
                out.push(vec![l.clone(), small.clone()]);
                out.push(vec![small.clone(), l, small.clone()]);
            }
        }
        return out;
    }
    let mut out: Vec<Vec<T>> = a.iter().map(|v| vec![v.clone()]).collect();
    for v1 in &a {
        for v2 in &a {
            out.push(vec![v1.clone(), v2.clone()]);
        }
    }
    out
}

fn dbg_sorted<T: Debug>(v: &[T]) -> Vec<String> {
    let mut s: Vec<String> = v.iter().map(|x| format!("{x:?}")).collect();
    s.sort();
    s
}

/// Record one judged case. `problem` = None means the oracle held.
fn judge(flow: &str, st: &mut Stats, first_bad: &mut bool, case: Value, observed: String, problem: Option<String>) {
    st.eval();
    st.nontrivial(&case.to_string());
    st.outcome(&observed);
    st.sample(|| json!({"flow": flow, "case": case.clone(), "observed": observed.clone()}));
    if let Some(p) = problem {
        if !*first_bad {
            *first_bad = true;
            st.violation(
                format!("C35:{flow}:{case}"),
                format!("{flow}: {p}; observed {observed}"),
                json!({"kind": "net", "flow": flow, "case": case}),
            );
        } else {
            st.violations_total += 1;
        }
    }
}

pub fn drive_o2o<T: Payload>(
    flow: &str,
    ctx: &NetCtx,
    st: &mut Stats,
    f: impl Fn(&[T]) -> (usize, Vec<T>),
) {
    let mut bad = false;
    for msgs in value_seqs::<T>(ctx) {
        let case = json!({"msgs": shv(&msgs), "large": ctx.large});
        if !ctx.wants(&case) {
            continue;
        }
        let run = || catch(|| f(&msgs));
        let mut r = run();
        let check = |r: &Result<(usize, Vec<T>), String>| -> Option<String> {
            match r {
                Err(p) => Some(format!("panic: {p}")),
                Ok((nwire, got)) => {
                    if *nwire != msgs.len() {
                        Some(format!("{} wire messages for {} sent", nwire, msgs.len()))
                    } else if dbg_sorted(got) != dbg_sorted(&msgs) {
                        Some("receiver did not reconstruct the sent values".into())
                    } else {
                        None
                    }
                }
            }
        };
        let mut problem = check(&r);
        if problem.is_some() {
            r = run();
            if check(&r).is_none() {
                println!("MACHINERY-ERROR: C35 {flow} {case} failed once and then passed");
                std::process::exit(2);
            }
            problem = check(&r);
        }
        let observed = match &r {
            Ok((n, got)) => format!("wire={n} got={}", shv(got)),
            Err(p) => format!("panic {p}"),
        };
        judge(flow, st, &mut bad, case, observed, problem);
    }
}

type ToClusterObs<T> = (Vec<u32>, Vec<Vec<(Option<u32>, T)>>);

/// Shapes whose receiver is a cluster: o2m demux / o2m broadcast / m2m demux / m2m broadcast.
pub fn drive_to_cluster<T: Payload>(
    flow: &str,
    from_cluster: bool,
    bcast: bool,
    ctx: &NetCtx,
    st: &mut Stats,
    f: impl Fn(Option<u32>, &[u32], &[(u32, T)]) -> ToClusterObs<T>,
) {
    let mut bad = false;
    let alpha = T::alphabet();
    for members in &ctx.member_sets {
        let senders: Vec<Option<u32>> = if from_cluster {
            members.iter().map(|m| Some(*m)).collect()
        } else {
            vec![None]
        };
        // message sequences: (addressee, value)
        let mut seqs: Vec<Vec<(u32, T)>> = vec![];
        if bcast {
            for vs in value_seqs::<T>(ctx) {
                seqs.push(vs.into_iter().map(|v| (members[0], v)).collect());
            }
        } else if ctx.large {
            // large to one member, small to ANOTHER member (and back)
            for vs in value_seqs::<T>(ctx) {
                for (i, d0) in members.iter().enumerate() {
                    let d1 = members[(i + 1) % members.len()];
                    seqs.push(
                        vs.iter()
                            .enumerate()
                            .map(|(k, v)| (if k % 2 == 0 { *d0 } else { d1 }, v.clone()))
                            .collect(),
                    );
                }
            }
        } else {
            for d in members {
                for v in &alpha {
                    seqs.push(vec![(*d, v.clone())]);
                }
            }
            for d1 in members {
                for d2 in members {
                    for v1 in &alpha {
                        for v2 in &alpha {
                            seqs.push(vec![(*d1, v1.clone()), (*d2, v2.clone())]);
                        }
                    }
                }
            }
        }
        for sender in &senders {
            for msgs in &seqs {
                let case = json!({"members": members, "sender": sender, "bcast": bcast,
                                  "msgs": shv(msgs), "large": ctx.large});
                if !ctx.wants(&case) {
                    continue;
                }
                let run = || catch(|| f(*sender, members, msgs));
                let check = |r: &Result<ToClusterObs<T>, String>| -> Option<String> {
                    let (wire_dests, per_member) = match r {
                        Err(p) => return Some(format!("panic: {p}")),
                        Ok(x) => x,
                    };
                    // expected addressees on the wire
                    let mut exp_dests: Vec<u32> = if bcast {
                        msgs.iter().flat_map(|_| members.iter().copied()).collect()
                    } else {
                        msgs.iter().map(|(d, _)| *d).collect()
                    };
                    let mut wd = wire_dests.clone();
                    exp_dests.sort();
                    wd.sort();
                    if wd != exp_dests {
                        return Some(format!(
                            "addressee ids on the wire {wire_dests:?} differ from the addressed members {exp_dests:?}"
                        ));
                    }
                    for (i, m) in members.iter().enumerate() {
                        let exp: Vec<(Option<u32>, T)> = msgs
                            .iter()
                            .filter(|(d, _)| bcast || d == m)
                            .map(|(_, v)| (if from_cluster { *sender } else { None }, v.clone()))
                            .collect();
                        if dbg_sorted(&per_member[i]) != dbg_sorted(&exp) {
                            return Some(format!(
                                "member {m} received {}, expected {} (tag = sender id, value exact, nothing for other members)",
                                shv(&per_member[i]), shv(&exp)
                            ));
                        }
                    }
                    None
                };
                let mut r = run();
                let mut problem = check(&r);
                if problem.is_some() {
                    r = run();
                    if check(&r).is_none() {
                        println!("MACHINERY-ERROR: C35 {flow} {case} failed once and then passed");
                        std::process::exit(2);
                    }
                    problem = check(&r);
                }
                let observed = match &r {
                    Ok((w, pm)) => format!(
                        "wire_dests={w:?} per_member=[{}]",
                        pm.iter().map(|v| shv(v)).collect::<Vec<_>>().join(", ")
                    ),
                    Err(p) => format!("panic {p}"),
                };
                judge(flow, st, &mut bad, case, observed, problem);
            }
        }
    }
}

/// cluster -> process.
pub fn drive_m2o<T: Payload>(
    flow: &str,
    ctx: &NetCtx,
    st: &mut Stats,
    f: impl Fn(&[(u32, Vec<T>)]) -> (usize, Vec<(u32, T)>),
) {
    let mut bad = false;
    let alpha = T::alphabet();
    for members in &ctx.member_sets {
        let mut cases: Vec<Vec<(u32, Vec<T>)>> = vec![];
        for s in members {
            for vs in value_seqs::<T>(ctx) {
                cases.push(vec![(*s, vs)]);
            }
        }
        if ctx.large {
            // large from one member, small from another (sender closures share the thread)
            for vs in value_seqs::<T>(ctx) {
                cases.push(vec![(members[0], vec![vs[0].clone()]), (members[1], vs[1..].to_vec())]);
            }
        }
        for s1 in members {
            if ctx.large {
                break;
            }
            for s2 in members {
                if s1 == s2 {
                    continue;
                }
                for v1 in &alpha {
                    for v2 in &alpha {
                        cases.push(vec![(*s1, vec![v1.clone()]), (*s2, vec![v2.clone()])]);
                    }
                }
            }
        }
        for sends in &cases {
            let case = json!({"members": members, "large": ctx.large,
                "sends": format!("[{}]", sends.iter().map(|(s, v)| format!("({s}, {})", shv(v))).collect::<Vec<_>>().join(", "))});
            if !ctx.wants(&case) {
                continue;
            }
            let exp: Vec<(u32, T)> = sends
                .iter()
                .flat_map(|(s, vs)| vs.iter().map(move |v| (*s, v.clone())))
                .collect();
            let run = || catch(|| f(sends));
            let check = |r: &Result<(usize, Vec<(u32, T)>), String>| -> Option<String> {
                match r {
                    Err(p) => Some(format!("panic: {p}")),
                    Ok((n, got)) => {
                        if *n != exp.len() {
                            Some(format!("{n} wire messages for {} sent", exp.len()))
                        } else if dbg_sorted(got) != dbg_sorted(&exp) {
                            Some(format!("receiver got {}, expected (sender id, value) = {}", shv(got), shv(&exp)))
                        } else {
                            None
                        }
                    }
                }
            };
            let mut r = run();
            let mut problem = check(&r);
            if problem.is_some() {
                r = run();
                if check(&r).is_none() {
                    println!("MACHINERY-ERROR: C35 {flow} {case} failed once and then passed");
                    std::process::exit(2);
                }
                problem = check(&r);
            }
            let observed = match &r {
                Ok((n, got)) => format!("wire={n} got={}", shv(got)),
                Err(p) => format!("panic {p}"),
            };
            judge(flow, st, &mut bad, case, observed, problem);
        }
    }
}

// ------------------------------------------------------------------------------------------------
// Large-frame section: run on ONE fresh thread (thread-local buffers of the generated send
// closures start clean and are shared by everything that follows): every String / Vec<u16> flow
// in large mode, each followed immediately by a flow of ANOTHER payload type on the same thread.
pub fn large_frames(thorough: bool, nets: &'static [NetInfo], only: Option<(String, Value)>) -> Stats {
    std::thread::spawn(move || {
        let mut st = Stats::new();
        let mut large = NetCtx::new_large(thorough);
        let mut small = NetCtx::new(false);
        small.member_sets = vec![vec![0, 1]];
        let followers = ["n_o2o_i64", "n_o2m_e3", "n_m2o_res", "n_m2m_nested"];
        let mut k = 0;
        for n in nets.iter().filter(|n| n.ty == "string" || n.ty == "vecu16") {
            if let Some((flow, case)) = &only {
                if n.id != flow {
                    continue;
                }
                large.only = Some(case.clone());
            }
            (n.run)(&large, &mut st);
            if only.is_none() {
                if let Some(f) = nets.iter().find(|m| m.id == followers[k % followers.len()]) {
                    (f.run)(&small, &mut st);
                }
                k += 1;
            }
        }
        st
    })
    .join()
    .expect("large-frame thread panicked")
}

// ------------------------------------------------------------------------------------------------
// Member ids: typed <-> untyped round trip.

pub fn member_ids(st: &mut Stats) {
    let mut bad = false;
    for &raw in &RAW_IDS {
        let case = json!({"raw_id": raw});
        let r = catch(|| {
            let t = TaglessMemberId::from_raw_id(raw);
            let m: MemberId<R> = MemberId::from_tagless(t.clone());
            let back = m.clone().into_tagless();
            let m2: MemberId<R> = MemberId::from_raw_id(raw);
            let ser_m = bincode::serialize(&m).unwrap();
            let ser_t = bincode::serialize(&t).unwrap();
            let de_m: MemberId<S> = bincode::deserialize(&ser_t).unwrap();
            let de_t: TaglessMemberId = bincode::deserialize(&ser_m).unwrap();
            let mut p = vec![];
            if back != t {
                p.push(format!("from_tagless/into_tagless changed the id: {t:?} -> {back:?}"));
            }
            if m.get_raw_id() != raw || t.get_raw_id() != raw || m2.get_raw_id() != raw {
                p.push(format!("get_raw_id != {raw}"));
            }
            if m2.clone().into_tagless() != t || m2 != m {
                p.push("MemberId::from_raw_id disagrees with TaglessMemberId::from_raw_id".into());
            }
            if ser_m != ser_t {
                p.push("typed and untyped ids serialize differently".into());
            }
            if de_m.into_tagless() != t || de_t != t {
                p.push("id does not survive serialization".into());
            }
            (format!("{t:?} {m:?} ser={ser_m:?}"), p)
        });
        let (observed, problem) = match r {
            Ok((o, p)) => (o, if p.is_empty() { None } else { Some(p.join("; ")) }),
            Err(e) => (format!("panic {e}"), Some(format!("panic: {e}"))),
        };
        judge("member_id", st, &mut bad, case, observed, problem);
    }
    // all ordered pairs: equality / order / hash agree with the raw ids
    for &a in &RAW_IDS {
        for &b in &RAW_IDS {
            let case = json!({"raw_pair": [a, b]});
            let ma: MemberId<R> = MemberId::from_raw_id(a);
            let mb: MemberId<R> = MemberId::from_raw_id(b);
            let mut p = vec![];
            if (ma == mb) != (a == b) {
                p.push("typed equality disagrees with raw ids");
            }
            if (ma.clone().into_tagless() == mb.clone().into_tagless()) != (a == b) {
                p.push("untyped equality disagrees with raw ids");
            }
            if ma.cmp(&mb) != a.cmp(&b) {
                p.push("order disagrees with raw ids");
            }
            let observed = format!("{:?} {:?} eq={} cmp={:?}", ma, mb, ma == mb, ma.cmp(&mb));
            let problem = if p.is_empty() { None } else { Some(p.join("; ")) };
            judge("member_id_pairs", st, &mut bad, case, observed, problem);
        }
    }
}

// ------------------------------------------------------------------------------------------------
// sinktools::demux_map keyed by member ids (the routing sink used by the deployed runtimes).

pub fn demux_map_routing(st: &mut Stats, thorough: bool) {
    use std::cell::RefCell;
    use std::collections::HashMap;
    use std::pin::Pin;
    use std::rc::Rc;
    use std::task::{Context, Poll, Waker};

    use sinktools::Sink;

    let mut bad = false;
    let sets: Vec<Vec<u32>> = if thorough {
        vec![vec![0, 1], vec![0, 1, 2], vec![2, 255, u32::MAX]]
    } else {
        vec![vec![0, 1], vec![255, 0, 2]]
    };
    for members in &sets {
        let mut seqs: Vec<Vec<(u32, u8)>> = vec![];
        for d in members {
            seqs.push(vec![(*d, 7)]);
            for d2 in members {
                seqs.push(vec![(*d, 7), (*d2, 9)]);
                if thorough {
                    for d3 in members {
                        seqs.push(vec![(*d, 7), (*d2, 9), (*d3, 7)]);
                    }
                }
            }
        }
        for msgs in &seqs {
            let case = json!({"members": members, "msgs": format!("{msgs:?}")});
            let r = catch(|| {
                let logs: Vec<Rc<RefCell<Vec<u8>>>> =
                    members.iter().map(|_| Rc::new(RefCell::new(vec![]))).collect();
                let sinks: HashMap<TaglessMemberId, _> = members
                    .iter()
                    .zip(logs.iter())
                    .map(|(m, l)| {
                        let l = l.clone();
                        (
                            TaglessMemberId::from_raw_id(*m),
                            sinktools::for_each(move |x: u8| l.borrow_mut().push(x)),
                        )
                    })
                    .collect();
                let mut dm = sinktools::demux_map(sinks);
                let mut cx = Context::from_waker(Waker::noop());
                for (d, x) in msgs {
                    match Pin::new(&mut dm).poll_ready(&mut cx) {
                        Poll::Ready(Ok(())) => {}
                        other => panic!("poll_ready: {:?}", other.is_pending()),
                    }
                    Pin::new(&mut dm)
                        .start_send((TaglessMemberId::from_raw_id(*d), *x))
                        .unwrap();
                }
                let _ = Pin::new(&mut dm).poll_flush(&mut cx);
                logs.iter().map(|l| l.borrow().clone()).collect::<Vec<Vec<u8>>>()
            });
            let (observed, problem) = match r {
                Err(e) => (format!("panic {e}"), Some(format!("panic: {e}"))),
                Ok(got) => {
                    let mut p = None;
                    for (i, m) in members.iter().enumerate() {
                        let exp: Vec<u8> =
                            msgs.iter().filter(|(d, _)| d == m).map(|(_, x)| *x).collect();
                        if got[i] != exp {
                            p = Some(format!("sink of member {m} got {:?}, expected {:?}", got[i], exp));
                            break;
                        }
                    }
                    (format!("{got:?}"), p)
                }
            };
            judge("demux_map", st, &mut bad, case, observed, problem);
        }
    }
}

// ------------------------------------------------------------------------------------------------
// sinktools::demux_map over SCRIPTED member sinks (back-pressure): each member's sink buffers
// items on start_send and hands them to the member's inbox only when its poll_flush / poll_close
// returns Ready; it answers Pending at a scripted subset (<= 2) of its first three poll_ready
// calls and first three poll_flush calls. All scripts x all 1-/2-message sequences x two driving
// modes (SinkExt::send per message; feed per message + one flush), polled to completion with a
// no-op waker. Oracle: once the send / flush future has completed, every payload sent so far is
// in the inbox of exactly the addressed member, in order, and nowhere else.

mod scripted {
    use std::cell::RefCell;
    use std::pin::Pin;
    use std::rc::Rc;
    use std::task::{Context, Poll};

    pub const POLLS: usize = 3; // scripted positions per kind

    /// Bit i (i < 3): i-th poll_ready answers Pending; bit 3+i: i-th poll_flush answers Pending.
    pub struct Scripted {
        pub script: u8,
        pub ready_polls: usize,
        pub flush_polls: usize,
        pub buf: Vec<u8>,
        pub inbox: Rc<RefCell<Vec<u8>>>,
    }

    impl sinktools::Sink<u8> for Scripted {
        type Error = std::convert::Infallible;
        fn poll_ready(mut self: Pin<&mut Self>, _cx: &mut Context<'_>) -> Poll<Result<(), Self::Error>> {
            let i = self.ready_polls;
            self.ready_polls += 1;
            if i < POLLS && self.script >> i & 1 == 1 { Poll::Pending } else { Poll::Ready(Ok(())) }
        }
        fn start_send(mut self: Pin<&mut Self>, item: u8) -> Result<(), Self::Error> {
            self.buf.push(item);
            Ok(())
        }
        fn poll_flush(mut self: Pin<&mut Self>, _cx: &mut Context<'_>) -> Poll<Result<(), Self::Error>> {
            let i = self.flush_polls;
            self.flush_polls += 1;
            if i < POLLS && self.script >> (POLLS + i) & 1 == 1 {
                return Poll::Pending;
            }
            let items: Vec<u8> = self.buf.drain(..).collect();
            self.inbox.borrow_mut().extend(items);
            Poll::Ready(Ok(()))
        }
        fn poll_close(self: Pin<&mut Self>, cx: &mut Context<'_>) -> Poll<Result<(), Self::Error>> {
            self.poll_flush(cx)
        }
    }

    /// All scripts with at most 2 Pending answers among the 6 scripted positions.
    pub fn scripts() -> Vec<u8> {
        (0u8..64).filter(|s| s.count_ones() <= 2).collect()
    }
}

/// Poll a future to completion with a no-op waker; None if it is still pending after `cap` polls.
fn drive<F: std::future::Future>(f: F, cap: usize) -> Option<F::Output> {
    use std::task::{Context, Poll, Waker};
    let mut f = std::pin::pin!(f);
    let mut cx = Context::from_waker(Waker::noop());
    for _ in 0..cap {
        if let Poll::Ready(x) = f.as_mut().poll(&mut cx) {
            return Some(x);
        }
    }
    None
}

/// One scripted execution. Returns (observed inboxes per member, problem).
fn demux_scripted_case(
    members: &[u32],
    msgs: &[(u32, u8)],
    feed_then_flush: bool,
    scripts: &[u8],
) -> (String, Option<String>) {
    use std::cell::RefCell;
    use std::collections::HashMap;
    use std::rc::Rc;

    use futures::SinkExt;

    let r = catch(|| {
        let inboxes: Vec<Rc<RefCell<Vec<u8>>>> =
            members.iter().map(|_| Rc::new(RefCell::new(vec![]))).collect();
        let sinks: HashMap<TaglessMemberId, scripted::Scripted> = members
            .iter()
            .enumerate()
            .map(|(i, m)| {
                (
                    TaglessMemberId::from_raw_id(*m),
                    scripted::Scripted {
                        script: scripts[i],
                        ready_polls: 0,
                        flush_polls: 0,
                        buf: vec![],
                        inbox: inboxes[i].clone(),
                    },
                )
            })
            .collect();
        let mut dm = sinktools::demux_map(sinks);
        let snapshot = |inboxes: &Vec<Rc<RefCell<Vec<u8>>>>| -> Vec<Vec<u8>> {
            inboxes.iter().map(|l| l.borrow().clone()).collect()
        };
        let expect = |upto: usize| -> Vec<Vec<u8>> {
            members
                .iter()
                .map(|m| msgs[..upto].iter().filter(|(d, _)| d == m).map(|(_, x)| *x).collect())
                .collect()
        };
        let mut problem: Option<String> = None;
        for (k, (d, x)) in msgs.iter().enumerate() {
            let item = (TaglessMemberId::from_raw_id(*d), *x);
            if feed_then_flush {
                if drive(dm.feed(item), 64).is_none() {
                    problem = Some(format!("feed of message {k} did not complete within 64 polls"));
                    break;
                }
            } else {
                if drive(dm.send(item), 64).is_none() {
                    problem = Some(format!("send of message {k} did not complete within 64 polls"));
                    break;
                }
                let got = snapshot(&inboxes);
                if got != expect(k + 1) {
                    problem = Some(format!(
                        "send({k}).await completed but member inboxes are {got:?}, expected {:?}",
                        expect(k + 1)
                    ));
                    break;
                }
            }
        }
        if problem.is_none() && feed_then_flush {
            if drive(dm.flush(), 64).is_none() {
                problem = Some("flush did not complete within 64 polls".into());
            } else {
                let got = snapshot(&inboxes);
                if got != expect(msgs.len()) {
                    problem = Some(format!(
                        "flush().await completed but member inboxes are {got:?}, expected {:?}",
                        expect(msgs.len())
                    ));
                }
            }
        }
        (format!("{:?}", snapshot(&inboxes)), problem)
    });
    match r {
        Ok(x) => x,
        Err(e) => (format!("panic {e}"), Some(format!("panic: {e}"))),
    }
}

pub fn demux_map_scripted(thorough: bool) -> Stats {
    use std::collections::BTreeMap;
    use std::sync::Mutex;

    let sets: Vec<Vec<u32>> = if thorough {
        vec![vec![0, 1], vec![0, 1, 2], vec![2, 255, u32::MAX]]
    } else {
        vec![vec![0, 1], vec![255, 0, 2]]
    };
    // jobs = (member set, message sequence, driving mode); each job enumerates all script vectors
    let mut jobs: Vec<(Vec<u32>, Vec<(u32, u8)>, bool)> = vec![];
    for members in &sets {
        let mut seqs: Vec<Vec<(u32, u8)>> = vec![];
        for d in members {
            seqs.push(vec![(*d, 7)]);
        }
        for d in members {
            for d2 in members {
                seqs.push(vec![(*d, 7), (*d2, 9)]);
            }
        }
        if thorough {
            for d in members {
                for d2 in members {
                    for d3 in members {
                        seqs.push(vec![(*d, 7), (*d2, 9), (*d3, 7)]);
                    }
                }
            }
        }
        for s in seqs {
            for mode in [false, true] {
                jobs.push((members.clone(), s.clone(), mode));
            }
        }
    }
    let all = scripted::scripts();
    let first_bad: Mutex<BTreeMap<usize, (Value, Vec<u8>)>> = Mutex::new(BTreeMap::new());
    let mut st = vf_explore::par_map(jobs.len(), vf_explore::ncpu().min(16), |ji| {
        let (members, msgs, mode) = &jobs[ji];
        let mut st = Stats::new();
        let n = members.len();
        let total = all.len().pow(n as u32);
        for c0 in 0..total {
            let mut c = c0;
            let mut scripts = vec![];
            for _ in 0..n {
                scripts.push(all[c % all.len()]);
                c /= all.len();
            }
            let (observed, problem) = demux_scripted_case(members, msgs, *mode, &scripts);
            st.eval();
            st.nontrivial(&(ji, c0));
            st.outcome(&(ji, &observed, problem.is_some()));
            if c0 + 1 == total {
                st.sample(|| json!({"flow": "demux_map_scripted", "members": members, "msgs": format!("{msgs:?}"),
                    "mode": if *mode { "feed*+flush" } else { "send each" },
                    "pending_scripts(bits 0-2 poll_ready, 3-5 poll_flush)": scripts, "inboxes": observed}));
            }
            if problem.is_some() {
                st.violations_total += 1;
                let mut fb = first_bad.lock().unwrap();
                fb.entry(ji).or_insert_with(|| {
                    (json!({"members": members, "msgs": format!("{msgs:?}"),
                            "mode": if *mode { "feed_then_flush" } else { "send_each" },
                            "pending_scripts": scripts}), scripts.clone())
                });
            }
        }
        st
    });
    // one canonical violation: first failing script vector of the first failing job
    let fb = first_bad.into_inner().unwrap();
    let failing = st.violations_total;
    st.violations_total = 0;
    if let Some((ji, (case, scripts))) = fb.into_iter().next() {
        let (members, msgs, mode) = &jobs[ji];
        let (observed, problem) = demux_scripted_case(members, msgs, *mode, &scripts);
        match problem {
            None => {
                println!("MACHINERY-ERROR: C35 demux_map_scripted {case} failed once and then passed");
                std::process::exit(2);
            }
            Some(p) => {
                st.violation(
                    format!("C35:demux_map_scripted:{case}"),
                    format!("demux_map with back-pressuring member sinks: {p}; case {case}; inboxes {observed} ({failing} failing executions)"),
                    json!({"kind": "net", "flow": "demux_map_scripted", "case": case}),
                );
                st.violations_total = failing;
            }
        }
    }
    st
}

pub fn replay_demux_scripted(case: &Value) -> bool {
    let members: Vec<u32> = case["members"].as_array().unwrap().iter().map(|x| x.as_u64().unwrap() as u32).collect();
    let scripts: Vec<u8> = case["pending_scripts"].as_array().unwrap().iter().map(|x| x.as_u64().unwrap() as u8).collect();
    let mode = case["mode"].as_str() == Some("feed_then_flush");
    // msgs were stored in Debug form "[(d, x), ...]"
    let txt = case["msgs"].as_str().unwrap();
    let nums: Vec<u64> = txt
        .split(|c: char| !c.is_ascii_digit())
        .filter(|s| !s.is_empty())
        .map(|s| s.parse().unwrap())
        .collect();
    let msgs: Vec<(u32, u8)> = nums.chunks(2).map(|c| (c[0] as u32, c[1] as u8)).collect();
    let (observed, problem) = demux_scripted_case(&members, &msgs, mode, &scripts);
    println!("members {members:?} msgs {msgs:?} mode {} scripts {scripts:?} -> inboxes {observed}", case["mode"]);
    if let Some(p) = &problem {
        println!("still violates: {p}");
    }
    problem.is_some()
}
