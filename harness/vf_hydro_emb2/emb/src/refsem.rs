//! Reference (iterator-semantics) interpreter for the C30 tick-operator grammar.
//!
//! Each operator is a causal transformer of a sequence of batches: `step(batch_t) -> out_t`,
//! with explicit state ONLY for the operators that the property says carry values to the next
//! tick (defer_tick, tick cycles, across_ticks). Everything else is a pure function of the
//! batch — so any state leak in the implementation shows up as a mismatch.
//!
//! A step returns *groups*: the concatenation of the groups is the expected output sequence;
//! inside one group the order is not demanded (only used for the matches of ONE probe row of a
//! join, whose relative order the property does not promise). All other operators return
//! singleton groups = exact sequence comparison.

pub type Groups = Vec<Vec<i32>>;

pub trait Step {
    fn step(&mut self, b: &[i32]) -> Groups;
}

struct Pure<F: FnMut(&[i32]) -> Vec<i32>>(F);
impl<F: FnMut(&[i32]) -> Vec<i32>> Step for Pure<F> {
    fn step(&mut self, b: &[i32]) -> Groups {
        (self.0)(b).into_iter().map(|x| vec![x]).collect()
    }
}
struct Grouped<F: FnMut(&[i32]) -> Groups>(F);
impl<F: FnMut(&[i32]) -> Groups> Step for Grouped<F> {
    fn step(&mut self, b: &[i32]) -> Groups {
        (self.0)(b)
    }
}

fn pure(f: impl FnMut(&[i32]) -> Vec<i32> + 'static) -> Box<dyn Step> {
    Box::new(Pure(f))
}

fn fold3(init: i32, it: impl Iterator<Item = i32>) -> i32 {
    it.fold(init, |a, x| a.wrapping_mul(3).wrapping_add(x).wrapping_add(1))
}

pub fn flatten(g: &Groups) -> Vec<i32> {
    g.iter().flatten().copied().collect()
}

/// Reference for one unary operator of `vf_emb2_progs::tickops::ops()`.
pub fn make(op: &str) -> Box<dyn Step> {
    match op {
        "fold" => pure(|b| vec![fold3(0, b.iter().copied())]),
        "reduce" => pure(|b| {
            b.iter()
                .copied()
                .reduce(|a, x| a.wrapping_mul(3).wrapping_add(x))
                .into_iter()
                .collect()
        }),
        "count" => pure(|b| vec![b.len() as i32]),
        "max" => pure(|b| b.iter().copied().max().into_iter().collect()),
        "min" => pure(|b| b.iter().copied().min().into_iter().collect()),
        "first" => pure(|b| b.first().copied().into_iter().collect()),
        "last" => pure(|b| b.last().copied().into_iter().collect()),
        "limit0" => pure(|_| vec![]),
        "limit1" => pure(|b| b.iter().copied().take(1).collect()),
        "limit2" => pure(|b| b.iter().copied().take(2).collect()),
        "sort" => pure(|b| {
            let mut v = b.to_vec();
            v.sort();
            v
        }),
        "enum" => pure(|b| {
            b.iter()
                .enumerate()
                .map(|(i, x)| (i as i32).wrapping_mul(1000).wrapping_add(*x))
                .collect()
        }),
        "xsing_count" => pure(|b| {
            let c = b.len() as i32;
            b.iter().map(|x| x.wrapping_mul(10).wrapping_add(c)).collect()
        }),
        "xsing_opt" => pure(|b| match b.iter().find(|x| **x % 3 == 0) {
            None => vec![],
            Some(z) => b
                .iter()
                .map(|x| x.wrapping_mul(10).wrapping_add(*z).wrapping_add(5))
                .collect(),
        }),
        "join_u" => pure(|b| {
            let c = b.len() as i32;
            b.iter()
                .map(|x| {
                    let w = if x & 1 == 0 { c } else { c + 5 };
                    x.wrapping_mul(10).wrapping_add(w)
                })
                .collect()
        }),
        "join_m" => Box::new(Grouped(|b: &[i32]| {
            b.iter()
                .map(|x| {
                    b.iter()
                        .filter(|y| (**y & 1) == (x & 1))
                        .map(|y| x.wrapping_mul(100).wrapping_add(*y))
                        .collect::<Vec<i32>>()
                })
                .filter(|g| !g.is_empty())
                .collect()
        })),
        "antijoin_same" => pure(|b| {
            let neg: Vec<i32> = b
                .iter()
                .filter(|x| **x >= 1)
                .map(|x| x.wrapping_sub(1) & 1)
                .collect();
            b.iter().copied().filter(|x| !neg.contains(&(x & 1))).collect()
        }),
        "antijoin_prev" => {
            let mut prev: Vec<i32> = vec![];
            pure(move |b| {
                let out = b.iter().copied().filter(|x| !prev.contains(x)).collect();
                prev = b.to_vec();
                out
            })
        }
        "defer" => {
            let mut prev: Vec<i32> = vec![];
            pure(move |b| std::mem::replace(&mut prev, b.to_vec()))
        }
        "cyc_carry" => {
            let mut carry: Vec<i32> = vec![];
            pure(move |b| {
                let mut out = carry.clone();
                out.extend_from_slice(b);
                carry = out.iter().copied().filter(|x| x & 1 == 1).collect();
                out
            })
        }
        "cyc_opt" => {
            let mut prev: Option<i32> = None;
            pure(move |b| {
                let sum = b.iter().fold(0i32, |a, x| a.wrapping_add(*x));
                let total = sum.wrapping_add(prev.unwrap_or(100));
                prev = if total & 1 == 0 { Some(total) } else { None };
                vec![total]
            })
        }
        "cyc_init" => {
            let mut v = 7i32;
            pure(move |b| {
                let out = vec![v];
                v = v.wrapping_mul(2).wrapping_add(b.len() as i32);
                out
            })
        }
        "across_count" => {
            let mut n = 0i32;
            pure(move |b| {
                n += b.len() as i32;
                vec![n]
            })
        }
        "across_fold" => {
            let mut acc = 0i32;
            pure(move |b| {
                acc = fold3(acc, b.iter().copied());
                vec![acc]
            })
        }
        "across_enum" => {
            let mut i = 0i32;
            pure(move |b| {
                b.iter()
                    .map(|x| {
                        let r = i.wrapping_mul(1000).wrapping_add(*x);
                        i += 1;
                        r
                    })
                    .collect()
            })
        }
        "byref_single" => pure(|b| {
            let c = b.len() as i32;
            b.iter().map(|x| x.wrapping_mul(10).wrapping_add(c)).collect()
        }),
        "byref_opt" => pure(|b| {
            let m = b.iter().copied().max().unwrap_or(-1);
            b.iter().map(|x| x.wrapping_mul(10).wrapping_add(m)).collect()
        }),
        "byref_stream" => pure(|b| {
            let h = b
                .iter()
                .fold(0i32, |a, y| a.wrapping_mul(3).wrapping_add(y.wrapping_add(1)));
            b.iter().map(|x| x.wrapping_mul(100).wrapping_add(h)).collect()
        }),
        "bymut" => pure(|b| {
            let mut m = b.iter().fold(0i32, |a, x| a.wrapping_add(*x));
            b.iter()
                .map(|x| {
                    m = m.wrapping_add(*x);
                    x.wrapping_mul(100).wrapping_add(m)
                })
                .collect()
        }),
        "ref_mut_ref" => pure(|b| {
            let sum = b.iter().fold(0i32, |a, x| a.wrapping_add(*x));
            let mut out: Vec<i32> = b.iter().map(|x| x.wrapping_mul(100).wrapping_add(sum)).collect();
            let mut m = sum;
            for x in b {
                m = m.wrapping_add(*x).wrapping_add(1);
                out.push(x.wrapping_mul(100).wrapping_add(m));
            }
            for x in b {
                out.push(x.wrapping_mul(100).wrapping_add(m).wrapping_add(50));
            }
            out
        }),
        other => panic!("refsem: unknown operator {other}"),
    }
}

pub trait Step2 {
    fn step(&mut self, a: &[i32], b: &[i32]) -> Groups;
}
struct P2<F: FnMut(&[i32], &[i32]) -> Groups>(F);
impl<F: FnMut(&[i32], &[i32]) -> Groups> Step2 for P2<F> {
    fn step(&mut self, a: &[i32], b: &[i32]) -> Groups {
        (self.0)(a, b)
    }
}
fn single(v: Vec<i32>) -> Groups {
    v.into_iter().map(|x| vec![x]).collect()
}

/// Reference for the two-input programs of `tickops::ops2()`.
pub fn make2(op: &str) -> Box<dyn Step2> {
    match op {
        "join_ab" => Box::new(P2(|a: &[i32], b: &[i32]| {
            a.iter()
                .map(|x| {
                    b.iter()
                        .filter(|y| (**y & 1) == (x & 1))
                        .map(|y| x.wrapping_mul(100).wrapping_add(y.wrapping_add(10)))
                        .collect::<Vec<i32>>()
                })
                .filter(|g| !g.is_empty())
                .collect()
        })),
        "join_ba" => Box::new(P2(|a: &[i32], b: &[i32]| {
            b.iter()
                .map(|y| {
                    a.iter()
                        .filter(|x| (**x & 1) == (y & 1))
                        .map(|x| y.wrapping_mul(100).wrapping_add(x.wrapping_add(10)))
                        .collect::<Vec<i32>>()
                })
                .filter(|g| !g.is_empty())
                .collect()
        })),
        "antijoin" => Box::new(P2(|a: &[i32], b: &[i32]| {
            single(a.iter().copied().filter(|x| !b.contains(x)).collect())
        })),
        "antijoin_defer" => {
            let mut prev: Vec<i32> = vec![];
            Box::new(P2(move |a: &[i32], b: &[i32]| {
                let out = a.iter().copied().filter(|x| !prev.contains(x)).collect();
                prev = b.to_vec();
                single(out)
            }))
        }
        "xsing" => Box::new(P2(|a: &[i32], b: &[i32]| match b.first() {
            None => vec![],
            Some(z) => single(a.iter().map(|x| x.wrapping_mul(10).wrapping_add(*z)).collect()),
        })),
        "chain_defer" => {
            let mut prev: Vec<i32> = vec![];
            Box::new(P2(move |a: &[i32], b: &[i32]| {
                let mut out = std::mem::replace(&mut prev, a.to_vec());
                out.extend_from_slice(b);
                single(out)
            }))
        }
        other => panic!("refsem: unknown two-input operator {other}"),
    }
}

/// Does `actual` match the expected groups (sequence of groups, multiset inside a group)?
pub fn matches(expected: &Groups, actual: &[i32]) -> bool {
    let mut i = 0;
    for g in expected {
        if i + g.len() > actual.len() {
            return false;
        }
        let mut a = actual[i..i + g.len()].to_vec();
        let mut e = g.clone();
        a.sort();
        e.sort();
        if a != e {
            return false;
        }
        i += g.len();
    }
    i == actual.len()
}
