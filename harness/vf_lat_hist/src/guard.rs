//! Step-budget guard: shards run on detached OS threads, every executed step of real code bumps a
//! heartbeat; the coordinating thread watches the heartbeats and turns a shard whose heartbeat
//! stalls (e.g. `UnionFind::find` spinning on a cyclic parent map) into a reported outcome
//! instead of a stuck process. Detached threads that never return are killed by `process::exit`
//! when the report is finished.
use std::sync::atomic::{AtomicBool, AtomicU64, AtomicUsize, Ordering};
use std::sync::{Arc, Mutex, mpsc};
use std::time::{Duration, Instant};

/// Per-worker heartbeat + description of the step currently being executed.
#[derive(Default)]
pub struct Beat {
    tick: AtomicU64,
    active: AtomicBool,
    shard: AtomicUsize,
    /// compact, engine-specific encoding of the case being executed right now
    cur: Mutex<Vec<i64>>,
}

impl Beat {
    /// Announce the step about to be executed (cheap: one uncontended lock + a few word copies).
    pub fn step(&self, case: &[i64]) {
        {
            let mut c = self.cur.lock().unwrap();
            c.clear();
            c.extend_from_slice(case);
        }
        self.tick.fetch_add(1, Ordering::Relaxed);
    }
    /// Progress without a case description.
    pub fn tick(&self) {
        self.tick.fetch_add(1, Ordering::Relaxed);
    }
}

pub enum Outcome<T> {
    Done(Vec<T>),
    /// A shard made no progress for the hang budget. `case` is what it was executing.
    Hang { shard: usize, case: Vec<i64> },
    /// Harness bug: a worker panicked outside `catch`.
    Panic(String),
}

pub fn hang_budget() -> Duration {
    let ms = std::env::var("VERIF_HANG_MS").ok().and_then(|s| s.parse().ok()).unwrap_or(20_000u64);
    Duration::from_millis(ms)
}

/// Run `work(i, beat)` for i in 0..n on up to `threads` detached threads. Results are returned in
/// shard order (deterministic).
pub fn run<T: Send + 'static>(
    n: usize,
    threads: usize,
    work: Arc<dyn Fn(usize, &Beat) -> T + Send + Sync>,
) -> Outcome<T> {
    let hang = hang_budget();
    let threads = threads.max(1).min(n.max(1));
    let next = Arc::new(AtomicUsize::new(0));
    let (tx, rx) = mpsc::channel::<(usize, Result<T, String>)>();
    let beats: Vec<Arc<Beat>> = (0..threads).map(|_| Arc::new(Beat::default())).collect();
    for b in &beats {
        let b = b.clone();
        let next = next.clone();
        let tx = tx.clone();
        let work = work.clone();
        std::thread::spawn(move || {
            loop {
                let i = next.fetch_add(1, Ordering::SeqCst);
                if i >= n {
                    break;
                }
                b.shard.store(i, Ordering::SeqCst);
                b.tick();
                b.active.store(true, Ordering::SeqCst);
                let r = vf_explore::catch(|| work(i, &b));
                b.active.store(false, Ordering::SeqCst);
                if tx.send((i, r)).is_err() {
                    break;
                }
            }
        });
    }
    drop(tx);
    let mut out: Vec<Option<T>> = (0..n).map(|_| None).collect();
    let mut got = 0usize;
    let mut last: Vec<(u64, Instant)> = beats.iter().map(|b| (b.tick.load(Ordering::Relaxed), Instant::now())).collect();
    while got < n {
        match rx.recv_timeout(Duration::from_millis(100)) {
            Ok((i, Ok(t))) => {
                out[i] = Some(t);
                got += 1;
            }
            Ok((_, Err(p))) => return Outcome::Panic(p),
            Err(mpsc::RecvTimeoutError::Timeout) => {}
            Err(mpsc::RecvTimeoutError::Disconnected) => {
                if got < n {
                    return Outcome::Panic("worker threads vanished".into());
                }
            }
        }
        let now = Instant::now();
        for (k, b) in beats.iter().enumerate() {
            let t = b.tick.load(Ordering::Relaxed);
            if t != last[k].0 || !b.active.load(Ordering::SeqCst) {
                last[k] = (t, now);
            } else if now.duration_since(last[k].1) > hang {
                return Outcome::Hang { shard: b.shard.load(Ordering::SeqCst), case: b.cur.lock().unwrap().clone() };
            }
        }
    }
    Outcome::Done(out.into_iter().map(|o| o.unwrap()).collect())
}

/// Run one closure on a detached thread with the hang budget. `None` = it did not finish.
pub fn run_one<T: Send + 'static>(f: impl FnOnce() -> T + Send + 'static) -> Option<Result<T, String>> {
    let (tx, rx) = mpsc::channel();
    std::thread::spawn(move || {
        let r = vf_explore::catch(f);
        let _ = tx.send(r);
    });
    rx.recv_timeout(hang_budget()).ok()
}

/// Failures that did not reproduce on re-execution. They are never verdicts: if the run ends
/// without a confirmed (reproduced) violation they make it a machinery error (exit 2); next to a
/// confirmed violation they are only listed.
static FLAKY: Mutex<Vec<String>> = Mutex::new(Vec::new());
pub fn note_flaky(msg: String) {
    println!("NOTE: non-reproducing failure: {msg}");
    FLAKY.lock().unwrap().push(msg);
}
pub fn flaky() -> Vec<String> {
    FLAKY.lock().unwrap().clone()
}
