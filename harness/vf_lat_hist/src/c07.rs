//! C07 — shipped bimorphisms distribute over merge in each argument. For every bimorphism and
//! every backing combination listed in `all_specs`, ALL (a, da, b) and (a, b, db) over the stated
//! universes are executed on the real code:  f(a ⊔ da, b) == f(a,b) ⊔ f(da,b)  (and symmetric),
//! compared with the output type's own `==` and as plain sets of tuples.
use std::collections::{BTreeMap, BTreeSet, HashMap, HashSet};
use std::sync::Arc;

use lattices::ght::lattice::{DeepJoinLatticeBimorphism, GhtBimorphism, GhtCartesianProductBimorphism, GhtNodeKeyedBimorphism, GhtValTypeProductBimorphism};
use lattices::ght::{GeneralizedHashTrieNode, GhtInner, GhtLeaf};
use lattices::map_union::{KeyedBimorphism, MapUnion, MapUnionBTreeMap, MapUnionHashMap};
use lattices::set_union::{CartesianProductBimorphism, SetUnion, SetUnionBTreeSet, SetUnionHashSet, SetUnionVec};
use lattices::{GhtType, LatticeBimorphism, Max, Merge, Pair, PairBimorphism};
use variadics::variadic_collections::VariadicHashSetStd;
use variadics::{var_args, var_expr, var_type};
use vf_explore::{Stats, Value, catch, json};

use crate::guard::{self, Beat, Outcome};

/// A universe value described as rows of small integers (interpretation is per spec).
pub type Rows = Vec<Vec<u8>>;
/// Output abstraction: sorted packed tuples.
pub type Abs = Vec<u32>;
fn pack(t: &[u8]) -> u32 {
    t.iter().fold(1u32, |acc, &x| acc << 4 | (x as u32 & 15))
}
fn unpack(mut p: u32) -> Vec<u8> {
    let mut v = vec![];
    while p > 1 { v.push((p & 15) as u8); p >>= 4; }
    v.reverse();
    v
}
pub fn show_abs(a: &Abs) -> String {
    format!("{:?}", a.iter().map(|&p| unpack(p)).collect::<Vec<_>>())
}
fn norm(mut v: Vec<u32>) -> Abs {
    v.sort();
    v.dedup();
    v
}

pub trait Bim: Send + Sync + 'static {
    type A: Clone;
    type B: Clone;
    type O: Clone;
    fn name(&self) -> String;
    fn ua(&self) -> Vec<Rows>;
    fn ub(&self) -> Vec<Rows>;
    fn mk_a(&self, r: &Rows) -> Self::A;
    fn mk_b(&self, r: &Rows) -> Self::B;
    fn join_a(&self, a: Self::A, d: Self::A) -> Self::A;
    fn join_b(&self, b: Self::B, d: Self::B) -> Self::B;
    /// the real bimorphism
    fn call(&self, a: Self::A, b: Self::B) -> Self::O;
    fn join_o(&self, x: Self::O, y: Self::O) -> Self::O;
    fn eq_o(&self, x: &Self::O, y: &Self::O) -> bool;
    fn abs_o(&self, x: &Self::O) -> Abs;
}

// ------------------------------------------------------------------------------------------------
// universes
// ------------------------------------------------------------------------------------------------
/// all subsets of 0..d as rows [[x],..]
fn u_sets(d: u8) -> Vec<Rows> {
    (0..1u32 << d).map(|m| (0..d).filter(|i| m >> i & 1 == 1).map(|i| vec![i]).collect()).collect()
}
/// all maps key in 0..k -> absent | any subset of 0..v (the empty subset = a bottom entry);
/// a row is [key, values...]
fn u_maps(k: u8, v: u8) -> Vec<Rows> {
    u_maps_opt(k, v, true)
}
/// `bottoms == false`: keys are absent or hold a NON-empty subset
fn u_maps_opt(k: u8, v: u8, bottoms: bool) -> Vec<Rows> {
    if !bottoms {
        return u_maps_opt(k, v, true).into_iter().filter(|rows| rows.iter().all(|r| r.len() > 1)).collect();
    }
    let per: u32 = 1 + (1 << v);
    (0..per.pow(k as u32))
        .map(|mut c| {
            let mut rows = vec![];
            for key in 0..k {
                let d = c % per;
                c /= per;
                if d > 0 {
                    let mut row = vec![key];
                    row.extend((0..v).filter(|i| (d - 1) >> i & 1 == 1));
                    rows.push(row);
                }
            }
            rows
        })
        .collect()
}
/// all sets of tuples over the given column domains
fn u_tuples(doms: &[u8]) -> Vec<Rows> {
    let mut tuples: Vec<Vec<u8>> = vec![vec![]];
    for &d in doms {
        tuples = tuples.iter().flat_map(|t| (0..d).map(move |x| { let mut t = t.clone(); t.push(x); t })).collect();
    }
    (0..1u32 << tuples.len()).map(|m| tuples.iter().enumerate().filter(|(i, _)| m >> i & 1 == 1).map(|(_, t)| t.clone()).collect()).collect()
}
fn u_max(d: u8) -> Vec<Rows> {
    (0..d).map(|x| vec![vec![x]]).collect()
}

// ------------------------------------------------------------------------------------------------
// SetUnion cartesian product
// ------------------------------------------------------------------------------------------------
macro_rules! set_of { ($t:ty, $r:expr) => { SetUnion::new($r.iter().map(|x| x[0]).collect::<$t>()) }; }

macro_rules! cartesian_spec {
    ($name:ident, $label:expr, $sa:ty, $sb:ty, $so:ty) => {
        pub struct $name(pub u8);
        impl Bim for $name {
            type A = SetUnion<$sa>;
            type B = SetUnion<$sb>;
            type O = SetUnion<$so>;
            fn name(&self) -> String { format!("CartesianProductBimorphism[{}] D={}", $label, self.0) }
            fn ua(&self) -> Vec<Rows> { u_sets(self.0) }
            fn ub(&self) -> Vec<Rows> { u_sets(self.0) }
            fn mk_a(&self, r: &Rows) -> Self::A { set_of!($sa, r) }
            fn mk_b(&self, r: &Rows) -> Self::B { set_of!($sb, r) }
            fn join_a(&self, a: Self::A, d: Self::A) -> Self::A { Merge::merge_owned(a, d) }
            fn join_b(&self, b: Self::B, d: Self::B) -> Self::B { Merge::merge_owned(b, d) }
            fn call(&self, a: Self::A, b: Self::B) -> Self::O { CartesianProductBimorphism::<$so>::default().call(a, b) }
            fn join_o(&self, x: Self::O, y: Self::O) -> Self::O { Merge::merge_owned(x, y) }
            fn eq_o(&self, x: &Self::O, y: &Self::O) -> bool { x == y }
            fn abs_o(&self, x: &Self::O) -> Abs { norm(x.as_reveal_ref().iter().map(|(a, b)| pack(&[*a, *b])).collect()) }
        }
    };
}
cartesian_spec!(CartHHH, "HashSet x HashSet -> HashSet", HashSet<u8>, HashSet<u8>, HashSet<(u8, u8)>);
cartesian_spec!(CartBBB, "BTreeSet x BTreeSet -> BTreeSet", BTreeSet<u8>, BTreeSet<u8>, BTreeSet<(u8, u8)>);
cartesian_spec!(CartVVH, "Vec x Vec -> HashSet", Vec<u8>, Vec<u8>, HashSet<(u8, u8)>);
cartesian_spec!(CartHBB, "HashSet x BTreeSet -> BTreeSet", HashSet<u8>, BTreeSet<u8>, BTreeSet<(u8, u8)>);

// ------------------------------------------------------------------------------------------------
// KeyedBimorphism<_, CartesianProductBimorphism>
// ------------------------------------------------------------------------------------------------
/// (keys, vals, include keys holding a bottom value)
pub struct KeyedHash(pub u8, pub u8, pub bool);
impl Bim for KeyedHash {
    type A = MapUnionHashMap<u8, SetUnionHashSet<u8>>;
    type B = MapUnionHashMap<u8, SetUnionHashSet<u8>>;
    type O = MapUnionHashMap<u8, SetUnion<HashSet<(u8, u8)>>>;
    fn name(&self) -> String { format!("KeyedBimorphism<HashMap,CartesianProduct<HashSet>> keys={} vals={}{}", self.0, self.1, if self.2 { "" } else { " (no bottom-valued keys)" }) }
    fn ua(&self) -> Vec<Rows> { u_maps_opt(self.0, self.1, self.2) }
    fn ub(&self) -> Vec<Rows> { u_maps_opt(self.0, self.1, self.2) }
    fn mk_a(&self, r: &Rows) -> Self::A { MapUnion::new(r.iter().map(|row| (row[0], SetUnion::new(row[1..].iter().copied().collect::<HashSet<u8>>()))).collect::<HashMap<_, _>>()) }
    fn mk_b(&self, r: &Rows) -> Self::B { self.mk_a(r) }
    fn join_a(&self, a: Self::A, d: Self::A) -> Self::A { Merge::merge_owned(a, d) }
    fn join_b(&self, b: Self::B, d: Self::B) -> Self::B { Merge::merge_owned(b, d) }
    fn call(&self, a: Self::A, b: Self::B) -> Self::O {
        KeyedBimorphism::<HashMap<u8, SetUnion<HashSet<(u8, u8)>>>, _>::new(CartesianProductBimorphism::<HashSet<(u8, u8)>>::default()).call(a, b)
    }
    fn join_o(&self, x: Self::O, y: Self::O) -> Self::O { Merge::merge_owned(x, y) }
    fn eq_o(&self, x: &Self::O, y: &Self::O) -> bool { x == y }
    fn abs_o(&self, x: &Self::O) -> Abs {
        norm(x.as_reveal_ref().iter().flat_map(|(k, s)| s.as_reveal_ref().iter().map(move |(a, b)| pack(&[*k, *a, *b]))).collect())
    }
}
pub struct KeyedBTree(pub u8, pub u8);
impl Bim for KeyedBTree {
    type A = MapUnionBTreeMap<u8, SetUnionBTreeSet<u8>>;
    type B = MapUnionHashMap<u8, SetUnionHashSet<u8>>;
    type O = MapUnionBTreeMap<u8, SetUnion<BTreeSet<(u8, u8)>>>;
    fn name(&self) -> String { format!("KeyedBimorphism<BTreeMap,CartesianProduct<BTreeSet>> (BTreeMap x HashMap) keys={} vals={}", self.0, self.1) }
    fn ua(&self) -> Vec<Rows> { u_maps(self.0, self.1) }
    fn ub(&self) -> Vec<Rows> { u_maps(self.0, self.1) }
    fn mk_a(&self, r: &Rows) -> Self::A { MapUnion::new(r.iter().map(|row| (row[0], SetUnion::new(row[1..].iter().copied().collect::<BTreeSet<u8>>()))).collect::<BTreeMap<_, _>>()) }
    fn mk_b(&self, r: &Rows) -> Self::B { MapUnion::new(r.iter().map(|row| (row[0], SetUnion::new(row[1..].iter().copied().collect::<HashSet<u8>>()))).collect::<HashMap<_, _>>()) }
    fn join_a(&self, a: Self::A, d: Self::A) -> Self::A { Merge::merge_owned(a, d) }
    fn join_b(&self, b: Self::B, d: Self::B) -> Self::B { Merge::merge_owned(b, d) }
    fn call(&self, a: Self::A, b: Self::B) -> Self::O {
        KeyedBimorphism::<BTreeMap<u8, SetUnion<BTreeSet<(u8, u8)>>>, _>::new(CartesianProductBimorphism::<BTreeSet<(u8, u8)>>::default()).call(a, b)
    }
    fn join_o(&self, x: Self::O, y: Self::O) -> Self::O { Merge::merge_owned(x, y) }
    fn eq_o(&self, x: &Self::O, y: &Self::O) -> bool { x == y }
    fn abs_o(&self, x: &Self::O) -> Abs {
        norm(x.as_reveal_ref().iter().flat_map(|(k, s)| s.as_reveal_ref().iter().map(move |(a, b)| pack(&[*k, *a, *b]))).collect())
    }
}

/// Keyed bimorphism with every combination of HashMap / BTreeMap as LEFT and RIGHT argument
/// (a BTreeMap argument makes the key iteration order deterministic).
macro_rules! keyed_spec {
    ($name:ident, $label:expr, $ma:ident, $sa:ident, $mb:ident, $sb:ident, $mo:ident, $so:ident) => {
        pub struct $name(pub u8, pub u8);
        impl Bim for $name {
            type A = MapUnion<$ma<u8, SetUnion<$sa<u8>>>>;
            type B = MapUnion<$mb<u8, SetUnion<$sb<u8>>>>;
            type O = MapUnion<$mo<u8, SetUnion<$so<(u8, u8)>>>>;
            fn name(&self) -> String { format!("KeyedBimorphism<_,CartesianProduct> [{}] keys={} vals={}", $label, self.0, self.1) }
            fn ua(&self) -> Vec<Rows> { u_maps(self.0, self.1) }
            fn ub(&self) -> Vec<Rows> { u_maps(self.0, self.1) }
            fn mk_a(&self, r: &Rows) -> Self::A { MapUnion::new(r.iter().map(|row| (row[0], SetUnion::new(row[1..].iter().copied().collect::<$sa<u8>>()))).collect::<$ma<_, _>>()) }
            fn mk_b(&self, r: &Rows) -> Self::B { MapUnion::new(r.iter().map(|row| (row[0], SetUnion::new(row[1..].iter().copied().collect::<$sb<u8>>()))).collect::<$mb<_, _>>()) }
            fn join_a(&self, a: Self::A, d: Self::A) -> Self::A { Merge::merge_owned(a, d) }
            fn join_b(&self, b: Self::B, d: Self::B) -> Self::B { Merge::merge_owned(b, d) }
            fn call(&self, a: Self::A, b: Self::B) -> Self::O {
                KeyedBimorphism::<$mo<u8, SetUnion<$so<(u8, u8)>>>, _>::new(CartesianProductBimorphism::<$so<(u8, u8)>>::default()).call(a, b)
            }
            fn join_o(&self, x: Self::O, y: Self::O) -> Self::O { Merge::merge_owned(x, y) }
            fn eq_o(&self, x: &Self::O, y: &Self::O) -> bool { x == y }
            fn abs_o(&self, x: &Self::O) -> Abs {
                norm(x.as_reveal_ref().iter().flat_map(|(k, s)| s.as_reveal_ref().iter().map(move |(a, b)| pack(&[*k, *a, *b]))).collect())
            }
        }
    };
}
keyed_spec!(KeyedHH, "HashMap x HashMap -> HashMap", HashMap, HashSet, HashMap, HashSet, HashMap, HashSet);
keyed_spec!(KeyedHB, "HashMap x BTreeMap -> HashMap", HashMap, HashSet, BTreeMap, BTreeSet, HashMap, HashSet);
keyed_spec!(KeyedBH, "BTreeMap x HashMap -> BTreeMap", BTreeMap, BTreeSet, HashMap, HashSet, BTreeMap, BTreeSet);
keyed_spec!(KeyedBB, "BTreeMap x BTreeMap -> BTreeMap", BTreeMap, BTreeSet, BTreeMap, BTreeSet, BTreeMap, BTreeSet);

// ------------------------------------------------------------------------------------------------
// PairBimorphism
// ------------------------------------------------------------------------------------------------
pub struct PairSpec(pub u8);
impl Bim for PairSpec {
    type A = SetUnionHashSet<u8>;
    type B = Max<u8>;
    type O = Pair<SetUnionHashSet<u8>, Max<u8>>;
    fn name(&self) -> String { format!("PairBimorphism (SetUnionHashSet x Max<u8>) D={}", self.0) }
    fn ua(&self) -> Vec<Rows> { u_sets(self.0) }
    fn ub(&self) -> Vec<Rows> { u_max(self.0 + 1) }
    fn mk_a(&self, r: &Rows) -> Self::A { set_of!(HashSet<u8>, r) }
    fn mk_b(&self, r: &Rows) -> Self::B { Max::new(r[0][0]) }
    fn join_a(&self, a: Self::A, d: Self::A) -> Self::A { Merge::merge_owned(a, d) }
    fn join_b(&self, b: Self::B, d: Self::B) -> Self::B { Merge::merge_owned(b, d) }
    fn call(&self, a: Self::A, b: Self::B) -> Self::O { PairBimorphism.call(a, b) }
    fn join_o(&self, x: Self::O, y: Self::O) -> Self::O { Merge::merge_owned(x, y) }
    fn eq_o(&self, x: &Self::O, y: &Self::O) -> bool { x == y }
    /// (Max value, element) tuples plus a (Max value) tuple so that the empty set still shows the Max
    fn abs_o(&self, x: &Self::O) -> Abs {
        let m = *x.b.as_reveal_ref();
        let mut v: Vec<u32> = x.a.as_reveal_ref().iter().map(|e| pack(&[m, *e])).collect();
        v.push(pack(&[m]));
        norm(v)
    }
}
pub struct PairSpec2(pub u8);
impl Bim for PairSpec2 {
    type A = SetUnionBTreeSet<u8>;
    type B = SetUnionVec<u8>;
    type O = Pair<SetUnionBTreeSet<u8>, SetUnionVec<u8>>;
    fn name(&self) -> String { format!("PairBimorphism (SetUnionBTreeSet x SetUnionVec) D={}", self.0) }
    fn ua(&self) -> Vec<Rows> { u_sets(self.0) }
    fn ub(&self) -> Vec<Rows> { u_sets(self.0) }
    fn mk_a(&self, r: &Rows) -> Self::A { set_of!(BTreeSet<u8>, r) }
    fn mk_b(&self, r: &Rows) -> Self::B { set_of!(Vec<u8>, r) }
    fn join_a(&self, a: Self::A, d: Self::A) -> Self::A { Merge::merge_owned(a, d) }
    fn join_b(&self, b: Self::B, d: Self::B) -> Self::B { Merge::merge_owned(b, d) }
    fn call(&self, a: Self::A, b: Self::B) -> Self::O { PairBimorphism.call(a, b) }
    fn join_o(&self, x: Self::O, y: Self::O) -> Self::O { Merge::merge_owned(x, y) }
    /// `SetUnion<Vec>` has no `==` (Vec is not a cc_traits Set); compare the components as sets
    fn eq_o(&self, x: &Self::O, y: &Self::O) -> bool { self.abs_o(x) == self.abs_o(y) }
    fn abs_o(&self, x: &Self::O) -> Abs {
        let mut v: Vec<u32> = x.a.as_reveal_ref().iter().map(|e| pack(&[0, *e])).collect();
        v.extend(x.b.as_reveal_ref().iter().map(|e| pack(&[1, *e])));
        norm(v)
    }
}

// ------------------------------------------------------------------------------------------------
// GHT bimorphisms
// ------------------------------------------------------------------------------------------------
type Ght2 = GhtType!(u8 => u8: VariadicHashSetStd);
type Ght3 = GhtType!(u8, u8 => u8: VariadicHashSetStd);
type Ght4Out = GhtType!(u8, u8, u8 => u8: VariadicHashSetStd);
type Ght3Out = GhtType!(u8, u8 => u8: VariadicHashSetStd);

fn mk_ght2(r: &Rows) -> Ght2 {
    let mut g = Ght2::default();
    for t in r { g.insert(var_expr!(t[0], t[1])); }
    g
}
fn mk_ght3(r: &Rows) -> Ght3 {
    let mut g = Ght3::default();
    for t in r { g.insert(var_expr!(t[0], t[1], t[2])); }
    g
}
#[allow(dead_code)]
fn abs2<G: GeneralizedHashTrieNode<Schema = var_type!(u8, u8)>>(g: &G) -> Abs {
    norm(g.recursive_iter().map(|row| { let var_args!(a, b) = row; pack(&[*a, *b]) }).collect())
}
fn abs3<G: GeneralizedHashTrieNode<Schema = var_type!(u8, u8, u8)>>(g: &G) -> Abs {
    norm(g.recursive_iter().map(|row| { let var_args!(a, b, c) = row; pack(&[*a, *b, *c]) }).collect())
}
fn abs4<G: GeneralizedHashTrieNode<Schema = var_type!(u8, u8, u8, u8)>>(g: &G) -> Abs {
    norm(g.recursive_iter().map(|row| { let var_args!(a, b, c, d) = row; pack(&[*a, *b, *c, *d]) }).collect())
}

/// column domains of the (key, value) tuples of the two-column tries
pub struct GhtCart(pub u8, pub u8, pub bool);
impl Bim for GhtCart {
    type A = Ght2;
    type B = Ght2;
    type O = Ght4Out;
    fn name(&self) -> String {
        format!("{}GhtCartesianProductBimorphism (u8=>u8) x (u8=>u8) -> (u8,u8,u8=>u8) doms=({},{})", if self.2 { "GhtBimorphism<" } else { "" }, self.0, self.1)
    }
    fn ua(&self) -> Vec<Rows> { u_tuples(&[self.0, self.1]) }
    fn ub(&self) -> Vec<Rows> { u_tuples(&[self.0, self.1]) }
    fn mk_a(&self, r: &Rows) -> Ght2 { mk_ght2(r) }
    fn mk_b(&self, r: &Rows) -> Ght2 { mk_ght2(r) }
    fn join_a(&self, a: Ght2, d: Ght2) -> Ght2 { Merge::merge_owned(a, d) }
    fn join_b(&self, b: Ght2, d: Ght2) -> Ght2 { Merge::merge_owned(b, d) }
    fn call(&self, a: Ght2, b: Ght2) -> Ght4Out {
        if self.2 {
            GhtBimorphism::new(GhtCartesianProductBimorphism::<Ght4Out>::default()).call(a, b)
        } else {
            GhtCartesianProductBimorphism::<Ght4Out>::default().call(&a, &b)
        }
    }
    fn join_o(&self, x: Ght4Out, y: Ght4Out) -> Ght4Out { Merge::merge_owned(x, y) }
    fn eq_o(&self, x: &Ght4Out, y: &Ght4Out) -> bool { x == y }
    fn abs_o(&self, x: &Ght4Out) -> Abs { abs4(x) }
}

pub struct GhtValProd(pub u8, pub u8);
impl Bim for GhtValProd {
    type A = Ght2;
    type B = Ght2;
    type O = Ght3Out;
    fn name(&self) -> String { format!("GhtValTypeProductBimorphism (u8=>u8) x (u8=>u8) -> (u8,u8=>u8) doms=({},{})", self.0, self.1) }
    fn ua(&self) -> Vec<Rows> { u_tuples(&[self.0, self.1]) }
    fn ub(&self) -> Vec<Rows> { u_tuples(&[self.0, self.1]) }
    fn mk_a(&self, r: &Rows) -> Ght2 { mk_ght2(r) }
    fn mk_b(&self, r: &Rows) -> Ght2 { mk_ght2(r) }
    fn join_a(&self, a: Ght2, d: Ght2) -> Ght2 { Merge::merge_owned(a, d) }
    fn join_b(&self, b: Ght2, d: Ght2) -> Ght2 { Merge::merge_owned(b, d) }
    fn call(&self, a: Ght2, b: Ght2) -> Ght3Out { GhtValTypeProductBimorphism::<Ght3Out>::default().call(&a, &b) }
    fn join_o(&self, x: Ght3Out, y: Ght3Out) -> Ght3Out { Merge::merge_owned(x, y) }
    fn eq_o(&self, x: &Ght3Out, y: &Ght3Out) -> bool { x == y }
    fn abs_o(&self, x: &Ght3Out) -> Abs { abs3(x) }
}

/// equijoin on the key column: GhtNodeKeyedBimorphism<GhtValTypeProductBimorphism<leaf>>
type JoinLeaf = GhtLeaf<var_type!(u8, u8, u8), var_type!(u8, u8), VariadicHashSetStd<var_type!(u8, u8, u8)>>;
type JoinOut = GhtInner<u8, JoinLeaf>;
pub struct GhtKeyed(pub u8, pub u8, pub bool);
impl Bim for GhtKeyed {
    type A = Ght2;
    type B = Ght2;
    type O = JoinOut;
    fn name(&self) -> String {
        format!("{}GhtNodeKeyedBimorphism<GhtValTypeProductBimorphism> (u8=>u8) join (u8=>u8) doms=({},{})", if self.2 { "GhtBimorphism<" } else { "" }, self.0, self.1)
    }
    fn ua(&self) -> Vec<Rows> { u_tuples(&[self.0, self.1]) }
    fn ub(&self) -> Vec<Rows> { u_tuples(&[self.0, self.1]) }
    fn mk_a(&self, r: &Rows) -> Ght2 { mk_ght2(r) }
    fn mk_b(&self, r: &Rows) -> Ght2 { mk_ght2(r) }
    fn join_a(&self, a: Ght2, d: Ght2) -> Ght2 { Merge::merge_owned(a, d) }
    fn join_b(&self, b: Ght2, d: Ght2) -> Ght2 { Merge::merge_owned(b, d) }
    fn call(&self, a: Ght2, b: Ght2) -> JoinOut {
        if self.2 {
            GhtBimorphism::new(GhtNodeKeyedBimorphism::new(GhtValTypeProductBimorphism::<JoinLeaf>::default())).call(a, b)
        } else {
            GhtNodeKeyedBimorphism::new(GhtValTypeProductBimorphism::<JoinLeaf>::default()).call(&a, &b)
        }
    }
    fn join_o(&self, x: JoinOut, y: JoinOut) -> JoinOut { Merge::merge_owned(x, y) }
    fn eq_o(&self, x: &JoinOut, y: &JoinOut) -> bool { x == y }
    fn abs_o(&self, x: &JoinOut) -> Abs { abs3(x) }
}

/// the recommended constructor: DeepJoinLatticeBimorphism over two-level tries (u8,u8 => u8)
type DeepSchema = var_type!(u8, u8, u8, u8);
type DeepBim = <(Ght3, Ght3) as DeepJoinLatticeBimorphism<VariadicHashSetStd<DeepSchema>>>::DeepJoinLatticeBimorphism;
type DeepOut = <DeepBim as LatticeBimorphism<&'static Ght3, &'static Ght3>>::Output;
pub struct GhtDeep(pub [u8; 3]);
impl Bim for GhtDeep {
    type A = Ght3;
    type B = Ght3;
    type O = DeepOut;
    fn name(&self) -> String { format!("DeepJoinLatticeBimorphism (u8,u8=>u8) join (u8,u8=>u8) doms={:?}", self.0) }
    fn ua(&self) -> Vec<Rows> { u_tuples(&self.0) }
    fn ub(&self) -> Vec<Rows> { u_tuples(&self.0) }
    fn mk_a(&self, r: &Rows) -> Ght3 { mk_ght3(r) }
    fn mk_b(&self, r: &Rows) -> Ght3 { mk_ght3(r) }
    fn join_a(&self, a: Ght3, d: Ght3) -> Ght3 { Merge::merge_owned(a, d) }
    fn join_b(&self, b: Ght3, d: Ght3) -> Ght3 { Merge::merge_owned(b, d) }
    fn call(&self, a: Ght3, b: Ght3) -> DeepOut { <DeepBim as Default>::default().call(&a, &b) }
    fn join_o(&self, x: DeepOut, y: DeepOut) -> DeepOut { Merge::merge_owned(x, y) }
    fn eq_o(&self, x: &DeepOut, y: &DeepOut) -> bool { x == y }
    fn abs_o(&self, x: &DeepOut) -> Abs { abs4(x) }
}

// ------------------------------------------------------------------------------------------------
// the check
// ------------------------------------------------------------------------------------------------
#[derive(Clone, Debug)]
pub struct Fail {
    pub side: &'static str,
    pub a: Rows,
    pub d: Rows,
    pub b: Rows,
    pub msg: String,
}

/// One triple. side "left": f(a ⊔ d, b) vs f(a,b) ⊔ f(d,b); side "right": f(b', a ⊔ d) with the
/// roles swapped by the caller (here: `x`,`dx` range over the distributing argument, `y` is fixed).
fn one_left<S: Bim>(s: &S, a: &Rows, d: &Rows, b: &Rows) -> Result<(Abs, bool), String> {
    let lhs = s.call(s.join_a(s.mk_a(a), s.mk_a(d)), s.mk_b(b));
    let rhs = s.join_o(s.call(s.mk_a(a), s.mk_b(b)), s.call(s.mk_a(d), s.mk_b(b)));
    judge(s, lhs, rhs, &s.call(s.mk_a(d), s.mk_b(b)))
}
fn one_right<S: Bim>(s: &S, a: &Rows, b: &Rows, d: &Rows) -> Result<(Abs, bool), String> {
    let lhs = s.call(s.mk_a(a), s.join_b(s.mk_b(b), s.mk_b(d)));
    let rhs = s.join_o(s.call(s.mk_a(a), s.mk_b(b)), s.call(s.mk_a(a), s.mk_b(d)));
    judge(s, lhs, rhs, &s.call(s.mk_a(a), s.mk_b(d)))
}
fn judge<S: Bim>(s: &S, lhs: S::O, rhs: S::O, delta_out: &S::O) -> Result<(Abs, bool), String> {
    let (la, ra) = (s.abs_o(&lhs), s.abs_o(&rhs));
    if la != ra {
        return Err(format!("as tuple sets f(x ⊔ dx, y) = {} but f(x,y) ⊔ f(dx,y) = {}", show_abs(&la), show_abs(&ra)));
    }
    if !s.eq_o(&lhs, &rhs) || !s.eq_o(&rhs, &lhs) {
        return Err(format!("the output type's == says f(x ⊔ dx, y) != f(x,y) ⊔ f(dx,y) although both denote the tuple set {}", show_abs(&la)));
    }
    let nonbot = !s.abs_o(delta_out).is_empty();
    Ok((la, nonbot))
}

pub fn check_case<S: Bim>(s: &S, side: &str, a: &Rows, d: &Rows, b: &Rows) -> Result<Abs, String> {
    let r = catch(|| if side == "left" { one_left(s, a, d, b) } else { one_right(s, a, b, d) });
    match r {
        Ok(Ok((abs, _))) => Ok(abs),
        Ok(Err(e)) => Err(e),
        Err(p) => Err(format!("panic: {p}")),
    }
}

struct ShardOut {
    st: Stats,
    fails: Vec<Fail>,
    /// exact number of non-trivial triples (each triple is enumerated exactly once, so this is a
    /// count of distinct cases); only the first NT_CAP per shard are also put into the hash set
    nontrivial: u64,
}
const NT_CAP: u64 = 2048;

fn machinery(msg: String) -> ! {
    println!("MACHINERY-ERROR: {msg}");
    std::process::exit(2);
}

pub fn run_spec<S: Bim>(s: Arc<S>, threads: usize) -> (Stats, Value) {
    let ua = Arc::new(s.ua());
    let ub = Arc::new(s.ub());
    let (na, nb) = (ua.len(), ub.len());
    let (s2, ua2, ub2) = (s.clone(), ua.clone(), ub.clone());
    let name_hash = vf_explore::hash_of(&s.name());
    // shard i < nb: left distribution with b = ub[i] fixed; shard nb + j: right with a = ua[j] fixed
    let work = move |i: usize, beat: &Beat| -> ShardOut {
        let s = &*s2;
        let mut out = ShardOut { st: Stats::new(), fails: vec![], nontrivial: 0 };
        let name = s.name();
        // the real argument objects, built once per shard and cloned per use
        let oa: Vec<S::A> = ua2.iter().map(|a| s.mk_a(a)).collect();
        let ob: Vec<S::B> = ub2.iter().map(|b| s.mk_b(b)).collect();
        if i < nb {
            let b = &ub2[i];
            let fb: Vec<S::O> = oa.iter().map(|a| s.call(a.clone(), ob[i].clone())).collect();
            for (ia, a) in ua2.iter().enumerate() {
                for (id, d) in ua2.iter().enumerate() {
                    beat.tick();
                    out.st.eval();
                    let r = catch(|| {
                        let lhs = s.call(s.join_a(oa[ia].clone(), oa[id].clone()), ob[i].clone());
                        let rhs = s.join_o(fb[ia].clone(), fb[id].clone());
                        judge(s, lhs, rhs, &fb[id])
                    });
                    record(&mut out, &name, name_hash, "left", a, d, b, r);
                }
            }
        } else {
            let ja = i - nb;
            let a = &ua2[ja];
            let fa: Vec<S::O> = ob.iter().map(|b| s.call(oa[ja].clone(), b.clone())).collect();
            for (ib, b) in ub2.iter().enumerate() {
                for (id, d) in ub2.iter().enumerate() {
                    beat.tick();
                    out.st.eval();
                    let r = catch(|| {
                        let lhs = s.call(oa[ja].clone(), s.join_b(ob[ib].clone(), ob[id].clone()));
                        let rhs = s.join_o(fa[ib].clone(), fa[id].clone());
                        judge(s, lhs, rhs, &fa[id])
                    });
                    record(&mut out, &name, name_hash, "right", a, d, b, r);
                }
            }
        }
        out
    };
    #[allow(clippy::too_many_arguments)]
    fn record(out: &mut ShardOut, name: &str, name_hash: u64, side: &'static str, a: &Rows, d: &Rows, b: &Rows, r: Result<Result<(Abs, bool), String>, String>) {
        match r {
            Ok(Ok((abs, nonbot))) => {
                out.st.outcome(&(name_hash, &abs));
                // non-trivial: the delta is not already contained in the operand it is merged into
                // and the delta's own image is not bottom
                let (x, dx) = if side == "left" { (a, d) } else { (b, d) };
                let contained = dx.iter().all(|row| x.contains(row));
                if !contained && nonbot {
                    out.nontrivial += 1;
                    if out.nontrivial <= NT_CAP {
                        out.st.nontrivial(&(name_hash, side, a, d, b));
                    }
                }
                out.st.sample(|| json!({"bimorphism": name, "side": side, "a": a, "delta": d, "b": b, "f(merged) as tuples": show_abs(&abs)}));
            }
            Ok(Err(msg)) => { if out.fails.len() < 3 { out.fails.push(Fail { side, a: a.clone(), d: d.clone(), b: b.clone(), msg }); } }
            Err(p) => { if out.fails.len() < 3 { out.fails.push(Fail { side, a: a.clone(), d: d.clone(), b: b.clone(), msg: format!("panic: {p}") }); } }
        }
    }
    let mut nontrivial = 0u64;
    let mut st = Stats::new();
    match guard::run(na + nb, threads, Arc::new(work)) {
        Outcome::Done(outs) => {
            let mut fails = vec![];
            for o in outs {
                st.merge(o.st);
                fails.extend(o.fails);
                nontrivial += o.nontrivial;
            }
            for f in fails.into_iter().take(2) {
                // right side failures carry (a fixed, b, d): normalise to (a, d, b) argument order of check_case
                match check_case(&*s, f.side, &f.a, &f.d, &f.b) {
                    Err(msg) => st.violation(
                        format!("C07:{}:{}:a={:?};delta={:?};b={:?}", s.name(), f.side, f.a, f.d, f.b),
                        format!("{} is not a morphism in its {} argument: a={:?} delta={:?} b={:?}: {msg}", s.name(), f.side, f.a, f.d, f.b),
                        json!({"kind": "c07", "spec": s.name(), "side": f.side, "a": f.a, "delta": f.d, "b": f.b}),
                    ),
                    Ok(_) => guard::note_flaky(format!("C07 {}: failure did not reproduce ({:?}; first: {})", s.name(), (f.side, &f.a, &f.d, &f.b), f.msg)),
                }
            }
        }
        Outcome::Hang { shard, .. } => machinery(format!("C07 {}: shard {shard} exceeded the step budget", s.name())),
        Outcome::Panic(p) => machinery(format!("C07 {}: harness worker panicked: {p}", s.name())),
    }
    let info = json!({"bimorphism": s.name(), "values_a": na, "values_b": nb, "triples": na * na * nb + na * nb * nb, "nontrivial_exact": nontrivial});
    (st, info)
}
