//! C04 — union-find: real `UnionFind<HashMap>` / `UnionFind<BTreeMap>` receivers reachable from the
//! empty forest; `union`, `same` (path-compressing), `merge(other)` with `other` ranging over ALL
//! parent maps over the item domain (cyclic / self-looping ones included: `merge` only reads
//! `other` as an edge list, it never calls `find` on it) in every iteration order and every
//! representation with an `IntoIterator` impl, and `LatticeFrom` between the backings.
//! Model: partition = equivalence closure of all (item,parent) edges ever merged/unioned.
//! State fingerprint: the full parent map + backing (compression states stay distinct).
use std::cell::Cell;
use std::collections::{BTreeMap, HashMap};

use lattices::collections::{ArrayMap, OptionMap, SingletonMap, VecMap};
use lattices::union_find::{UnionFind, UnionFindBTreeMap, UnionFindHashMap};
use lattices::{LatticeFrom, Merge};
use vf_explore::combi::permutations;

use crate::c04::{Family, Op};

#[derive(Clone)]
pub enum UfR {
    H(UnionFindHashMap<usize>),
    B(UnionFindBTreeMap<usize>),
}

pub struct UfFam {
    pub n: usize,
    /// permutations of 0..k for k = 0..=n
    perms: Vec<Vec<Vec<usize>>>,
}

impl UfFam {
    pub fn new(n: usize) -> Self {
        let perms = (0..=n).map(|k| permutations(&(0..k).collect::<Vec<_>>())).collect();
        UfFam { n, perms }
    }
    /// parent map `code` (base n+1 digits; 0 = item absent, d = parent d-1), entries sorted by item
    fn entries(&self, code: i64) -> Vec<(usize, usize)> {
        let b = self.n as i64 + 1;
        let mut c = code;
        let mut v = vec![];
        for i in 0..self.n {
            let d = c % b;
            c /= b;
            if d > 0 {
                v.push((i, (d - 1) as usize));
            }
        }
        v
    }
    fn ordered(&self, code: i64, perm: i64) -> Vec<(usize, usize)> {
        let e = self.entries(code);
        self.perms[e.len()][perm as usize].iter().map(|&i| e[i]).collect()
    }
    fn reveal(r: &UfR) -> BTreeMap<usize, usize> {
        match r {
            UfR::H(u) => u.as_reveal_ref().iter().map(|(k, v)| (*k, v.get())).collect(),
            UfR::B(u) => u.as_reveal_ref().iter().map(|(k, v)| (*k, v.get())).collect(),
        }
    }
    /// Harness-side abstraction of a parent map: follow parents without mutating anything.
    fn partition(&self, pm: &BTreeMap<usize, usize>) -> Result<Vec<u8>, String> {
        let mut root = vec![0usize; self.n];
        for x in 0..self.n {
            let mut cur = x;
            let mut steps = 0;
            loop {
                match pm.get(&cur) {
                    None => break,
                    Some(&p) if p == cur => break,
                    Some(&p) => cur = p,
                }
                steps += 1;
                if steps > pm.len() + 1 {
                    return Err(format!("receiver parent map {pm:?} contains a cycle"));
                }
            }
            root[x] = cur;
        }
        Ok(canon(&root))
    }
}

/// canonical labelling: every item gets the smallest item of its class
fn canon(root: &[usize]) -> Vec<u8> {
    (0..root.len()).map(|x| (0..root.len()).find(|&y| root[y] == root[x]).unwrap() as u8).collect()
}
fn model_union(m: &mut [u8], a: usize, b: usize) {
    let (la, lb) = (m[a], m[b]);
    if la != lb {
        let (lo, hi) = (la.min(lb), la.max(lb));
        for x in m.iter_mut() {
            if *x == hi {
                *x = lo;
            }
        }
    }
}

fn cells(e: &[(usize, usize)]) -> impl Iterator<Item = (usize, Cell<usize>)> + '_ {
    e.iter().map(|&(k, p)| (k, Cell::new(p)))
}
fn arr<T, const N: usize>(v: Vec<T>) -> [T; N] {
    v.try_into().ok().expect("length")
}
macro_rules! array_uf {
    ($e:expr, $n:literal) => {
        UnionFind::new(ArrayMap { keys: arr::<usize, $n>($e.iter().map(|x| x.0).collect()), vals: arr::<Cell<usize>, $n>($e.iter().map(|x| Cell::new(x.1)).collect()) })
    };
}
// 0 VecMap 1 ArrayMap<N> 2 BTreeMap 3 HashMap 4 SingletonMap 5 OptionMap
macro_rules! with_uf_delta {
    ($e:expr, $repr:expr, |$d:ident| $body:expr) => {{
        let e: Vec<(usize, usize)> = $e;
        match $repr {
            0 => { let $d = UnionFind::new(VecMap::new(e.iter().map(|x| x.0).collect(), e.iter().map(|x| Cell::new(x.1)).collect())); $body }
            1 => match e.len() {
                0 => { let $d = array_uf!(e, 0); $body }
                1 => { let $d = array_uf!(e, 1); $body }
                2 => { let $d = array_uf!(e, 2); $body }
                3 => { let $d = array_uf!(e, 3); $body }
                4 => { let $d = array_uf!(e, 4); $body }
                _ => unreachable!(),
            },
            2 => { let $d = UnionFind::new(cells(&e).collect::<BTreeMap<_, _>>()); $body }
            3 => { let $d = UnionFind::new(cells(&e).collect::<HashMap<_, _>>()); $body }
            4 => { let $d = UnionFind::new(SingletonMap(e[0].0, Cell::new(e[0].1))); $body }
            5 => { let $d = UnionFind::new(OptionMap(e.first().map(|&(k, p)| (k, Cell::new(p))))); $body }
            _ => unreachable!(),
        }
    }};
}
const UF_REPR: [&str; 6] = ["VecMap", "ArrayMap", "BTreeMap", "HashMap", "SingletonMap", "OptionMap"];

/// All-pairs `same` on a (read-only backed) union-find value against the model partition.
macro_rules! same_table {
    ($u:expr, $m:expr, $n:expr, $what:expr) => {{
        let mut res = Ok(());
        'outer: for a in 0..$n {
            for b in 0..$n {
                let got = $u.same(a, b).into_reveal();
                let want = $m[a] == $m[b];
                if got != want {
                    res = Err(format!("{}: same({a},{b}) = {got} but the model partition {:?} says {want}", $what, $m));
                    break 'outer;
                }
            }
        }
        res
    }};
}

impl Family for UfFam {
    type Recv = UfR;
    type Model = Vec<u8>;
    fn name(&self) -> String {
        "UnionFind".into()
    }
    fn inits(&self) -> Vec<Op> {
        vec![[0, 0, 0, 0], [0, 1, 0, 0]]
    }
    fn ops(&self) -> Vec<Op> {
        let n = self.n as i64;
        let mut v = vec![];
        for a in 0..n {
            for b in 0..n {
                v.push([3, a, b, 0]);
                v.push([4, a, b, 0]);
            }
        }
        v.push([2, 0, 0, 0]);
        v.push([2, 1, 0, 0]);
        for code in 0..(n + 1).pow(self.n as u32) {
            let k = self.entries(code).len();
            let np = self.perms[k].len() as i64;
            for p in 0..np {
                v.push([1, code, p, 0]);
                if (p == 0 || p == np - 1) && k <= 4 {
                    v.push([1, code, p, 1]);
                }
            }
            v.push([1, code, 0, 2]);
            v.push([1, code, 0, 3]);
            if k == 1 {
                v.push([1, code, 0, 4]);
            }
            if k <= 1 {
                v.push([1, code, 0, 5]);
            }
        }
        v
    }
    fn init(&self, op: &Op) -> (UfR, Vec<u8>) {
        let m = (0..self.n as u8).collect();
        (if op[1] == 0 { UfR::H(Default::default()) } else { UfR::B(Default::default()) }, m)
    }
    fn expand(&self, op: &Op) -> bool {
        // HashMap-typed deltas iterate in a per-process random order; they are executed and judged
        // on every state but their successors are not enqueued (every order is enqueued through
        // the VecMap deltas), which keeps the explored graph identical from run to run.
        !(op[0] == 1 && op[3] == 3)
    }
    fn apply(&self, r: UfR, op: &Op, m: &Vec<u8>) -> Result<UfR, String> {
        Ok(match op[0] {
            1 => {
                let e = self.ordered(op[1], op[2]);
                match r {
                    UfR::H(mut u) => { with_uf_delta!(e, op[3], |d| u.merge(d)); UfR::H(u) }
                    UfR::B(mut u) => { with_uf_delta!(e, op[3], |d| u.merge(d)); UfR::B(u) }
                }
            }
            2 => match (r, op[1]) {
                (UfR::H(u), 0) => UfR::H(LatticeFrom::lattice_from(u)),
                (UfR::H(u), _) => UfR::B(LatticeFrom::lattice_from(u)),
                (UfR::B(u), 0) => UfR::H(LatticeFrom::lattice_from(u)),
                (UfR::B(u), _) => UfR::B(LatticeFrom::lattice_from(u)),
            },
            3 => match r {
                UfR::H(mut u) => { u.union(op[1] as usize, op[2] as usize); UfR::H(u) }
                UfR::B(mut u) => { u.union(op[1] as usize, op[2] as usize); UfR::B(u) }
            },
            4 => {
                let (a, b) = (op[1] as usize, op[2] as usize);
                let got = match &r {
                    UfR::H(u) => u.same(a, b).into_reveal(),
                    UfR::B(u) => u.same(a, b).into_reveal(),
                };
                let want = m[a] == m[b];
                if got != want {
                    return Err(format!("same({a},{b}) returned {got} but the model partition {m:?} says {want}"));
                }
                r
            }
            _ => unreachable!(),
        })
    }
    fn model(&self, m: &Vec<u8>, op: &Op) -> Vec<u8> {
        let mut m = m.clone();
        match op[0] {
            1 => {
                for (i, p) in self.entries(op[1]) {
                    model_union(&mut m, i, p);
                }
            }
            3 => model_union(&mut m, op[1] as usize, op[2] as usize),
            _ => {}
        }
        m
    }
    fn alpha(&self, r: &UfR) -> Result<Vec<u8>, String> {
        self.partition(&Self::reveal(r))
    }
    fn fingerprint(&self, r: &UfR) -> String {
        format!("{}{:?}", match r { UfR::H(_) => "HashMap", UfR::B(_) => "BTreeMap" }, Self::reveal(r))
    }
    fn extra(&self, r: &UfR, m: &Vec<u8>) -> Result<(), String> {
        let n = self.n;
        // (i) every same(a,b) on a deep copy of the receiver (same() compresses paths), then the
        //     compressed copy must still denote the same partition
        let c = r.clone();
        match &c {
            UfR::H(u) => same_table!(u, m, n, "receiver")?,
            UfR::B(u) => same_table!(u, m, n, "receiver")?,
        }
        let after = self.partition(&Self::reveal(&c))?;
        if after != *m {
            return Err(format!("after calling same() on all pairs the parent map {:?} denotes {after:?}, model {m:?}", Self::reveal(&c)));
        }
        // (ii) the same forest held by the read-only backings (`find` through their `Get` impls),
        //      then `LatticeFrom` back into both growable backings
        let pm = Self::reveal(r);
        let asc: Vec<(usize, usize)> = pm.iter().map(|(k, v)| (*k, *v)).collect();
        let desc: Vec<(usize, usize)> = asc.iter().rev().copied().collect();
        for (e, name) in [(asc.clone(), "asc"), (desc, "desc")] {
            let reprs: Vec<i64> = if e.len() == 1 { vec![0, 1, 4, 5] } else if e.is_empty() { vec![0, 1, 5] } else { vec![0, 1] };
            for repr in reprs {
                let what = format!("forest {pm:?} held as UnionFind<{}> ({name})", UF_REPR[repr as usize]);
                let (hm, bm): (BTreeMap<usize, usize>, BTreeMap<usize, usize>) = with_uf_delta!(e.clone(), repr, |d| {
                    same_table!(d, m, n, what)?;
                    let d2 = d.clone();
                    let h: UnionFindHashMap<usize> = LatticeFrom::lattice_from(d);
                    let b: UnionFindBTreeMap<usize> = LatticeFrom::lattice_from(d2);
                    (Self::reveal(&UfR::H(h)), Self::reveal(&UfR::B(b)))
                });
                for back in [hm, bm] {
                    let p = self.partition(&back)?;
                    if p != *m {
                        return Err(format!("{what}: lattice_from after same() gives {back:?} which denotes {p:?}, model {m:?}"));
                    }
                }
            }
        }
        Ok(())
    }
    fn describe(&self, op: &Op) -> String {
        match op[0] {
            0 => format!("UnionFind<{}>::default()", if op[1] == 0 { "HashMap" } else { "BTreeMap" }),
            1 => {
                let e = self.ordered(op[1], op[2]);
                format!("merge({} [{}])", UF_REPR[op[3] as usize], e.iter().map(|(k, p)| format!("{k}->{p}")).collect::<Vec<_>>().join(","))
            }
            2 => format!("lattice_from -> UnionFind<{}>", if op[1] == 0 { "HashMap" } else { "BTreeMap" }),
            3 => format!("union({},{})", op[1], op[2]),
            _ => format!("same({},{})", op[1], op[2]),
        }
    }
}

// ================================================================================================
// Long uncompressed chains: a second union-find family over a LARGER item domain with a small
// alphabet (union of every ordered pair, same of every unordered pair, merge of every single-edge
// SingletonMap delta), explored to closure. Bugs in `find` that need a walk of >= 4 hops are only
// reachable here (the 3/4-item family above never builds a path longer than 3).
// ================================================================================================
pub struct UfChainFam {
    pub n: usize,
}
impl UfChainFam {
    fn helper(&self) -> UfFam {
        UfFam { n: self.n, perms: vec![] }
    }
}
/// longest parent chain (number of hops from an item to its root) in a forest
fn max_depth(pm: &BTreeMap<usize, usize>) -> u64 {
    let mut best = 0u64;
    for &x in pm.keys() {
        let (mut cur, mut d) = (x, 0u64);
        while let Some(&p) = pm.get(&cur) {
            if p == cur || d > pm.len() as u64 {
                break;
            }
            cur = p;
            d += 1;
        }
        best = best.max(d);
    }
    best
}
impl Family for UfChainFam {
    type Recv = UfR;
    type Model = Vec<u8>;
    fn name(&self) -> String {
        "UnionFind-chains".into()
    }
    fn inits(&self) -> Vec<Op> {
        vec![[0, 0, 0, 0], [0, 1, 0, 0]]
    }
    fn ops(&self) -> Vec<Op> {
        let n = self.n as i64;
        let mut v = vec![];
        for a in 0..n {
            for b in 0..n {
                v.push([3, a, b, 0]); // union(a,b), every ordered pair
                v.push([1, a, b, 0]); // merge(SingletonMap a->b), every ordered pair
                if a < b {
                    v.push([4, a, b, 0]); // same(a,b), every unordered pair
                }
            }
        }
        v
    }
    fn init(&self, op: &Op) -> (UfR, Vec<u8>) {
        (if op[1] == 0 { UfR::H(Default::default()) } else { UfR::B(Default::default()) }, (0..self.n as u8).collect())
    }
    fn depth_override(&self) -> Option<usize> {
        Some(1000) // to closure
    }
    fn apply(&self, r: UfR, op: &Op, m: &Vec<u8>) -> Result<UfR, String> {
        let (a, b) = (op[1] as usize, op[2] as usize);
        Ok(match op[0] {
            1 => {
                let d = || UnionFind::new(SingletonMap(a, Cell::new(b)));
                match r {
                    UfR::H(mut u) => { u.merge(d()); UfR::H(u) }
                    UfR::B(mut u) => { u.merge(d()); UfR::B(u) }
                }
            }
            3 => {
                let (r2, got) = match r {
                    UfR::H(mut u) => { let g = u.union(a, b).into_reveal(); (UfR::H(u), g) }
                    UfR::B(mut u) => { let g = u.union(a, b).into_reveal(); (UfR::B(u), g) }
                };
                let want = m[a] != m[b];
                if got != want {
                    return Err(format!("union({a},{b}) returned {got} but in the model partition {m:?} the items were {}", if want { "in different classes" } else { "already in the same class" }));
                }
                r2
            }
            4 => {
                let got = match &r {
                    UfR::H(u) => u.same(a, b).into_reveal(),
                    UfR::B(u) => u.same(a, b).into_reveal(),
                };
                let want = m[a] == m[b];
                if got != want {
                    return Err(format!("same({a},{b}) returned {got} but the model partition {m:?} says {want}"));
                }
                r
            }
            _ => unreachable!(),
        })
    }
    fn model(&self, m: &Vec<u8>, op: &Op) -> Vec<u8> {
        let mut m = m.clone();
        if op[0] == 1 || op[0] == 3 {
            model_union(&mut m, op[1] as usize, op[2] as usize);
        }
        m
    }
    fn alpha(&self, r: &UfR) -> Result<Vec<u8>, String> {
        self.helper().partition(&UfFam::reveal(r))
    }
    fn fingerprint(&self, r: &UfR) -> String {
        format!("{}{:?}", match r { UfR::H(_) => "HashMap", UfR::B(_) => "BTreeMap" }, UfFam::reveal(r))
    }
    fn extra(&self, r: &UfR, m: &Vec<u8>) -> Result<(), String> {
        let n = self.n;
        let c = r.clone();
        match &c {
            UfR::H(u) => same_table!(u, m, n, "receiver")?,
            UfR::B(u) => same_table!(u, m, n, "receiver")?,
        }
        let after = self.helper().partition(&UfFam::reveal(&c))?;
        if after != *m {
            return Err(format!("after calling same() on all pairs the parent map {:?} (was {:?}) denotes {after:?}, model {m:?}", UfFam::reveal(&c), UfFam::reveal(r)));
        }
        Ok(())
    }
    fn metric(&self, r: &UfR) -> u64 {
        max_depth(&UfFam::reveal(r))
    }
    fn metric_required(&self) -> Option<u64> {
        Some(self.n as u64 - 1)
    }
    fn metric_name(&self) -> &'static str {
        "longest find path (hops to the root) in the state's parent map"
    }
    fn describe(&self, op: &Op) -> String {
        match op[0] {
            0 => format!("UnionFind<{}>::default()", if op[1] == 0 { "HashMap" } else { "BTreeMap" }),
            1 => format!("merge(SingletonMap {}->{})", op[1], op[2]),
            3 => format!("union({},{})", op[1], op[2]),
            _ => format!("same({},{})", op[1], op[2]),
        }
    }
}
