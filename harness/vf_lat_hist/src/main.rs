//! vf_lat_hist — model-checking engine for C04 (lattice types implement their mathematical model),
//! C05 (tombstones never resurrect, backends interchangeable) and C07 (bimorphisms distribute).
//! Everything is exhaustive enumeration of a stated finite space on the real `lattices` code.
mod c04;
mod c05;
mod c07;
mod families;
mod guard;
mod uf;

use std::sync::Arc;

use vf_explore::{Report, Value, cli, json, ncpu, quiet_panics};

use c04::Family;

fn threads() -> usize {
    ncpu().min(16)
}

// ------------------------------------------------------------------------------------------------
// C04
// ------------------------------------------------------------------------------------------------
struct C04Bounds {
    items: usize,
    depth: usize,
}
fn c04_bounds(tier: &str) -> C04Bounds {
    if tier == "thorough" { C04Bounds { items: 4, depth: 5 } } else { C04Bounds { items: 3, depth: 3 } }
}

/// Calls `$body` with `$f` bound to an `Arc<impl Family>` for every family (or the named one).
macro_rules! for_each_family {
    ($items:expr, $only:expr, |$f:ident| $body:expr) => {{
        let items: usize = $items;
        let only: Option<&str> = $only;
        macro_rules! go {
            ($fam:expr) => {{
                let $f = Arc::new($fam);
                if only.is_none() || only == Some($f.name().as_str()) {
                    $body
                }
            }};
        }
        go!(families::SetFam { items });
        go!(families::MapFam { keys: items });
        go!(families::VecFam { max_len: items });
        go!(families::OrdFam { vals: items + 1 });
        go!(families::WithBotFam { items });
        go!(families::WithTopFam { items });
        go!(families::BotTopMaxFam { vals: items });
        go!(families::ConflictPointFam { vals: items });
        go!(families::PairFam { items: items - 1, vals: items });
        go!(uf::UfFam::new(items));
        go!(uf::UfChainFam { n: std::env::var("VERIF_UF_CHAIN_ITEMS").ok().and_then(|s| s.parse().ok()).unwrap_or(items + 2) });
    }};
}

fn run_c04(rep: &mut Report) {
    let b = c04_bounds(&rep.tier);
    rep.rule = "one case = one operation applied to one distinct reachable state (state = representation + full reveal + model value) of a real lattice object; \
                non-trivial = the operation changed the revealed state; histories are enumerated breadth-first from every constructor, all operations of the alphabet at every state"
        .into();
    rep.explanation = "explicit-state BFS over operation histories on the REAL objects: merge(delta) with the delta in every representation that has a Merge<Other> impl, \
                       LatticeFrom between representations at any point, for union-find also union/same/merge(parent map in every iteration order). A boring reference model \
                       (BTreeSet / BTreeMap with bottoms erased / index-wise vec / algebraic datatypes / partition closure) is stepped alongside; after EVERY step alpha(real) == model, \
                       union-find: same(a,b) for all a,b == model connectivity on the receiver and on the same forest held by every read-only backing, also after path compression. \
                       Representation independence: every receiver representation is compared with the same model for the same abstract history."
        .into();
    rep.assume("the reference models in families.rs / uf.rs are the documented abstract joins (a few lines each)");
    rep.assume("future behaviour of an object depends only on its representation type and full revealed contents (dedup fingerprint); hash-table layout/capacity is not observable");
    rep.assume("union-find receivers are those reachable from the empty forest by union/merge/same/lattice_from (always forests); UnionFind::new on a rho-shaped parent map makes find() spin forever and is outside the explored space; merged-in `other` values are ALL parent maps over the domain (merge only iterates them)");
    rep.assume("VecMap/ArrayMap deltas have distinct keys; DomPair keys are totally ordered (Max<u8>); Point only merges equal values (stated preconditions)");
    rep.assume("UnionFind-chains section: 5 (quick) / 6 (thorough) items, alphabet union(a,b) for all ordered pairs, same(a,b) for all unordered pairs, merge(SingletonMap a->b) for all ordered pairs, both growable backings, explored to closure (no depth bound); union's returned bool is compared with 'the items were in different classes'; the longest find path among reachable states is reported as max_state_metric and must be items-1");
    rep.assume("HashMap-typed union-find deltas iterate in a per-process random order: they are executed and judged at every state but not expanded; every order is expanded through VecMap deltas");
    rep.bound("items", b.items);
    rep.bound("history_depth", b.depth);
    rep.bound("union_find_chain_items", b.items + 2);
    rep.bound("hang_budget_ms", guard::hang_budget().as_millis() as u64);
    let mut infos = vec![];
    for_each_family!(b.items, None, |f| {
        let t0 = std::time::Instant::now();
        let r = c04::bfs(f.clone(), b.depth, threads(), json!({"kind": "c04", "items": b.items}));
        let mut info = r.info;
        info["wall_s"] = json!(t0.elapsed().as_secs_f64());
        info["states"] = json!(r.st.states);
        info["transitions"] = json!(r.st.transitions);
        println!("  C04 {:<28} states={:<6} transitions={:<9} closed={} levels={} max_metric={} ({:.1}s)", f.name(), r.st.states, r.st.transitions, info["state_space_closed"], info["new_states_per_level"], info["max_state_metric"], t0.elapsed().as_secs_f64());
        infos.push(info);
        rep.section(&f.name(), r.st);
    });
    rep.bounds.insert("families".into(), Value::Array(infos));
}

fn replay_c04(case: &Value) -> i32 {
    let items = case["items"].as_u64().expect("items") as usize;
    let name = case["family"].as_str().expect("family").to_string();
    let h = c04::history_from_json(&case["history"]);
    let mut code = 2;
    for_each_family!(items, Some(name.as_str()), |f| {
        println!("replaying C04 {} history: {}", f.name(), c04::describe_history(&*f, &h));
        let (f2, h2) = (f.clone(), h.clone());
        code = match guard::run_one(move || c04::check_history(&*f2, &h2)) {
            None => { println!("observed: the real code did not return within {:?} (hang)", guard::hang_budget()); 1 }
            Some(Err(p)) => { println!("MACHINERY-ERROR: harness panic {p}"); 2 }
            Some(Ok(Err((i, msg)))) => { println!("observed: step #{i} fails: {msg}"); 1 }
            Some(Ok(Ok((fp, m)))) => { println!("observed: final reveal {fp}, model {m} — property holds on this history"); 0 }
        };
    });
    code
}

// ------------------------------------------------------------------------------------------------
// C05
// ------------------------------------------------------------------------------------------------
fn run_c05(rep: &mut Report) {
    let thorough = rep.thorough();
    let depth = if thorough { 4 } else { 2 };
    let k_set = if thorough { 4 } else { 3 };
    let k_map = if thorough { 3 } else { 2 };
    let api_depth = if thorough { 3 } else { 2 };
    rep.rule = "one case = one merge of one replica state into a reachable state (or one TombstoneSet API call), executed in lockstep on the HashSet, Roaring and FST backends; \
                non-trivial = the merge changed the revealed state (bfs) / the sequence merges at least two different replicas (orders)"
        .into();
    rep.explanation = "replica universe = all (live, tomb) with live ∩ tomb = ∅ over 3 items (27 set replicas; 125 map replicas with values {bottom, v1, v2}). \
                       (A) BFS from every replica built with new(), merging every replica, to the depth bound, dedup on (full reveal, model); \
                       (B) EVERY sequence of K merges into default() without state merging, final states compared across all orders of the same multiset; \
                       (C) TombstoneSet API histories (from_iter/extend/union_with/contains/len/into_iter). Oracle after every merge: live == ⋃inserted − ⋃tombstoned (bottom values invisible), \
                       tomb == ⋃tombstoned, live ∩ tomb = ∅, the three backends reveal identical states, LatticeFrom to the HashSet backing and back preserves the state."
        .into();
    rep.assume("item bijection 0,1,2 <-> u32 / u64 / \"a\",\"b\",\"c\" for the HashSet / Roaring / FST backends");
    rep.assume("replica states satisfy the documented invariant live ∩ tomb = ∅ (precondition of the statement)");
    rep.assume("roaring 0.11 and fst 0.4 are pulled in by the lattices crate's default `std` feature and build offline from the vendored registry");
    rep.bound("items", c05::ITEMS);
    rep.bound("bfs_depth_set", depth);
    rep.bound("bfs_depth_map", if thorough { depth } else { 1 });
    rep.bound("orders_sequence_length_set", k_set);
    rep.bound("orders_sequence_length_map", k_map);
    rep.bound("api_depth", api_depth);
    let mut infos = vec![];
    // (A)
    for v in c05::VARIANTS {
        let t0 = std::time::Instant::now();
        // quick tier: the 125-replica map universes get BFS depth 1 (new(r0); merge(r1)); all
        // two-merge sequences from default() are enumerated by (B)
        let depth = if !thorough && v != c05::Variant::Set { 1 } else { depth };
        let (st, info) = c05::bfs(v, depth, threads());
        println!("  C05 bfs {:<44} evals={:<8} states={:<5} ({:.1}s) {}", v.name(), st.evaluations, st.states, t0.elapsed().as_secs_f64(), info);
        infos.push(info);
        rep.section(&format!("bfs {}", v.name()), st);
    }
    // (C)
    {
        let t0 = std::time::Instant::now();
        let (st, info) = c05::api(api_depth, &guard::Beat::default());
        println!("  C05 {:<48} evals={:<8} ({:.1}s) {}", "TombstoneSet api", st.evaluations, t0.elapsed().as_secs_f64(), info);
        infos.push(info);
        rep.section("TombstoneSet api", st);
    }
    // (B)
    for v in c05::VARIANTS {
        let k = if v == c05::Variant::Set { k_set } else { k_map };
        let t0 = std::time::Instant::now();
        let (st, info) = c05::orders(v, k, threads());
        println!("  C05 orders {:<41} evals={:<8} ({:.1}s) {}", v.name(), st.evaluations, t0.elapsed().as_secs_f64(), info);
        infos.push(info);
        rep.section(&format!("orders {}", v.name()), st);
    }
    rep.bounds.insert("sections".into(), Value::Array(infos));
}

fn replay_c05(case: &Value) -> i32 {
    let section = case["section"].as_str().unwrap_or("");
    if section == "api" {
        let h: Vec<(usize, usize)> = case["history"].as_array().unwrap().iter().map(|x| (x[0].as_u64().unwrap() as usize, x[1].as_u64().unwrap() as usize)).collect();
        println!("replaying C05 TombstoneSet api history: {}", c05::api_show(&h));
        return match c05::api_check(&h) {
            Ok(m) => { println!("observed: contents {m:?} on all backends — property holds on this history"); 0 }
            Err((i, e)) => { println!("observed: step #{i} fails: {e}"); 1 }
        };
    }
    let v = c05::Variant::from_name(case["variant"].as_str().expect("variant"));
    let hist = |x: &Value| -> Vec<usize> { x.as_array().unwrap().iter().map(|c| c.as_u64().unwrap() as usize).collect() };
    let start = case.get("start").and_then(|s| s.as_u64()).map(|s| s as usize);
    let h = hist(&case["history"]);
    println!("replaying C05 {} history: {}", v.name(), c05::show_history(v, start, &h));
    let r1 = c05::check_history(v, start, &h);
    match &r1 {
        Ok(r) => println!("observed: final reveal {r:?} on all backends"),
        Err((i, e)) => { println!("observed: step #{i} fails: {e}"); return 1; }
    }
    if section == "order-pair" {
        let h2 = hist(&case["history2"]);
        println!("second order: {}", c05::show_history(v, start, &h2));
        match c05::check_history(v, start, &h2) {
            Ok(r2) => {
                println!("observed: final reveal {r2:?}");
                if Ok(&r2) != r1.as_ref().map_err(|_| ()) { println!("observed: the two orders disagree"); return 1; }
            }
            Err((i, e)) => { println!("observed: step #{i} fails: {e}"); return 1; }
        }
    }
    println!("property holds on this history");
    0
}

// ------------------------------------------------------------------------------------------------
// C07
// ------------------------------------------------------------------------------------------------
/// Calls `$body` with `$s` bound to an `Arc<impl Bim>` for every spec of the tier (or all tiers
/// when `$all`), optionally only the one whose name matches.
macro_rules! for_each_spec {
    ($thorough:expr, $all:expr, $only:expr, |$s:ident| $body:expr) => {{
        let only: Option<&str> = $only;
        let (q, t) = (($all) || !($thorough), ($all) || ($thorough));
        macro_rules! go {
            ($cond:expr, $spec:expr) => {{
                if $cond {
                    let $s = Arc::new($spec);
                    if only.is_none() || only == Some($s.name().as_str()) {
                        $body
                    }
                }
            }};
        }
        // quick tier: domain size 2 everywhere
        go!(q, c07::CartHHH(2));
        go!(q, c07::CartBBB(2));
        go!(q, c07::CartVVH(2));
        go!(q, c07::CartHBB(2));
        go!(q, c07::KeyedHash(2, 2, true));
        go!(q, c07::KeyedBTree(2, 2));
        // 3 keys (value domain: absent / bottom / {0}): needed for bugs that depend on which map is
        // larger and on a missing key being iterated before a shared one
        go!(q, c07::KeyedHH(3, 1));
        go!(q, c07::KeyedHB(3, 1));
        go!(q, c07::KeyedBH(3, 1));
        go!(q, c07::KeyedBB(3, 1));
        go!(q, c07::PairSpec(2));
        go!(q, c07::PairSpec2(2));
        go!(q, c07::GhtCart(2, 2, false));
        go!(q, c07::GhtCart(2, 2, true));
        go!(q, c07::GhtValProd(2, 2));
        go!(q, c07::GhtKeyed(2, 2, false));
        go!(q, c07::GhtKeyed(2, 2, true));
        go!(q, c07::GhtDeep([2, 2, 1]));
        go!(q, c07::GhtDeep([1, 2, 2]));
        go!(q, c07::GhtDeep([2, 1, 2]));
        // thorough tier: domain size 3 (GHT: 3 in one column at a time, see bounds)
        go!(t, c07::CartHHH(3));
        go!(t, c07::CartBBB(3));
        go!(t, c07::CartVVH(3));
        go!(t, c07::CartHBB(3));
        go!(t, c07::KeyedHash(3, 2, true));
        go!(t, c07::KeyedHash(2, 3, true));
        go!(t, c07::KeyedHash(3, 3, false));
        go!(t, c07::KeyedBTree(3, 2));
        go!(t, c07::KeyedBTree(2, 3));
        go!(t, c07::KeyedHB(3, 2));
        go!(t, c07::KeyedBB(3, 2));
        go!(t, c07::PairSpec(3));
        go!(t, c07::PairSpec2(3));
        go!(t, c07::GhtCart(3, 2, false));
        go!(t, c07::GhtCart(2, 3, false));
        go!(t, c07::GhtCart(3, 2, true));
        go!(t, c07::GhtValProd(3, 2));
        go!(t, c07::GhtValProd(2, 3));
        go!(t, c07::GhtKeyed(3, 2, false));
        go!(t, c07::GhtKeyed(2, 3, false));
        go!(t, c07::GhtKeyed(3, 2, true));
        go!(t, c07::GhtDeep([2, 2, 2]));
        go!(t, c07::GhtDeep([3, 2, 1]));
        go!(t, c07::GhtDeep([1, 3, 2]));
    }};
}

fn run_c07(rep: &mut Report) {
    use c07::Bim;
    rep.rule = "one case = one triple (a, delta, b) [left argument] or (a, b, delta) [right argument] over ALL values of the argument types in the stated universe; \
                non-trivial = delta is not contained in the operand it is merged into and f(delta, other) is not bottom. Every triple is enumerated exactly once; the exact \
                non-trivial count per bimorphism is bounds.bimorphisms[].nontrivial_exact, the hash-set counter distinct_nontrivial is capped at 2048 per shard (memory) and is a lower bound"
        .into();
    rep.explanation = "for every shipped bimorphism (set cartesian product, keyed map bimorphism over it, pair, GHT cartesian product / value product / node-keyed join / by-value wrapper / DeepJoin constructor) \
                       and several backing combinations: f(a ⊔ da, b) == f(a,b) ⊔ f(da,b) and f(a, b ⊔ db) == f(a,b) ⊔ f(a,db), compared with the output lattice's own == (both directions) \
                       and as plain sets of tuples. Map universes include keys holding a bottom (empty) value."
        .into();
    rep.assume("the merges used to form a ⊔ da and f(..) ⊔ f(..) are the crate's own Merge impls (their laws are C01's subject)");
    rep.assume("thorough tier: keyed maps with 3 keys x 3 values are enumerated without bottom-valued keys (512 values per argument; bottom-valued keys are covered at 3x2 and 2x3); GHT: domain 3 is applied to one column at a time for GHT tries ((3,2) and (2,3) tuple domains; deep join (2,2,2), (3,2,1), (1,3,2)) because the number of trie values is 2^(product of column domains)");
    rep.bound("domain", if rep.thorough() { 3 } else { 2 });
    let thorough = rep.thorough();
    let mut infos = vec![];
    for_each_spec!(thorough, false, None, |s| {
        let t0 = std::time::Instant::now();
        let (st, mut info) = c07::run_spec(s.clone(), threads());
        info["wall_s"] = json!(t0.elapsed().as_secs_f64());
        info["distinct_outputs"] = json!(st.outcomes.len());
        println!("  C07 {:<100} triples={:<10} outputs={:<6} nontrivial={:<10} ({:.1}s)", s.name(), st.evaluations, st.outcomes.len(), info["nontrivial_exact"], t0.elapsed().as_secs_f64());
        infos.push(info);
        rep.section(&s.name(), st);
    });
    rep.bounds.insert("bimorphisms".into(), Value::Array(infos));
}

fn replay_c07(case: &Value) -> i32 {
    use c07::Bim;
    let name = case["spec"].as_str().expect("spec").to_string();
    let rows = |v: &Value| -> c07::Rows { v.as_array().unwrap().iter().map(|r| r.as_array().unwrap().iter().map(|x| x.as_u64().unwrap() as u8).collect()).collect() };
    let (a, d, b) = (rows(&case["a"]), rows(&case["delta"]), rows(&case["b"]));
    let side = case["side"].as_str().expect("side").to_string();
    let mut code = 2;
    for_each_spec!(true, true, Some(name.as_str()), |s| {
        println!("replaying C07 {} side={side} a={a:?} delta={d:?} b={b:?}", s.name());
        code = match c07::check_case(&*s, &side, &a, &d, &b) {
            Ok(abs) => { println!("observed: both sides denote the tuple set {} and are == — property holds on this case", c07::show_abs(&abs)); 0 }
            Err(e) => { println!("observed: {e}"); 1 }
        };
    });
    code
}

fn main() {
    let cli = cli();
    quiet_panics();
    if let Some(path) = &cli.replay {
        let txt = std::fs::read_to_string(path).unwrap_or_else(|e| { println!("MACHINERY-ERROR: cannot read {path}: {e}"); std::process::exit(2) });
        let v: Value = vf_explore::serde_json::from_str(&txt).unwrap_or_else(|e| { println!("MACHINERY-ERROR: bad replay json: {e}"); std::process::exit(2) });
        let case = &v["case"];
        let code = match case["kind"].as_str() {
            Some("c04") => replay_c04(case),
            Some("c05") => replay_c05(case),
            Some("c07") => replay_c07(case),
            _ => { println!("MACHINERY-ERROR: unknown replay kind"); 2 }
        };
        if code == 2 { println!("MACHINERY-ERROR: replay could not be matched to a family/spec"); }
        std::process::exit(code);
    }
    let mut rep = Report::new(&cli.property, &cli.tier, "vf_lat_hist");
    match cli.property.as_str() {
        "C04" => run_c04(&mut rep),
        "C05" => run_c05(&mut rep),
        "C07" => run_c07(&mut rep),
        other => {
            println!("MACHINERY-ERROR: vf_lat_hist does not serve property {other}");
            std::process::exit(2);
        }
    }
    let flaky = guard::flaky();
    if !flaky.is_empty() {
        rep.bounds.insert("non_reproducing_failures".into(), json!(flaky));
        if rep.stats.violations.is_empty() {
            println!("MACHINERY-ERROR: property={} {} failure(s) did not reproduce on re-execution and no violation was confirmed; first: {}", rep.property, flaky.len(), flaky[0]);
            std::process::exit(2);
        }
    }
    rep.finish();
}
