//! C05 — tombstone lattices never resurrect deleted items; the three tombstone backends are
//! interchangeable. Exhaustive enumeration of merge histories of replica states, run in lockstep
//! on the HashSet, RoaringTombstoneSet (u64) and FstTombstoneSet<String> backends, with a model
//! (union of everything inserted, union of everything tombstoned) stepped alongside.
use std::collections::{BTreeMap, BTreeSet, HashMap, HashSet};
use std::fmt::Debug;
use std::hash::Hash;
use std::sync::Arc;

use lattices::cc_traits::Len;
use lattices::map_union_with_tombstones::MapUnionWithTombstones;
use lattices::set_union::SetUnionHashSet;
use lattices::set_union_with_tombstones::SetUnionWithTombstones;
use lattices::tombstone::{FstTombstoneSet, RoaringTombstoneSet, TombstoneSet};
use lattices::{LatticeFrom, Max, Merge};
use vf_explore::{Stats, Value, catch, hash_of, json};

use crate::guard::{self, Beat, Outcome};

pub const ITEMS: usize = 3;

// ------------------------------------------------------------------------------------------------
// backends
// ------------------------------------------------------------------------------------------------
pub trait Backend: 'static {
    type K: Clone + Eq + Hash + Ord + Debug + Send + Sync + 'static;
    type T: TombstoneSet<Self::K> + Default + Clone + IntoIterator<Item = Self::K> + FromIterator<Self::K> + Send + Sync + 'static;
    const NAME: &'static str;
    fn key(i: usize) -> Self::K;
    fn idx(k: &Self::K) -> usize;
    fn contents(t: &Self::T) -> Vec<usize> {
        t.clone().into_iter().map(|k| Self::idx(&k)).collect()
    }
}
pub struct HashB;
impl Backend for HashB {
    type K = u32;
    type T = HashSet<u32>;
    const NAME: &'static str = "HashSet<u32>";
    fn key(i: usize) -> u32 { i as u32 }
    fn idx(k: &u32) -> usize { *k as usize }
}
pub struct RoaringB;
impl Backend for RoaringB {
    type K = u64;
    type T = RoaringTombstoneSet;
    const NAME: &'static str = "RoaringTombstoneSet";
    fn key(i: usize) -> u64 { i as u64 }
    fn idx(k: &u64) -> usize { *k as usize }
}
pub struct FstB;
impl Backend for FstB {
    type K = String;
    type T = FstTombstoneSet<String>;
    const NAME: &'static str = "FstTombstoneSet<String>";
    fn key(i: usize) -> String { ["a", "b", "c", "d"][i].to_string() }
    fn idx(k: &String) -> usize { ["a", "b", "c", "d"].iter().position(|s| s == k).expect("unknown key came out of the FST") }
}

// ------------------------------------------------------------------------------------------------
// variants and their replica universes
// ------------------------------------------------------------------------------------------------
#[derive(Clone, Copy, PartialEq, Eq, Debug)]
pub enum Variant {
    /// SetUnionWithTombstones<HashSet<K>, T>
    Set,
    /// MapUnionWithTombstones<HashMap<K, SetUnionHashSet<u8>>, T>, values {} (bottom), {0}, {1}
    MapSet,
    /// MapUnionWithTombstones<HashMap<K, Max<u8>>, T>, values Max(0) (bottom), Max(1), Max(2)
    MapMax,
}
pub const VARIANTS: [Variant; 3] = [Variant::Set, Variant::MapSet, Variant::MapMax];
impl Variant {
    pub fn name(self) -> &'static str {
        match self { Variant::Set => "SetUnionWithTombstones", Variant::MapSet => "MapUnionWithTombstones<SetUnion>", Variant::MapMax => "MapUnionWithTombstones<Max>" }
    }
    pub fn from_name(s: &str) -> Variant {
        VARIANTS.into_iter().find(|v| v.name() == s).expect("variant")
    }
    /// per-item digit: 0 absent, 1 tombstoned, 2.. live with value #(d-2)
    fn base(self) -> usize { if self == Variant::Set { 3 } else { 5 } }
    pub fn universe(self) -> usize { self.base().pow(ITEMS as u32) }
    fn digits(self, code: usize) -> [usize; ITEMS] {
        let mut c = code;
        let mut d = [0; ITEMS];
        for x in d.iter_mut() { *x = c % self.base(); c /= self.base(); }
        d
    }
    /// the value (as the sorted element list of its reveal) of live digit d
    fn value(self, d: usize) -> Vec<u8> {
        match self {
            Variant::Set => vec![],
            Variant::MapSet => [vec![], vec![0], vec![1]][d - 2].clone(),
            Variant::MapMax => vec![(d - 2) as u8],
        }
    }
    fn is_bottom_value(self, v: &[u8]) -> bool {
        match self { Variant::Set => false, Variant::MapSet => v.is_empty(), Variant::MapMax => v == [0] }
    }
    fn join(self, a: &[u8], b: &[u8]) -> Vec<u8> {
        match self {
            Variant::Set => vec![],
            Variant::MapSet => { let s: BTreeSet<u8> = a.iter().chain(b).copied().collect(); s.into_iter().collect() }
            Variant::MapMax => vec![a[0].max(b[0])],
        }
    }
    pub fn show(self, code: usize) -> String {
        let d = self.digits(code);
        let mut live = vec![];
        let mut tomb = vec![];
        for (i, &x) in d.iter().enumerate() {
            if x == 1 { tomb.push(i.to_string()); }
            if x >= 2 {
                live.push(match self {
                    Variant::Set => i.to_string(),
                    Variant::MapSet => format!("{i}:{:?}", self.value(x)),
                    Variant::MapMax => format!("{i}:Max({})", self.value(x)[0]),
                });
            }
        }
        format!("(live{{{}}},tomb{{{}}})", live.join(","), tomb.join(","))
    }
}

/// Full reveal of an object: live entries (item -> sorted value elements; bottoms kept), tombstones.
pub type Reveal = (BTreeMap<usize, Vec<u8>>, BTreeSet<usize>);

/// The reference model: everything ever inserted (joined per item) and everything ever tombstoned.
#[derive(Clone, PartialEq, Eq, PartialOrd, Ord, Debug, Hash, Default)]
pub struct Model {
    ins: BTreeMap<usize, Vec<u8>>,
    tomb: BTreeSet<usize>,
}
impl Model {
    fn absorb(&mut self, v: Variant, code: usize) {
        for (i, &d) in v.digits(code).iter().enumerate() {
            if d == 1 { self.tomb.insert(i); }
            if d >= 2 {
                let val = v.value(d);
                if v.is_bottom_value(&val) { continue; } // bottom values are invisible
                let e = self.ins.entry(i).or_insert_with(|| val.clone());
                *e = v.join(e, &val);
            }
        }
    }
    /// expected (live with bottoms erased, tombstones)
    fn expect(&self) -> Reveal {
        (self.ins.iter().filter(|(k, _)| !self.tomb.contains(k)).map(|(k, v)| (*k, v.clone())).collect(), self.tomb.clone())
    }
}
fn erase_bottoms(v: Variant, r: &Reveal) -> Reveal {
    (r.0.iter().filter(|(_, x)| !v.is_bottom_value(x)).map(|(k, x)| (*k, x.clone())).collect(), r.1.clone())
}

// ------------------------------------------------------------------------------------------------
// real objects behind a small object-safe facade
// ------------------------------------------------------------------------------------------------
pub trait Obj: Send + Sync {
    fn merge_code(&mut self, code: usize);
    fn reveal(&self) -> Reveal;
    fn dup(&self) -> Box<dyn Obj>;
    fn backend(&self) -> &'static str;
    /// round trip through `LatticeFrom` into the HashSet-tombstone backing and back
    fn convert_roundtrip(&self) -> (Reveal, Reveal);
}

/// Replica universes are built once per (type, variant) and cloned on use (building an FST costs
/// ~100us because every `fst::SetBuilder` allocates a large registry).
fn cached<T: std::any::Any + Send + Sync>(key: String, mk: impl FnOnce() -> T) -> Arc<T> {
    use std::any::Any;
    use std::sync::Mutex;
    static CACHE: Mutex<Vec<(String, Arc<dyn Any + Send + Sync>)>> = Mutex::new(Vec::new());
    let mut c = CACHE.lock().unwrap();
    if let Some((_, a)) = c.iter().find(|(k, _)| *k == key) {
        return a.clone().downcast::<T>().expect("cache type");
    }
    let a: Arc<T> = Arc::new(mk());
    c.push((key, a.clone()));
    a
}

type SetT<B> = SetUnionWithTombstones<HashSet<<B as Backend>::K>, <B as Backend>::T>;
struct SetObj<B: Backend>(SetT<B>, Arc<Vec<SetT<B>>>);
fn set_replica<B: Backend>(code: usize) -> SetT<B> {
    let d = Variant::Set.digits(code);
    SetUnionWithTombstones::new(
        (0..ITEMS).filter(|&i| d[i] >= 2).map(B::key).collect::<HashSet<B::K>>(),
        (0..ITEMS).filter(|&i| d[i] == 1).map(B::key).collect::<B::T>(),
    )
}
fn set_reveal<B: Backend>(o: &SetT<B>) -> Reveal {
    let (s, t) = o.as_reveal_ref();
    (s.iter().map(|k| (B::idx(k), vec![])).collect(), B::contents(t).into_iter().collect())
}
impl<B: Backend> Obj for SetObj<B>
where
    SetT<B>: Merge<SetT<B>> + Clone,
{
    fn merge_code(&mut self, code: usize) { self.0.merge(self.1[code].clone()); }
    fn reveal(&self) -> Reveal {
        let r = set_reveal::<B>(&self.0);
        let (s, t) = self.0.as_reveal_ref();
        assert_eq!(s.len(), r.0.len());
        assert_eq!(Len::len(t), r.1.len(), "{}: len() disagrees with the iterated contents", B::NAME);
        for i in 0..ITEMS {
            assert_eq!(TombstoneSet::contains(t, &B::key(i)), r.1.contains(&i), "{}: contains({i}) disagrees with the iterated contents", B::NAME);
        }
        r
    }
    fn dup(&self) -> Box<dyn Obj> { Box::new(SetObj::<B>(self.0.clone(), self.1.clone())) }
    fn backend(&self) -> &'static str { B::NAME }
    fn convert_roundtrip(&self) -> (Reveal, Reveal) {
        let h: SetUnionWithTombstones<HashSet<B::K>, HashSet<B::K>> = LatticeFrom::lattice_from(self.0.clone());
        let (s, t) = h.as_reveal_ref();
        let r1: Reveal = (s.iter().map(|k| (B::idx(k), vec![])).collect(), t.iter().map(B::idx).collect());
        let back: SetT<B> = LatticeFrom::lattice_from(h);
        (r1, set_reveal::<B>(&back))
    }
}

pub trait Val: Clone + Send + Sync + 'static {
    fn mk(elems: &[u8]) -> Self;
    fn elems(&self) -> Vec<u8>;
}
impl Val for SetUnionHashSet<u8> {
    fn mk(e: &[u8]) -> Self { SetUnionHashSet::new(e.iter().copied().collect()) }
    fn elems(&self) -> Vec<u8> { let mut v: Vec<u8> = self.as_reveal_ref().iter().copied().collect(); v.sort(); v }
}
impl Val for Max<u8> {
    fn mk(e: &[u8]) -> Self { Max::new(e[0]) }
    fn elems(&self) -> Vec<u8> { vec![*self.as_reveal_ref()] }
}
type MapT<B, V> = MapUnionWithTombstones<HashMap<<B as Backend>::K, V>, <B as Backend>::T>;
struct MapObj<B: Backend, V: Val>(MapT<B, V>, Variant, Arc<Vec<MapT<B, V>>>);
fn map_replica<B: Backend, V: Val>(v: Variant, code: usize) -> MapT<B, V> {
    let d = v.digits(code);
    MapUnionWithTombstones::new(
        (0..ITEMS).filter(|&i| d[i] >= 2).map(|i| (B::key(i), V::mk(&v.value(d[i])))).collect::<HashMap<B::K, V>>(),
        (0..ITEMS).filter(|&i| d[i] == 1).map(B::key).collect::<B::T>(),
    )
}
fn map_reveal<B: Backend, V: Val>(o: &MapT<B, V>) -> Reveal {
    let (m, t) = o.as_reveal_ref();
    (m.iter().map(|(k, x)| (B::idx(k), x.elems())).collect(), B::contents(t).into_iter().collect())
}
impl<B: Backend, V: Val> Obj for MapObj<B, V>
where
    MapT<B, V>: Merge<MapT<B, V>> + Clone,
    MapUnionWithTombstones<HashMap<B::K, V>, HashSet<B::K>>: LatticeFrom<MapT<B, V>>,
    MapT<B, V>: LatticeFrom<MapUnionWithTombstones<HashMap<B::K, V>, HashSet<B::K>>>,
{
    fn merge_code(&mut self, code: usize) { self.0.merge(self.2[code].clone()); }
    fn reveal(&self) -> Reveal {
        let r = map_reveal::<B, V>(&self.0);
        let t = self.0.as_reveal_ref().1;
        assert_eq!(Len::len(t), r.1.len(), "{}: len() disagrees with the iterated contents", B::NAME);
        for i in 0..ITEMS {
            assert_eq!(TombstoneSet::contains(t, &B::key(i)), r.1.contains(&i), "{}: contains({i}) disagrees with the iterated contents", B::NAME);
        }
        r
    }
    fn dup(&self) -> Box<dyn Obj> { Box::new(MapObj::<B, V>(self.0.clone(), self.1, self.2.clone())) }
    fn backend(&self) -> &'static str { B::NAME }
    fn convert_roundtrip(&self) -> (Reveal, Reveal) {
        let h: MapUnionWithTombstones<HashMap<B::K, V>, HashSet<B::K>> = LatticeFrom::lattice_from(self.0.clone());
        let (m, t) = h.as_reveal_ref();
        let r1: Reveal = (m.iter().map(|(k, x)| (B::idx(k), x.elems())).collect(), t.iter().map(B::idx).collect());
        let back: MapT<B, V> = LatticeFrom::lattice_from(h);
        (r1, map_reveal::<B, V>(&back))
    }
}

/// The three backends of one variant, starting from replica `code` built with `new`
/// (`None`: the `Default` value).
pub fn triple(v: Variant, code: Option<usize>) -> Vec<Box<dyn Obj>> {
    fn set<B: Backend>(code: Option<usize>) -> Box<dyn Obj>
    where
        SetT<B>: Merge<SetT<B>> + Clone + Default,
    {
        let uni = cached(format!("set/{}", B::NAME), || (0..Variant::Set.universe()).map(set_replica::<B>).collect::<Vec<_>>());
        Box::new(SetObj::<B>(code.map(|c| uni[c].clone()).unwrap_or_default(), uni))
    }
    fn map<B: Backend, V: Val>(v: Variant, code: Option<usize>) -> Box<dyn Obj>
    where
        MapT<B, V>: Merge<MapT<B, V>> + Clone + Default,
        MapUnionWithTombstones<HashMap<B::K, V>, HashSet<B::K>>: LatticeFrom<MapT<B, V>>,
        MapT<B, V>: LatticeFrom<MapUnionWithTombstones<HashMap<B::K, V>, HashSet<B::K>>>,
    {
        let uni = cached(format!("map/{}/{}", B::NAME, v.name()), || (0..v.universe()).map(|c| map_replica::<B, V>(v, c)).collect::<Vec<_>>());
        Box::new(MapObj::<B, V>(code.map(|c| uni[c].clone()).unwrap_or_default(), v, uni))
    }
    match v {
        Variant::Set => vec![set::<HashB>(code), set::<RoaringB>(code), set::<FstB>(code)],
        Variant::MapSet => vec![
            map::<HashB, SetUnionHashSet<u8>>(v, code),
            map::<RoaringB, SetUnionHashSet<u8>>(v, code),
            map::<FstB, SetUnionHashSet<u8>>(v, code),
        ],
        Variant::MapMax => vec![map::<HashB, Max<u8>>(v, code), map::<RoaringB, Max<u8>>(v, code), map::<FstB, Max<u8>>(v, code)],
    }
}

// ------------------------------------------------------------------------------------------------
// oracle
// ------------------------------------------------------------------------------------------------
/// Judge the three objects against the model after a step. Returns the common full reveal.
fn judge(v: Variant, objs: &[Box<dyn Obj>], m: &Model) -> Result<Reveal, String> {
    let want = m.expect();
    let mut first: Option<(Reveal, &'static str)> = None;
    for o in objs {
        let r = catch(|| o.reveal()).map_err(|p| format!("{}: panic while revealing: {p}", o.backend()))?;
        if let Some(k) = r.0.keys().find(|k| r.1.contains(k)) {
            return Err(format!("{}: item {k} is both live and tombstoned: {r:?}", o.backend()));
        }
        let a = erase_bottoms(v, &r);
        if a.1 != want.1 {
            return Err(format!("{}: tombstones {:?} but union of all tombstones merged is {:?}", o.backend(), a.1, want.1));
        }
        if a.0 != want.0 {
            return Err(format!("{}: live {:?} but (all inserted) - (all tombstoned) = {:?} (tombstoned {:?})", o.backend(), a.0, want.0, want.1));
        }
        match &first {
            None => first = Some((r, o.backend())),
            Some((r0, b0)) => {
                if *r0 != r {
                    return Err(format!("backends differ: {b0} reveals {r0:?}, {} reveals {r:?}", o.backend()));
                }
            }
        }
    }
    Ok(first.unwrap().0)
}

fn judge_conversions(v: Variant, objs: &[Box<dyn Obj>], r: &Reveal) -> Result<(), String> {
    let _ = v;
    for o in objs {
        let (a, b) = catch(|| o.convert_roundtrip()).map_err(|p| format!("{}: panic in lattice_from: {p}", o.backend()))?;
        if a != *r || b != *r {
            return Err(format!("{}: lattice_from does not preserve the state: {r:?} -> {a:?} -> {b:?}", o.backend()));
        }
    }
    Ok(())
}

fn step_all(objs: &mut [Box<dyn Obj>], code: usize) -> Result<(), String> {
    for o in objs.iter_mut() {
        catch(|| o.merge_code(code)).map_err(|p| format!("{}: panic in merge: {p}", o.backend()))?;
    }
    Ok(())
}

pub fn show_history(v: Variant, start: Option<usize>, h: &[usize]) -> String {
    let mut s = match start { None => "default()".to_string(), Some(c) => format!("new{}", v.show(c)) };
    for c in h {
        s.push_str(&format!(" ; merge{}", v.show(*c)));
    }
    s
}

/// Plain re-execution (confirmation and `--replay`): all checks after every step.
pub fn check_history(v: Variant, start: Option<usize>, h: &[usize]) -> Result<Reveal, (usize, String)> {
    let mut objs = triple(v, start);
    let mut m = Model::default();
    if let Some(c) = start { m.absorb(v, c); }
    let mut r = judge(v, &objs, &m).map_err(|e| (0, e))?;
    judge_conversions(v, &objs, &r).map_err(|e| (0, e))?;
    for (i, c) in h.iter().enumerate() {
        step_all(&mut objs, *c).map_err(|e| (i + 1, e))?;
        m.absorb(v, *c);
        r = judge(v, &objs, &m).map_err(|e| (i + 1, e))?;
        judge_conversions(v, &objs, &r).map_err(|e| (i + 1, e))?;
    }
    Ok(r)
}

fn case_json(section: &str, v: Variant, start: Option<usize>, h: &[usize]) -> Value {
    json!({"kind": "c05", "section": section, "variant": v.name(), "start": start, "history": h, "history_text": show_history(v, start, h)})
}

fn machinery(msg: String) -> ! {
    println!("MACHINERY-ERROR: {msg}");
    std::process::exit(2);
}

fn confirm(st: &mut Stats, section: &str, v: Variant, start: Option<usize>, h: &[usize], first: &str) {
    match check_history(v, start, h) {
        Err((i, msg)) => st.violation(
            format!("C05:{}:{}", v.name(), show_history(v, start, h)),
            format!("{}: history [{}] step #{i}: {msg}", v.name(), show_history(v, start, h)),
            case_json(section, v, start, h),
        ),
        Ok(_) => guard::note_flaky(format!("C05 {}: failure did not reproduce for [{}] (first: {first})", v.name(), show_history(v, start, h))),
    }
}

// ------------------------------------------------------------------------------------------------
// section A: BFS (state = the three real objects + model; dedup on full reveal + model)
// ------------------------------------------------------------------------------------------------
struct St {
    objs: Vec<Box<dyn Obj>>,
    m: Model,
    start: usize,
    h: Vec<usize>,
}
struct LevelOut {
    st: Stats,
    next: Vec<(St, Reveal)>,
    fails: Vec<(usize, Vec<usize>, String)>,
}

pub fn bfs(v: Variant, depth: usize, threads: usize) -> (Stats, Value) {
    let mut st = Stats::new();
    let u = v.universe();
    let mut visited: BTreeSet<(Reveal, Model)> = BTreeSet::new();
    let mut frontier: Vec<St> = vec![];
    let mut levels = vec![];
    for c in 0..u {
        st.eval(); st.transition(); st.trace();
        let objs = triple(v, Some(c));
        let mut m = Model::default();
        m.absorb(v, c);
        match judge(v, &objs, &m).and_then(|r| judge_conversions(v, &objs, &r).map(|_| r)) {
            Ok(r) => {
                st.outcome(&(v.name(), &r));
                if visited.insert((r, m.clone())) { st.state(); frontier.push(St { objs, m, start: c, h: vec![] }); }
            }
            Err(e) => { if st.violations.len() < 2 { confirm(&mut st, "bfs", v, Some(c), &[], &e) } else { st.violations_total += 1; } }
        }
    }
    levels.push(frontier.len());
    let mut closed = false;
    let mut explored = 0;
    for d in 1..=depth {
        if !st.violations.is_empty() { break; }
        if frontier.is_empty() { closed = true; break; }
        let fr = Arc::new(std::mem::take(&mut frontier));
        let chunk = fr.len().div_ceil((threads * 4).min(fr.len()).max(1));
        let nshards = fr.len().div_ceil(chunk);
        let fr2 = fr.clone();
        let work = move |i: usize, beat: &Beat| -> LevelOut {
            let mut out = LevelOut { st: Stats::new(), next: vec![], fails: vec![] };
            for s in &fr2[i * chunk..((i + 1) * chunk).min(fr2.len())] {
                let before = s.objs[0].reveal();
                for c in 0..u {
                    beat.tick();
                    out.st.eval(); out.st.transition(); out.st.trace();
                    let mut objs: Vec<Box<dyn Obj>> = s.objs.iter().map(|o| o.dup()).collect();
                    let mut m = s.m.clone();
                    m.absorb(v, c);
                    let mut h = s.h.clone();
                    h.push(c);
                    match step_all(&mut objs, c).and_then(|_| judge(v, &objs, &m)) {
                        Ok(r) => {
                            if r != before { out.st.nontrivial(&(v.name(), &before, c)); }
                            out.st.outcome(&(v.name(), &r));
                            out.st.sample(|| json!({"variant": v.name(), "history": show_history(v, Some(s.start), &h), "reveal": format!("{r:?}")}));
                            out.next.push((St { objs, m, start: s.start, h }, r));
                        }
                        Err(e) => { if out.fails.len() < 2 { out.fails.push((s.start, h, e)); } }
                    }
                }
            }
            out
        };
        match guard::run(nshards, threads, Arc::new(work)) {
            Outcome::Done(outs) => {
                let mut fails = vec![];
                for o in outs {
                    st.merge(o.st);
                    fails.extend(o.fails);
                    for (s, r) in o.next {
                        if visited.contains(&(r.clone(), s.m.clone())) { continue; }
                        // LatticeFrom round trips are judged once per distinct state (path independent)
                        match judge_conversions(v, &s.objs, &r) {
                            Ok(()) => { visited.insert((r, s.m.clone())); st.state(); frontier.push(s); }
                            Err(e) => fails.push((s.start, s.h.clone(), e)),
                        }
                    }
                }
                for (start, h, e) in fails.into_iter().take(2) {
                    confirm(&mut st, "bfs", v, Some(start), &h, &e);
                }
            }
            Outcome::Hang { .. } => machinery(format!("C05 bfs {}: a shard exceeded the step budget", v.name())),
            Outcome::Panic(p) => machinery(format!("C05 bfs {}: harness worker panicked: {p}", v.name())),
        }
        explored = d;
        levels.push(frontier.len());
    }
    if frontier.is_empty() && st.violations.is_empty() { closed = true; }
    (st, json!({"variant": v.name(), "replica_universe": u, "depth_bound": depth, "depth_explored": explored, "state_space_closed": closed, "new_states_per_level": levels}))
}

// ------------------------------------------------------------------------------------------------
// section B: every sequence of K merges into the default value (no state merging), every step
// judged, final state compared across all orders of the same multiset of replicas
// ------------------------------------------------------------------------------------------------
pub struct OrdersOut {
    st: Stats,
    finals: HashMap<Vec<u16>, (u64, Vec<u16>)>,
    fails: Vec<(Vec<usize>, String)>,
    order_fail: Option<(Vec<u16>, Vec<u16>)>,
}

fn orders_rec(v: Variant, k: usize, objs: &[Box<dyn Obj>], m: &Model, h: &mut Vec<usize>, out: &mut OrdersOut, beat: &Beat) {
    if h.len() == k {
        out.st.trace();
        let r = objs[0].reveal();
        let mut key: Vec<u16> = h.iter().map(|&x| x as u16).collect();
        key.sort();
        let hv = hash_of(&r);
        let hist: Vec<u16> = h.iter().map(|&x| x as u16).collect();
        match out.finals.get(&key) {
            None => { out.finals.insert(key, (hv, hist)); }
            Some((h0, hist0)) => {
                if *h0 != hv && out.order_fail.is_none() { out.order_fail = Some((hist0.clone(), hist)); }
            }
        }
        return;
    }
    for c in 0..v.universe() {
        beat.tick();
        out.st.eval();
        out.st.transition();
        let mut o2: Vec<Box<dyn Obj>> = objs.iter().map(|o| o.dup()).collect();
        let mut m2 = m.clone();
        m2.absorb(v, c);
        h.push(c);
        match step_all(&mut o2, c).and_then(|_| judge(v, &o2, &m2)) {
            Ok(r) => {
                if h.len() == k {
                    out.st.outcome(&(v.name(), &r));
                    let distinct: BTreeSet<usize> = h.iter().copied().collect();
                    if distinct.len() > 1 { out.st.nontrivial(&(v.name(), &h)); }
                }
                orders_rec(v, k, &o2, &m2, h, out, beat);
            }
            Err(e) => { if out.fails.len() < 2 { out.fails.push((h.clone(), e)); } }
        }
        h.pop();
    }
}

pub fn orders(v: Variant, k: usize, threads: usize) -> (Stats, Value) {
    let u = v.universe();
    let work = move |first: usize, beat: &Beat| -> OrdersOut {
        let mut out = OrdersOut { st: Stats::new(), finals: HashMap::new(), fails: vec![], order_fail: None };
        let mut objs = triple(v, None);
        let mut m = Model::default();
        m.absorb(v, first);
        out.st.eval();
        out.st.transition();
        let mut h = vec![first];
        match step_all(&mut objs, first).and_then(|_| judge(v, &objs, &m)) {
            Ok(_) => orders_rec(v, k, &objs, &m, &mut h, &mut out, beat),
            Err(e) => out.fails.push((h.clone(), e)),
        }
        out
    };
    let mut st = Stats::new();
    let multisets;
    match guard::run(u, threads, Arc::new(work)) {
        Outcome::Done(outs) => {
            let mut finals: HashMap<Vec<u16>, (u64, Vec<u16>)> = HashMap::new();
            let mut fails = vec![];
            let mut ofail: Option<(Vec<u16>, Vec<u16>)> = None;
            for o in outs {
                st.merge(o.st);
                fails.extend(o.fails);
                if ofail.is_none() { ofail = o.order_fail; }
                for (key, (hv, hist)) in o.finals {
                    match finals.get(&key) {
                        None => { finals.insert(key, (hv, hist)); }
                        Some((h0, hist0)) => { if *h0 != hv && ofail.is_none() { ofail = Some((hist0.clone(), hist)); } }
                    }
                }
            }
            multisets = finals.len();
            for (h, e) in fails.into_iter().take(2) {
                confirm(&mut st, "orders", v, None, &h, &e);
            }
            if let Some((h1, h2)) = ofail {
                let h1: Vec<usize> = h1.iter().map(|&x| x as usize).collect();
                let h2: Vec<usize> = h2.iter().map(|&x| x as usize).collect();
                let (r1, r2) = (check_history(v, None, &h1), check_history(v, None, &h2));
                match (r1, r2) {
                    (Ok(a), Ok(b)) if a != b => st.violation(
                        format!("C05:{}:order:{}|{}", v.name(), show_history(v, None, &h1), show_history(v, None, &h2)),
                        format!("{}: the same replicas merged in two orders give different states: [{}] -> {a:?} but [{}] -> {b:?}", v.name(), show_history(v, None, &h1), show_history(v, None, &h2)),
                        json!({"kind": "c05", "section": "order-pair", "variant": v.name(), "history": h1, "history2": h2}),
                    ),
                    _ => guard::note_flaky(format!("C05 {}: order difference did not reproduce", v.name())),
                }
            }
        }
        Outcome::Hang { .. } => machinery(format!("C05 {}: a shard exceeded the step budget", v.name())),
        Outcome::Panic(p) => machinery(format!("C05 {}: harness worker panicked: {p}", v.name())),
    }
    (st, json!({"variant": v.name(), "sequence_length": k, "replica_universe": u, "distinct_multisets_compared_across_orders": multisets}))
}

// ------------------------------------------------------------------------------------------------
// section C: the TombstoneSet API of each backend (from_iter, extend, union_with, contains, len,
// into_iter) over histories, against a BTreeSet
// ------------------------------------------------------------------------------------------------
fn subset(mask: usize) -> Vec<usize> { (0..ITEMS).filter(|i| mask >> i & 1 == 1).collect() }
/// descending order with the first element repeated: exercises sort/dedup in the FST builder
fn messy(mask: usize) -> Vec<usize> {
    let s = subset(mask);
    let mut v: Vec<usize> = s.iter().rev().copied().collect();
    if let Some(&x) = s.first() { v.push(x); }
    v
}

fn api_observe<B: Backend>(t: &B::T, want: &BTreeSet<usize>) -> Result<(), String> {
    let got: Vec<usize> = B::contents(t);
    let gs: BTreeSet<usize> = got.iter().copied().collect();
    if gs.len() != got.len() { return Err(format!("{}: into_iter yields duplicates {got:?}", B::NAME)); }
    if gs != *want { return Err(format!("{}: contents {gs:?}, model {want:?}", B::NAME)); }
    if Len::len(t) != want.len() { return Err(format!("{}: len() = {} but model has {}", B::NAME, Len::len(t), want.len())); }
    for i in 0..ITEMS {
        if TombstoneSet::contains(t, &B::key(i)) != want.contains(&i) { return Err(format!("{}: contains({i}) = {} but model {want:?}", B::NAME, !want.contains(&i))); }
    }
    Ok(())
}

/// op = (kind, mask): 0 from_iter(messy) [init], 1 extend(messy), 2 union_with(from_iter)
fn api_run<B: Backend>(h: &[(usize, usize)]) -> Result<BTreeSet<usize>, (usize, String)> {
    let mk = |mask: usize| -> B::T { messy(mask).into_iter().map(B::key).collect() };
    let mut t: B::T = catch(|| mk(h[0].1)).map_err(|p| (0, format!("{}: panic in from_iter: {p}", B::NAME)))?;
    let mut m: BTreeSet<usize> = subset(h[0].1).into_iter().collect();
    api_observe::<B>(&t, &m).map_err(|e| (0, e))?;
    for (i, &(k, mask)) in h.iter().enumerate().skip(1) {
        let old = m.len();
        m.extend(subset(mask));
        if k == 1 {
            catch(|| t.extend(messy(mask).into_iter().map(B::key))).map_err(|p| (i, format!("{}: panic in extend: {p}", B::NAME)))?;
        } else {
            let other = mk(mask);
            let ret = catch(|| t.union_with(&other)).map_err(|p| (i, format!("{}: panic in union_with: {p}", B::NAME)))?;
            if ret != old { return Err((i, format!("{}: union_with returned {ret}, documented to return the old length {old}", B::NAME))); }
            api_observe::<B>(&other, &subset(mask).into_iter().collect()).map_err(|e| (i, format!("argument of union_with changed: {e}")))?;
        }
        api_observe::<B>(&t, &m).map_err(|e| (i, e))?;
    }
    Ok(m)
}

pub fn api_check(h: &[(usize, usize)]) -> Result<BTreeSet<usize>, (usize, String)> {
    let a = api_run::<HashB>(h)?;
    api_run::<RoaringB>(h)?;
    api_run::<FstB>(h)?;
    Ok(a)
}
pub fn api_show(h: &[(usize, usize)]) -> String {
    h.iter().map(|&(k, m)| format!("{}({:?})", ["from_iter", "extend", "union_with"][k], messy(m))).collect::<Vec<_>>().join(" ; ")
}

pub fn api(depth: usize, beat: &Beat) -> (Stats, Value) {
    let mut st = Stats::new();
    let n = 1usize << ITEMS;
    let mut count = 0u64;
    // all histories (no state merging): init + up to `depth` ops; 8 * 16^depth
    let mut stack: Vec<Vec<(usize, usize)>> = (0..n).map(|m| vec![(0, m)]).collect();
    while let Some(h) = stack.pop() {
        if st.violations.len() >= 2 { break; }
        beat.tick();
        st.eval(); st.transition(); st.trace();
        count += 1;
        match api_check(&h) {
            Ok(m) => {
                st.outcome(&("api", &m));
                if h.len() > 1 && h.iter().skip(1).any(|x| x.1 != 0) { st.nontrivial(&("api", &h)); }
                st.sample(|| json!({"section": "api", "history": api_show(&h), "contents": format!("{m:?}")}));
                if h.len() <= depth {
                    for k in 1..3 { for mask in 0..n { let mut h2 = h.clone(); h2.push((k, mask)); stack.push(h2); } }
                }
            }
            Err((i, e)) => {
                match api_check(&h) {
                    Err(_) => st.violation(
                        format!("C05:TombstoneSet-api:{}", api_show(&h)),
                        format!("TombstoneSet API history [{}] step #{i}: {e}", api_show(&h)),
                        json!({"kind": "c05", "section": "api", "history": h.iter().map(|x| vec![x.0, x.1]).collect::<Vec<_>>()}),
                    ),
                    Ok(_) => guard::note_flaky(format!("C05 api: failure did not reproduce for [{}]", api_show(&h))),
                }
            }
        }
    }
    (st, json!({"section": "TombstoneSet api", "depth": depth, "histories": count}))
}
