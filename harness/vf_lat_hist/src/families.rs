//! C04 families other than union-find: real lattice objects in every receiver representation,
//! deltas in every representation that has a `Merge<Other>` impl, `LatticeFrom` conversions, and
//! the boring reference model of each.
use std::collections::{BTreeMap, BTreeSet, HashMap, HashSet};

use lattices::collections::{ArrayMap, ArraySet, EmptyMap, EmptySet, OptionMap, OptionSet, SingletonMap, SingletonSet, VecMap, VecSet};
use lattices::map_union::{MapUnion, MapUnionBTreeMap, MapUnionHashMap};
use lattices::set_union::{SetUnion, SetUnionBTreeSet, SetUnionHashSet, SetUnionOptionSet, SetUnionSingletonSet, SetUnionVec};
use lattices::{Conflict, DomPair, LatticeFrom, Max, Merge, Min, Pair, Point, VecUnion, WithBot, WithTop};

use crate::c04::{Family, Op};

pub fn bits(mask: i64) -> Vec<u8> {
    (0..16u8).filter(|i| mask >> i & 1 == 1).collect()
}
fn bset(mask: i64) -> BTreeSet<u8> {
    bits(mask).into_iter().collect()
}
fn show_set(mask: i64) -> String {
    format!("{{{}}}", bits(mask).iter().map(|x| x.to_string()).collect::<Vec<_>>().join(","))
}
fn sorted<T: Ord + Clone>(it: impl IntoIterator<Item = T>) -> Vec<T> {
    let mut v: Vec<T> = it.into_iter().collect();
    v.sort();
    v
}

// ------------------------------------------------------------------------------------------------
// A set delta `items` (ascending) expressed in representation `repr`, bound to `$d` in `$body`.
// 0 HashSet, 1 BTreeSet, 2 Vec ascending, 3 Vec descending with a duplicate, 4 VecSet,
// 5 ArraySet<N>, 6 SingletonSet (len 1), 7 OptionSet (len <= 1), 8 EmptySet (len 0)
// ------------------------------------------------------------------------------------------------
macro_rules! with_set_delta {
    ($items:expr, $repr:expr, |$d:ident| $body:expr) => {{
        let items: Vec<u8> = $items;
        match $repr {
            0 => { let $d = SetUnion::new(items.iter().copied().collect::<HashSet<u8>>()); $body }
            1 => { let $d = SetUnion::new(items.iter().copied().collect::<BTreeSet<u8>>()); $body }
            2 => { let $d = SetUnion::new(items.clone()); $body }
            3 => {
                let mut v: Vec<u8> = items.iter().rev().copied().collect();
                if let Some(&x) = items.first() { v.push(x); }
                let $d = SetUnion::new(v); $body
            }
            4 => { let $d = SetUnion::new(VecSet(items.clone())); $body }
            5 => match items.len() {
                0 => { let $d = SetUnion::new(ArraySet::<u8, 0>([])); $body }
                1 => { let $d = SetUnion::new(ArraySet([items[0]])); $body }
                2 => { let $d = SetUnion::new(ArraySet([items[0], items[1]])); $body }
                3 => { let $d = SetUnion::new(ArraySet([items[0], items[1], items[2]])); $body }
                4 => { let $d = SetUnion::new(ArraySet([items[0], items[1], items[2], items[3]])); $body }
                _ => unreachable!(),
            },
            6 => { let $d = SetUnion::new(SingletonSet(items[0])); $body }
            7 => { let $d = SetUnion::new(OptionSet(items.first().copied())); $body }
            8 => { let $d = SetUnion::new(EmptySet::<u8>::default()); $body }
            _ => unreachable!(),
        }
    }};
}
const SET_REPR_NAMES: [&str; 9] = ["HashSet", "BTreeSet", "Vec", "Vec(desc+dup)", "VecSet", "ArraySet", "SingletonSet", "OptionSet", "EmptySet"];
fn set_reprs(len: usize) -> Vec<i64> {
    let mut v = vec![0, 1, 2, 3, 4];
    if len <= 4 { v.push(5); }
    if len == 1 { v.push(6); }
    if len <= 1 { v.push(7); }
    if len == 0 { v.push(8); }
    v
}

// ================================================================================================
// SetUnion
// ================================================================================================
#[derive(Clone)]
pub enum SetR {
    H(SetUnionHashSet<u8>),
    B(SetUnionBTreeSet<u8>),
    V(SetUnionVec<u8>),
}
pub struct SetFam {
    pub items: usize,
}
const RECV3: [&str; 3] = ["HashSet", "BTreeSet", "Vec"];

impl Family for SetFam {
    type Recv = SetR;
    type Model = BTreeSet<u8>;
    fn name(&self) -> String { "SetUnion".into() }
    fn inits(&self) -> Vec<Op> {
        let mut v = vec![];
        for t in 0..3 {
            v.push([0, t, -1, 0]);
            for mask in 0..(1i64 << self.items) {
                for r in set_reprs(bits(mask).len()) {
                    v.push([0, t, mask, r]);
                }
            }
        }
        v
    }
    fn ops(&self) -> Vec<Op> {
        let mut v = vec![];
        for mask in 0..(1i64 << self.items) {
            for r in set_reprs(bits(mask).len()) {
                v.push([1, mask, r, 0]);
            }
        }
        for t in 0..3 { v.push([2, t, 0, 0]); }
        v
    }
    fn init(&self, op: &Op) -> (SetR, BTreeSet<u8>) {
        if op[2] < 0 {
            let r = match op[1] { 0 => SetR::H(Default::default()), 1 => SetR::B(Default::default()), _ => SetR::V(Default::default()) };
            return (r, BTreeSet::new());
        }
        let r = match op[1] {
            0 => SetR::H(with_set_delta!(bits(op[2]), op[3], |d| SetUnionHashSet::<u8>::lattice_from(d))),
            1 => SetR::B(with_set_delta!(bits(op[2]), op[3], |d| SetUnionBTreeSet::<u8>::lattice_from(d))),
            _ => SetR::V(with_set_delta!(bits(op[2]), op[3], |d| SetUnionVec::<u8>::lattice_from(d))),
        };
        (r, bset(op[2]))
    }
    fn apply(&self, r: SetR, op: &Op, _m: &BTreeSet<u8>) -> Result<SetR, String> {
        Ok(match op[0] {
            1 => match r {
                SetR::H(mut s) => { with_set_delta!(bits(op[1]), op[2], |d| s.merge(d)); SetR::H(s) }
                SetR::B(mut s) => { with_set_delta!(bits(op[1]), op[2], |d| s.merge(d)); SetR::B(s) }
                SetR::V(mut s) => { with_set_delta!(bits(op[1]), op[2], |d| s.merge(d)); SetR::V(s) }
            },
            2 => match (r, op[1]) {
                (SetR::H(s), 0) => SetR::H(LatticeFrom::lattice_from(s)),
                (SetR::H(s), 1) => SetR::B(LatticeFrom::lattice_from(s)),
                (SetR::H(s), _) => SetR::V(LatticeFrom::lattice_from(s)),
                (SetR::B(s), 0) => SetR::H(LatticeFrom::lattice_from(s)),
                (SetR::B(s), 1) => SetR::B(LatticeFrom::lattice_from(s)),
                (SetR::B(s), _) => SetR::V(LatticeFrom::lattice_from(s)),
                (SetR::V(s), 0) => SetR::H(LatticeFrom::lattice_from(s)),
                (SetR::V(s), 1) => SetR::B(LatticeFrom::lattice_from(s)),
                (SetR::V(s), _) => SetR::V(LatticeFrom::lattice_from(s)),
            },
            _ => unreachable!(),
        })
    }
    fn model(&self, m: &BTreeSet<u8>, op: &Op) -> BTreeSet<u8> {
        let mut m = m.clone();
        if op[0] == 1 { m.extend(bits(op[1])); }
        m
    }
    fn alpha(&self, r: &SetR) -> Result<BTreeSet<u8>, String> {
        Ok(match r {
            SetR::H(s) => s.as_reveal_ref().iter().copied().collect(),
            SetR::B(s) => s.as_reveal_ref().iter().copied().collect(),
            SetR::V(s) => s.as_reveal_ref().iter().copied().collect(),
        })
    }
    fn fingerprint(&self, r: &SetR) -> String {
        match r {
            SetR::H(s) => format!("HashSet{:?}", sorted(s.as_reveal_ref().iter().copied())),
            SetR::B(s) => format!("BTreeSet{:?}", s.as_reveal_ref()),
            // Canonicalisation: a Vec-backed set only ever grows by `extend` (append) and is only read
            // element-wise (`collect`), so order and multiplicity of its elements cannot influence
            // alpha of any later result; without this the Vec receiver's state space is infinite.
            SetR::V(s) => format!("Vec(as set){:?}", s.as_reveal_ref().iter().copied().collect::<BTreeSet<u8>>()),
        }
    }
    fn describe(&self, op: &Op) -> String {
        match op[0] {
            0 if op[2] < 0 => format!("SetUnion<{}>::default()", RECV3[op[1] as usize]),
            0 => format!("SetUnion<{}>::lattice_from({} as {})", RECV3[op[1] as usize], show_set(op[2]), SET_REPR_NAMES[op[3] as usize]),
            1 => format!("merge({} as {})", show_set(op[1]), SET_REPR_NAMES[op[2] as usize]),
            _ => format!("lattice_from -> {}", RECV3[op[1] as usize]),
        }
    }
}

// ================================================================================================
// MapUnion<u8 -> SetUnion<u8 in {0,1}>>
// ================================================================================================
#[derive(Clone)]
pub enum MapR {
    H(MapUnionHashMap<u8, SetUnionHashSet<u8>>),
    B(MapUnionBTreeMap<u8, SetUnionBTreeSet<u8>>),
}
pub struct MapFam {
    pub keys: usize,
}
type MapModel = BTreeMap<u8, BTreeSet<u8>>;
/// digits base 5 per key: 0 absent, 1..=4 -> value mask 0..=3 (mask 0 = bottom entry)
fn map_entries(code: i64, keys: usize) -> Vec<(u8, i64)> {
    let mut c = code;
    let mut v = vec![];
    for k in 0..keys {
        let d = c % 5;
        c /= 5;
        if d > 0 { v.push((k as u8, d - 1)); }
    }
    v
}
fn show_entries(e: &[(u8, i64)]) -> String {
    format!("{{{}}}", e.iter().map(|(k, m)| format!("{k}:{}", show_set(*m))).collect::<Vec<_>>().join(","))
}
fn arr<T, const N: usize>(v: Vec<T>) -> [T; N] {
    v.try_into().ok().expect("length")
}
macro_rules! array_map {
    ($kv:expr, $n:literal) => {{
        let (ks, vs): (Vec<_>, Vec<_>) = $kv.into_iter().unzip();
        ArrayMap { keys: arr::<_, $n>(ks), vals: arr::<_, $n>(vs) }
    }};
}
// 0 HashMap<_,SetUnionHashSet> 1 BTreeMap<_,SetUnionBTreeSet> 2 VecMap<_,SetUnionVec> asc
// 3 VecMap<_,SetUnionHashSet> desc 4 ArrayMap<_,SetUnionBTreeSet,N> 5 SingletonMap<_,SetUnionHashSet>
// 6 SingletonMap<_,SetUnionSingletonSet> 7 OptionMap<_,SetUnionOptionSet> 8 EmptyMap<_,SetUnionHashSet>
macro_rules! with_map_delta {
    ($entries:expr, $repr:expr, |$d:ident| $body:expr) => {{
        let e: Vec<(u8, i64)> = $entries;
        let hs = |m: i64| SetUnion::new(bits(m).into_iter().collect::<HashSet<u8>>());
        let bs = |m: i64| SetUnion::new(bits(m).into_iter().collect::<BTreeSet<u8>>());
        match $repr {
            0 => { let $d = MapUnion::new(e.iter().map(|&(k, m)| (k, hs(m))).collect::<HashMap<_, _>>()); $body }
            1 => { let $d = MapUnion::new(e.iter().map(|&(k, m)| (k, bs(m))).collect::<BTreeMap<_, _>>()); $body }
            2 => { let $d = MapUnion::new(VecMap::new(e.iter().map(|x| x.0).collect(), e.iter().map(|x| SetUnion::new(bits(x.1))).collect())); $body }
            3 => { let $d = MapUnion::new(VecMap::new(e.iter().rev().map(|x| x.0).collect(), e.iter().rev().map(|x| hs(x.1)).collect())); $body }
            4 => {
                let kv: Vec<(u8, SetUnionBTreeSet<u8>)> = e.iter().map(|&(k, m)| (k, bs(m))).collect();
                match kv.len() {
                    0 => { let $d = MapUnion::new(array_map!(kv, 0)); $body }
                    1 => { let $d = MapUnion::new(array_map!(kv, 1)); $body }
                    2 => { let $d = MapUnion::new(array_map!(kv, 2)); $body }
                    3 => { let $d = MapUnion::new(array_map!(kv, 3)); $body }
                    4 => { let $d = MapUnion::new(array_map!(kv, 4)); $body }
                    _ => unreachable!(),
                }
            }
            5 => { let $d = MapUnion::new(SingletonMap(e[0].0, hs(e[0].1))); $body }
            6 => { let $d = MapUnion::new(SingletonMap(e[0].0, SetUnion::new(SingletonSet(bits(e[0].1)[0])))); $body }
            7 => { let $d = MapUnion::new(OptionMap(e.first().map(|&(k, m)| (k, SetUnion::new(OptionSet(bits(m).first().copied())))))); $body }
            8 => { let $d = MapUnion::new(EmptyMap::<u8, SetUnionHashSet<u8>>::default()); $body }
            _ => unreachable!(),
        }
    }};
}
const MAP_REPR_NAMES: [&str; 9] = [
    "HashMap<SetUnionHashSet>", "BTreeMap<SetUnionBTreeSet>", "VecMap<SetUnionVec>", "VecMap(desc)<SetUnionHashSet>",
    "ArrayMap<SetUnionBTreeSet>", "SingletonMap<SetUnionHashSet>", "SingletonMap<SetUnionSingletonSet>",
    "OptionMap<SetUnionOptionSet>", "EmptyMap",
];
fn map_reprs(e: &[(u8, i64)]) -> Vec<i64> {
    let mut v = vec![0, 1, 2, 3];
    if e.len() <= 4 { v.push(4); }
    if e.len() == 1 {
        v.push(5);
        if bits(e[0].1).len() == 1 { v.push(6); }
    }
    if e.is_empty() || (e.len() == 1 && bits(e[0].1).len() <= 1) { v.push(7); }
    if e.is_empty() { v.push(8); }
    v
}
fn map_model(e: &[(u8, i64)]) -> MapModel {
    e.iter().filter(|x| x.1 != 0).map(|&(k, m)| (k, bset(m))).collect()
}

impl Family for MapFam {
    type Recv = MapR;
    type Model = MapModel;
    fn name(&self) -> String { "MapUnion".into() }
    fn inits(&self) -> Vec<Op> {
        let mut v = vec![];
        for t in 0..2 {
            v.push([0, t, -1, 0]);
            for code in 0..5i64.pow(self.keys as u32) {
                for r in map_reprs(&map_entries(code, self.keys)) {
                    v.push([0, t, code, r]);
                }
            }
        }
        v
    }
    fn ops(&self) -> Vec<Op> {
        let mut v = vec![];
        for code in 0..5i64.pow(self.keys as u32) {
            for r in map_reprs(&map_entries(code, self.keys)) {
                v.push([1, code, r, 0]);
            }
        }
        v.push([2, 0, 0, 0]);
        v.push([2, 1, 0, 0]);
        v
    }
    fn init(&self, op: &Op) -> (MapR, MapModel) {
        if op[2] < 0 {
            return (if op[1] == 0 { MapR::H(Default::default()) } else { MapR::B(Default::default()) }, BTreeMap::new());
        }
        let e = map_entries(op[2], self.keys);
        let r = if op[1] == 0 {
            MapR::H(with_map_delta!(e.clone(), op[3], |d| MapUnionHashMap::<u8, SetUnionHashSet<u8>>::lattice_from(d)))
        } else {
            MapR::B(with_map_delta!(e.clone(), op[3], |d| MapUnionBTreeMap::<u8, SetUnionBTreeSet<u8>>::lattice_from(d)))
        };
        (r, map_model(&e))
    }
    fn apply(&self, r: MapR, op: &Op, _m: &MapModel) -> Result<MapR, String> {
        Ok(match op[0] {
            1 => {
                let e = map_entries(op[1], self.keys);
                match r {
                    MapR::H(mut s) => { with_map_delta!(e, op[2], |d| s.merge(d)); MapR::H(s) }
                    MapR::B(mut s) => { with_map_delta!(e, op[2], |d| s.merge(d)); MapR::B(s) }
                }
            }
            2 => match (r, op[1]) {
                (MapR::H(s), 0) => MapR::H(LatticeFrom::lattice_from(s)),
                (MapR::H(s), _) => MapR::B(LatticeFrom::lattice_from(s)),
                (MapR::B(s), 0) => MapR::H(LatticeFrom::lattice_from(s)),
                (MapR::B(s), _) => MapR::B(LatticeFrom::lattice_from(s)),
            },
            _ => unreachable!(),
        })
    }
    fn model(&self, m: &MapModel, op: &Op) -> MapModel {
        let mut m = m.clone();
        if op[0] == 1 {
            for (k, mask) in map_entries(op[1], self.keys) {
                if mask != 0 { m.entry(k).or_default().extend(bits(mask)); }
            }
        }
        m
    }
    fn alpha(&self, r: &MapR) -> Result<MapModel, String> {
        let full: MapModel = match r {
            MapR::H(s) => s.as_reveal_ref().iter().map(|(k, v)| (*k, v.as_reveal_ref().iter().copied().collect())).collect(),
            MapR::B(s) => s.as_reveal_ref().iter().map(|(k, v)| (*k, v.as_reveal_ref().iter().copied().collect())).collect(),
        };
        // bottom entries are invisible
        Ok(full.into_iter().filter(|(_, v)| !v.is_empty()).collect())
    }
    fn fingerprint(&self, r: &MapR) -> String {
        let (tag, full): (&str, MapModel) = match r {
            MapR::H(s) => ("HashMap", s.as_reveal_ref().iter().map(|(k, v)| (*k, v.as_reveal_ref().iter().copied().collect())).collect()),
            MapR::B(s) => ("BTreeMap", s.as_reveal_ref().iter().map(|(k, v)| (*k, v.as_reveal_ref().iter().copied().collect())).collect()),
        };
        format!("{tag}{full:?}")
    }
    fn describe(&self, op: &Op) -> String {
        let t = |i: i64| if i == 0 { "MapUnionHashMap<u8,SetUnionHashSet>" } else { "MapUnionBTreeMap<u8,SetUnionBTreeSet>" };
        match op[0] {
            0 if op[2] < 0 => format!("{}::default()", t(op[1])),
            0 => format!("{}::lattice_from({} as {})", t(op[1]), show_entries(&map_entries(op[2], self.keys)), MAP_REPR_NAMES[op[3] as usize]),
            1 => format!("merge({} as {})", show_entries(&map_entries(op[1], self.keys)), MAP_REPR_NAMES[op[2] as usize]),
            _ => format!("lattice_from -> {}", t(op[1])),
        }
    }
}

// ================================================================================================
// VecUnion<SetUnion<u8 in {0,1}>>
// ================================================================================================
#[derive(Clone)]
pub enum VecR {
    H(VecUnion<SetUnionHashSet<u8>>),
    B(VecUnion<SetUnionBTreeSet<u8>>),
}
pub struct VecFam {
    pub max_len: usize,
}
type VecModel = Vec<BTreeSet<u8>>;
/// all vectors of value masks (0..=3) of length <= max_len, coded as (len, base-4 digits)
fn vec_codes(max_len: usize) -> Vec<(i64, i64)> {
    let mut v = vec![];
    for l in 0..=max_len {
        for c in 0..4i64.pow(l as u32) {
            v.push((l as i64, c));
        }
    }
    v
}
fn vec_masks(len: i64, code: i64) -> Vec<i64> {
    let mut c = code;
    (0..len).map(|_| { let d = c % 4; c /= 4; d }).collect()
}
// 0 VecUnion<SetUnionHashSet> 1 <SetUnionBTreeSet> 2 <SetUnionVec> 3 <SetUnionSingletonSet> 4 <SetUnionOptionSet>
macro_rules! with_vec_delta {
    ($masks:expr, $repr:expr, |$d:ident| $body:expr) => {{
        let ms: Vec<i64> = $masks;
        match $repr {
            0 => { let $d = VecUnion::new(ms.iter().map(|&m| SetUnion::new(bits(m).into_iter().collect::<HashSet<u8>>())).collect::<Vec<_>>()); $body }
            1 => { let $d = VecUnion::new(ms.iter().map(|&m| SetUnion::new(bits(m).into_iter().collect::<BTreeSet<u8>>())).collect::<Vec<_>>()); $body }
            2 => { let $d = VecUnion::new(ms.iter().map(|&m| SetUnion::new(bits(m))).collect::<Vec<_>>()); $body }
            3 => { let $d = VecUnion::new(ms.iter().map(|&m| SetUnion::new(SingletonSet(bits(m)[0]))).collect::<Vec<_>>()); $body }
            4 => { let $d = VecUnion::new(ms.iter().map(|&m| SetUnion::new(OptionSet(bits(m).first().copied()))).collect::<Vec<_>>()); $body }
            _ => unreachable!(),
        }
    }};
}
const VEC_REPR_NAMES: [&str; 5] = ["VecUnion<SetUnionHashSet>", "VecUnion<SetUnionBTreeSet>", "VecUnion<SetUnionVec>", "VecUnion<SetUnionSingletonSet>", "VecUnion<SetUnionOptionSet>"];
fn vec_reprs(ms: &[i64]) -> Vec<i64> {
    let mut v = vec![0, 1, 2];
    if ms.iter().all(|&m| bits(m).len() == 1) { v.push(3); }
    if ms.iter().all(|&m| bits(m).len() <= 1) { v.push(4); }
    v
}
fn show_masks(ms: &[i64]) -> String {
    format!("[{}]", ms.iter().map(|&m| show_set(m)).collect::<Vec<_>>().join(","))
}
impl Family for VecFam {
    type Recv = VecR;
    type Model = VecModel;
    fn name(&self) -> String { "VecUnion".into() }
    fn inits(&self) -> Vec<Op> {
        let mut v = vec![];
        for t in 0..2 {
            v.push([0, t, -1, 0]);
            for (l, c) in vec_codes(self.max_len) {
                for r in vec_reprs(&vec_masks(l, c)) {
                    v.push([0, t, l * 1000 + c, r]);
                }
            }
        }
        v
    }
    fn ops(&self) -> Vec<Op> {
        let mut v = vec![];
        for (l, c) in vec_codes(self.max_len) {
            for r in vec_reprs(&vec_masks(l, c)) {
                v.push([1, l * 1000 + c, r, 0]);
            }
        }
        v.push([2, 0, 0, 0]);
        v.push([2, 1, 0, 0]);
        v
    }
    fn init(&self, op: &Op) -> (VecR, VecModel) {
        if op[2] < 0 {
            return (if op[1] == 0 { VecR::H(Default::default()) } else { VecR::B(Default::default()) }, vec![]);
        }
        let ms = vec_masks(op[2] / 1000, op[2] % 1000);
        let r = if op[1] == 0 {
            VecR::H(with_vec_delta!(ms.clone(), op[3], |d| VecUnion::<SetUnionHashSet<u8>>::lattice_from(d)))
        } else {
            VecR::B(with_vec_delta!(ms.clone(), op[3], |d| VecUnion::<SetUnionBTreeSet<u8>>::lattice_from(d)))
        };
        (r, ms.iter().map(|&m| bset(m)).collect())
    }
    fn apply(&self, r: VecR, op: &Op, _m: &VecModel) -> Result<VecR, String> {
        Ok(match op[0] {
            1 => {
                let ms = vec_masks(op[1] / 1000, op[1] % 1000);
                match r {
                    VecR::H(mut s) => { with_vec_delta!(ms, op[2], |d| s.merge(d)); VecR::H(s) }
                    VecR::B(mut s) => { with_vec_delta!(ms, op[2], |d| s.merge(d)); VecR::B(s) }
                }
            }
            2 => match (r, op[1]) {
                (VecR::H(s), 0) => VecR::H(LatticeFrom::lattice_from(s)),
                (VecR::H(s), _) => VecR::B(LatticeFrom::lattice_from(s)),
                (VecR::B(s), 0) => VecR::H(LatticeFrom::lattice_from(s)),
                (VecR::B(s), _) => VecR::B(LatticeFrom::lattice_from(s)),
            },
            _ => unreachable!(),
        })
    }
    fn model(&self, m: &VecModel, op: &Op) -> VecModel {
        let mut m = m.clone();
        if op[0] == 1 {
            let ms = vec_masks(op[1] / 1000, op[1] % 1000);
            for (i, mask) in ms.iter().enumerate() {
                if i < m.len() { m[i].extend(bits(*mask)); } else { m.push(bset(*mask)); }
            }
        }
        m
    }
    fn alpha(&self, r: &VecR) -> Result<VecModel, String> {
        Ok(match r {
            VecR::H(s) => s.as_reveal_ref().iter().map(|x| x.as_reveal_ref().iter().copied().collect()).collect(),
            VecR::B(s) => s.as_reveal_ref().iter().map(|x| x.as_reveal_ref().iter().copied().collect()).collect(),
        })
    }
    fn fingerprint(&self, r: &VecR) -> String {
        let tag = match r { VecR::H(_) => "VecUnion<HashSet>", VecR::B(_) => "VecUnion<BTreeSet>" };
        format!("{tag}{:?}", self.alpha(r).unwrap())
    }
    fn describe(&self, op: &Op) -> String {
        let t = |i: i64| if i == 0 { "VecUnion<SetUnionHashSet>" } else { "VecUnion<SetUnionBTreeSet>" };
        match op[0] {
            0 if op[2] < 0 => format!("{}::default()", t(op[1])),
            0 => format!("{}::lattice_from({} as {})", t(op[1]), show_masks(&vec_masks(op[2] / 1000, op[2] % 1000)), VEC_REPR_NAMES[op[3] as usize]),
            1 => format!("merge({} as {})", show_masks(&vec_masks(op[1] / 1000, op[1] % 1000)), VEC_REPR_NAMES[op[2] as usize]),
            _ => format!("lattice_from -> {}", t(op[1])),
        }
    }
}

// ================================================================================================
// Max<u8> / Min<u8>
// ================================================================================================
#[derive(Clone)]
pub enum OrdR {
    Max(Max<u8>),
    Min(Min<u8>),
}
pub struct OrdFam {
    pub vals: usize,
}
impl Family for OrdFam {
    type Recv = OrdR;
    type Model = (bool, u8);
    fn name(&self) -> String { "MaxMin".into() }
    fn inits(&self) -> Vec<Op> {
        (0..2).flat_map(|k| (0..self.vals as i64).map(move |v| [0, k, v, 0])).collect()
    }
    fn ops(&self) -> Vec<Op> {
        let mut v: Vec<Op> = (0..self.vals as i64).map(|v| [1, v, 0, 0]).collect();
        v.push([2, 0, 0, 0]);
        v
    }
    fn init(&self, op: &Op) -> (OrdR, (bool, u8)) {
        if op[1] == 0 { (OrdR::Max(Max::new(op[2] as u8)), (true, op[2] as u8)) } else { (OrdR::Min(Min::new(op[2] as u8)), (false, op[2] as u8)) }
    }
    fn apply(&self, r: OrdR, op: &Op, _m: &(bool, u8)) -> Result<OrdR, String> {
        Ok(match (op[0], r) {
            (1, OrdR::Max(mut x)) => { x.merge(Max::new(op[1] as u8)); OrdR::Max(x) }
            (1, OrdR::Min(mut x)) => { x.merge(Min::new(op[1] as u8)); OrdR::Min(x) }
            (_, OrdR::Max(x)) => OrdR::Max(LatticeFrom::lattice_from(x)),
            (_, OrdR::Min(x)) => OrdR::Min(LatticeFrom::lattice_from(x)),
        })
    }
    fn model(&self, m: &(bool, u8), op: &Op) -> (bool, u8) {
        if op[0] != 1 { return *m; }
        if m.0 { (true, m.1.max(op[1] as u8)) } else { (false, m.1.min(op[1] as u8)) }
    }
    fn alpha(&self, r: &OrdR) -> Result<(bool, u8), String> {
        Ok(match r { OrdR::Max(x) => (true, *x.as_reveal_ref()), OrdR::Min(x) => (false, *x.as_reveal_ref()) })
    }
    fn fingerprint(&self, r: &OrdR) -> String {
        match r { OrdR::Max(x) => format!("Max({})", x.as_reveal_ref()), OrdR::Min(x) => format!("Min({})", x.as_reveal_ref()) }
    }
    fn describe(&self, op: &Op) -> String {
        match op[0] {
            0 => format!("{}::new({})", if op[1] == 0 { "Max" } else { "Min" }, op[2]),
            1 => format!("merge({})", op[1]),
            _ => "lattice_from(self)".into(),
        }
    }
}

// ================================================================================================
// Option-wrapped set deltas shared by WithBot / WithTop: code -1 = None, else Some(mask)
// 0 <SetUnionHashSet> 1 <SetUnionBTreeSet> 2 <SetUnionVec> 3 <SetUnionSingletonSet> 4 <SetUnionOptionSet>
// ================================================================================================
macro_rules! with_opt_delta {
    ($wrap:ident, $code:expr, $repr:expr, |$d:ident| $body:expr) => {{
        let code: i64 = $code;
        let some = code >= 0;
        let it = if some { bits(code) } else { vec![] };
        match $repr {
            0 => { let $d = $wrap::new(some.then(|| SetUnion::new(it.iter().copied().collect::<HashSet<u8>>()))); $body }
            1 => { let $d = $wrap::new(some.then(|| SetUnion::new(it.iter().copied().collect::<BTreeSet<u8>>()))); $body }
            2 => { let $d = $wrap::new(some.then(|| SetUnion::new(it.clone()))); $body }
            3 => { let $d = $wrap::new(some.then(|| SetUnion::new(SingletonSet(it[0])))); $body }
            4 => { let $d = $wrap::new(some.then(|| SetUnion::new(OptionSet(it.first().copied())))); $body }
            _ => unreachable!(),
        }
    }};
}
const OPT_REPR_NAMES: [&str; 5] = ["SetUnionHashSet", "SetUnionBTreeSet", "SetUnionVec", "SetUnionSingletonSet", "SetUnionOptionSet"];
fn opt_reprs(code: i64) -> Vec<i64> {
    let mut v = vec![0, 1, 2];
    let n = if code < 0 { usize::MAX } else { bits(code).len() };
    if code < 0 || n == 1 { v.push(3); }
    if code < 0 || n <= 1 { v.push(4); }
    v
}
fn show_opt(code: i64) -> String {
    if code < 0 { "None".into() } else { format!("Some({})", show_set(code)) }
}

#[derive(Clone)]
pub enum BotR {
    H(WithBot<SetUnionHashSet<u8>>),
    B(WithBot<SetUnionBTreeSet<u8>>),
}
pub struct WithBotFam {
    pub items: usize,
}
impl WithBotFam {
    fn codes(&self) -> impl Iterator<Item = i64> { -1..(1i64 << self.items) }
}
impl Family for WithBotFam {
    type Recv = BotR;
    /// adjoined bottom: `None`; `Some(empty)` is identified with it (the inner lattice's own bottom)
    type Model = Option<BTreeSet<u8>>;
    fn name(&self) -> String { "WithBot<SetUnion>".into() }
    fn inits(&self) -> Vec<Op> {
        let mut v = vec![];
        for t in 0..2 {
            v.push([0, t, -2, 0]);
            for c in self.codes() { for r in opt_reprs(c) { v.push([0, t, c, r]); } }
        }
        v
    }
    fn ops(&self) -> Vec<Op> {
        let mut v = vec![];
        for c in self.codes() { for r in opt_reprs(c) { v.push([1, c, r, 0]); } }
        v.push([2, 0, 0, 0]);
        v.push([2, 1, 0, 0]);
        v
    }
    fn init(&self, op: &Op) -> (BotR, Self::Model) {
        if op[2] == -2 {
            return (if op[1] == 0 { BotR::H(Default::default()) } else { BotR::B(Default::default()) }, None);
        }
        let r = if op[1] == 0 {
            BotR::H(with_opt_delta!(WithBot, op[2], op[3], |d| WithBot::<SetUnionHashSet<u8>>::lattice_from(d)))
        } else {
            BotR::B(with_opt_delta!(WithBot, op[2], op[3], |d| WithBot::<SetUnionBTreeSet<u8>>::lattice_from(d)))
        };
        (r, if op[2] > 0 { Some(bset(op[2])) } else { None })
    }
    fn apply(&self, r: BotR, op: &Op, _m: &Self::Model) -> Result<BotR, String> {
        Ok(match op[0] {
            1 => match r {
                BotR::H(mut s) => { with_opt_delta!(WithBot, op[1], op[2], |d| s.merge(d)); BotR::H(s) }
                BotR::B(mut s) => { with_opt_delta!(WithBot, op[1], op[2], |d| s.merge(d)); BotR::B(s) }
            },
            _ => match (r, op[1]) {
                (BotR::H(s), 0) => BotR::H(LatticeFrom::lattice_from(s)),
                (BotR::H(s), _) => BotR::B(LatticeFrom::lattice_from(s)),
                (BotR::B(s), 0) => BotR::H(LatticeFrom::lattice_from(s)),
                (BotR::B(s), _) => BotR::B(LatticeFrom::lattice_from(s)),
            },
        })
    }
    fn model(&self, m: &Self::Model, op: &Op) -> Self::Model {
        if op[0] != 1 || op[1] <= 0 { return m.clone(); }
        let mut s = m.clone().unwrap_or_default();
        s.extend(bits(op[1]));
        Some(s)
    }
    fn alpha(&self, r: &BotR) -> Result<Self::Model, String> {
        let o: Option<BTreeSet<u8>> = match r {
            BotR::H(s) => s.as_reveal_ref().map(|x| x.as_reveal_ref().iter().copied().collect()),
            BotR::B(s) => s.as_reveal_ref().map(|x| x.as_reveal_ref().iter().copied().collect()),
        };
        Ok(o.filter(|s| !s.is_empty()))
    }
    fn fingerprint(&self, r: &BotR) -> String {
        match r {
            BotR::H(s) => format!("WithBot<HashSet>({:?})", s.as_reveal_ref().map(|x| sorted(x.as_reveal_ref().iter().copied()))),
            BotR::B(s) => format!("WithBot<BTreeSet>({:?})", s.as_reveal_ref().map(|x| x.as_reveal_ref().clone())),
        }
    }
    fn describe(&self, op: &Op) -> String {
        let t = |i: i64| if i == 0 { "WithBot<SetUnionHashSet>" } else { "WithBot<SetUnionBTreeSet>" };
        match op[0] {
            0 if op[2] == -2 => format!("{}::default()", t(op[1])),
            0 => format!("{}::lattice_from(WithBot<{}>({}))", t(op[1]), OPT_REPR_NAMES[op[3] as usize], show_opt(op[2])),
            1 => format!("merge(WithBot<{}>({}))", OPT_REPR_NAMES[op[2] as usize], show_opt(op[1])),
            _ => format!("lattice_from -> {}", t(op[1])),
        }
    }
}

#[derive(Clone)]
pub enum TopR {
    H(WithTop<SetUnionHashSet<u8>>),
    B(WithTop<SetUnionBTreeSet<u8>>),
}
pub struct WithTopFam {
    pub items: usize,
}
/// adjoined top: `Err(())` = top, `Ok(set)` otherwise (Result only for the derived Ord)
type TopModel = Result<BTreeSet<u8>, ()>;
impl WithTopFam {
    fn codes(&self) -> impl Iterator<Item = i64> { -1..(1i64 << self.items) }
}
impl Family for WithTopFam {
    type Recv = TopR;
    type Model = TopModel;
    fn name(&self) -> String { "WithTop<SetUnion>".into() }
    fn inits(&self) -> Vec<Op> {
        let mut v = vec![];
        for t in 0..2 {
            v.push([0, t, -2, 0]);
            for c in self.codes() { for r in opt_reprs(c) { v.push([0, t, c, r]); } }
        }
        v
    }
    fn ops(&self) -> Vec<Op> {
        let mut v = vec![];
        for c in self.codes() { for r in opt_reprs(c) { v.push([1, c, r, 0]); } }
        v.push([2, 0, 0, 0]);
        v.push([2, 1, 0, 0]);
        v
    }
    fn init(&self, op: &Op) -> (TopR, TopModel) {
        if op[2] == -2 {
            return (if op[1] == 0 { TopR::H(Default::default()) } else { TopR::B(Default::default()) }, Ok(BTreeSet::new()));
        }
        let r = if op[1] == 0 {
            TopR::H(with_opt_delta!(WithTop, op[2], op[3], |d| WithTop::<SetUnionHashSet<u8>>::lattice_from(d)))
        } else {
            TopR::B(with_opt_delta!(WithTop, op[2], op[3], |d| WithTop::<SetUnionBTreeSet<u8>>::lattice_from(d)))
        };
        (r, if op[2] < 0 { Err(()) } else { Ok(bset(op[2])) })
    }
    fn apply(&self, r: TopR, op: &Op, _m: &TopModel) -> Result<TopR, String> {
        Ok(match op[0] {
            1 => match r {
                TopR::H(mut s) => { with_opt_delta!(WithTop, op[1], op[2], |d| s.merge(d)); TopR::H(s) }
                TopR::B(mut s) => { with_opt_delta!(WithTop, op[1], op[2], |d| s.merge(d)); TopR::B(s) }
            },
            _ => match (r, op[1]) {
                (TopR::H(s), 0) => TopR::H(LatticeFrom::lattice_from(s)),
                (TopR::H(s), _) => TopR::B(LatticeFrom::lattice_from(s)),
                (TopR::B(s), 0) => TopR::H(LatticeFrom::lattice_from(s)),
                (TopR::B(s), _) => TopR::B(LatticeFrom::lattice_from(s)),
            },
        })
    }
    fn model(&self, m: &TopModel, op: &Op) -> TopModel {
        if op[0] != 1 { return m.clone(); }
        match (m, op[1]) {
            (Err(()), _) | (_, -1) => Err(()),
            (Ok(s), c) => { let mut s = s.clone(); s.extend(bits(c)); Ok(s) }
        }
    }
    fn alpha(&self, r: &TopR) -> Result<TopModel, String> {
        let o: Option<BTreeSet<u8>> = match r {
            TopR::H(s) => s.as_reveal_ref().map(|x| x.as_reveal_ref().iter().copied().collect()),
            TopR::B(s) => s.as_reveal_ref().map(|x| x.as_reveal_ref().iter().copied().collect()),
        };
        Ok(o.ok_or(()))
    }
    fn fingerprint(&self, r: &TopR) -> String {
        let tag = match r { TopR::H(_) => "WithTop<HashSet>", TopR::B(_) => "WithTop<BTreeSet>" };
        format!("{tag}({:?})", self.alpha(r).unwrap())
    }
    fn describe(&self, op: &Op) -> String {
        let t = |i: i64| if i == 0 { "WithTop<SetUnionHashSet>" } else { "WithTop<SetUnionBTreeSet>" };
        match op[0] {
            0 if op[2] == -2 => format!("{}::default()", t(op[1])),
            0 => format!("{}::lattice_from(WithTop<{}>({}))", t(op[1]), OPT_REPR_NAMES[op[3] as usize], show_opt(op[2])),
            1 => format!("merge(WithTop<{}>({}))", OPT_REPR_NAMES[op[2] as usize], show_opt(op[1])),
            _ => format!("lattice_from -> {}", t(op[1])),
        }
    }
}

// ================================================================================================
// WithBot<Max<u8>> / WithTop<Max<u8>> (homogeneous; Max<u8>(0) is the inner bottom)
// ================================================================================================
#[derive(Clone)]
pub enum BtMaxR {
    Bot(WithBot<Max<u8>>),
    Top(WithTop<Max<u8>>),
}
pub struct BotTopMaxFam {
    pub vals: usize,
}
impl Family for BotTopMaxFam {
    type Recv = BtMaxR;
    /// (is_withtop, value): WithBot: None = bottom (Some(0) identified); WithTop: None = top
    type Model = (bool, Option<u8>);
    fn name(&self) -> String { "WithBot/WithTop<Max<u8>>".into() }
    fn inits(&self) -> Vec<Op> {
        let mut v = vec![[0, 0, -2, 0], [0, 1, -2, 0]];
        for k in 0..2 { for c in -1..self.vals as i64 { v.push([0, k, c, 0]); } }
        v
    }
    fn ops(&self) -> Vec<Op> {
        let mut v: Vec<Op> = (-1..self.vals as i64).map(|c| [1, c, 0, 0]).collect();
        v.push([2, 0, 0, 0]);
        v
    }
    fn init(&self, op: &Op) -> (BtMaxR, Self::Model) {
        let o = (op[2] >= 0).then(|| Max::new(op[2] as u8));
        match (op[1], op[2]) {
            (0, -2) => (BtMaxR::Bot(Default::default()), (false, None)),
            (_, -2) => (BtMaxR::Top(Default::default()), (true, Some(0))),
            (0, c) => (BtMaxR::Bot(WithBot::new(o)), (false, (c > 0).then_some(c as u8))),
            (_, c) => (BtMaxR::Top(WithTop::new(o)), (true, (c >= 0).then_some(c as u8))),
        }
    }
    fn apply(&self, r: BtMaxR, op: &Op, _m: &Self::Model) -> Result<BtMaxR, String> {
        let o = (op[1] >= 0).then(|| Max::new(op[1] as u8));
        Ok(match (op[0], r) {
            (1, BtMaxR::Bot(mut x)) => { x.merge(WithBot::new(o)); BtMaxR::Bot(x) }
            (1, BtMaxR::Top(mut x)) => { x.merge(WithTop::new(o)); BtMaxR::Top(x) }
            (_, BtMaxR::Bot(x)) => BtMaxR::Bot(LatticeFrom::lattice_from(x)),
            (_, BtMaxR::Top(x)) => BtMaxR::Top(LatticeFrom::lattice_from(x)),
        })
    }
    fn model(&self, m: &Self::Model, op: &Op) -> Self::Model {
        if op[0] != 1 { return *m; }
        let c = op[1];
        match *m {
            (false, cur) => {
                if c <= 0 { (false, cur) } else { (false, Some(cur.unwrap_or(0).max(c as u8))) }
            }
            (true, None) => (true, None),
            (true, Some(cur)) => if c < 0 { (true, None) } else { (true, Some(cur.max(c as u8))) },
        }
    }
    fn alpha(&self, r: &BtMaxR) -> Result<Self::Model, String> {
        Ok(match r {
            BtMaxR::Bot(x) => (false, x.as_reveal_ref().map(|m| *m.as_reveal_ref()).filter(|&v| v != 0)),
            BtMaxR::Top(x) => (true, x.as_reveal_ref().map(|m| *m.as_reveal_ref())),
        })
    }
    fn fingerprint(&self, r: &BtMaxR) -> String {
        match r {
            BtMaxR::Bot(x) => format!("WithBot({:?})", x.as_reveal_ref().map(|m| *m.as_reveal_ref())),
            BtMaxR::Top(x) => format!("WithTop({:?})", x.as_reveal_ref().map(|m| *m.as_reveal_ref())),
        }
    }
    fn describe(&self, op: &Op) -> String {
        let w = |k: i64| if k == 0 { "WithBot<Max<u8>>" } else { "WithTop<Max<u8>>" };
        let o = |c: i64| if c < 0 { "None".to_string() } else { format!("Some(Max({c}))") };
        match op[0] {
            0 if op[2] == -2 => format!("{}::default()", w(op[1])),
            0 => format!("{}::new({})", w(op[1]), o(op[2])),
            1 => format!("merge({})", o(op[1])),
            _ => "lattice_from(self)".into(),
        }
    }
}

// ================================================================================================
// Conflict<String> (deltas Conflict<String> and Conflict<&str>) and Point<u8, ()>
// ================================================================================================
#[derive(Clone)]
pub enum CpR {
    C(Conflict<String>),
    P(Point<u8, ()>),
}
pub struct ConflictPointFam {
    pub vals: usize,
}
const NAMES: [&str; 5] = ["a", "b", "c", "d", "e"];
impl Family for ConflictPointFam {
    type Recv = CpR;
    /// Conflict: (false, Some(v)) a value, (false, None) the conflict top. Point: (true, Some(v)).
    type Model = (bool, Option<u8>);
    fn name(&self) -> String { "Conflict/Point".into() }
    fn inits(&self) -> Vec<Op> {
        let mut v = vec![];
        for c in -1..self.vals as i64 { v.push([0, 0, c, 0]); }
        for c in 0..self.vals as i64 { v.push([0, 1, c, 0]); }
        v.push([0, 1, -2, 0]);
        v
    }
    fn ops(&self) -> Vec<Op> {
        let mut v = vec![];
        for c in -1..self.vals as i64 { for r in 0..2 { v.push([1, c, r, 0]); } }
        v.push([2, 0, 0, 0]);
        v
    }
    fn init(&self, op: &Op) -> (CpR, Self::Model) {
        match (op[1], op[2]) {
            (0, c) => (CpR::C(Conflict::new((c >= 0).then(|| NAMES[c as usize].to_string()))), (false, (c >= 0).then_some(c as u8))),
            (_, -2) => (CpR::P(Default::default()), (true, Some(0))),
            (_, c) => (CpR::P(Point::new(c as u8)), (true, Some(c as u8))),
        }
    }
    fn applicable(&self, m: &Self::Model, op: &Op) -> bool {
        // Point: the statement's precondition is "only equal merges" (unequal merges panic by contract);
        // Point has a single delta representation.
        if m.0 && op[0] == 1 { return op[2] == 0 && op[1] >= 0 && Some(op[1] as u8) == m.1; }
        true
    }
    fn apply(&self, r: CpR, op: &Op, _m: &Self::Model) -> Result<CpR, String> {
        Ok(match (op[0], r) {
            (1, CpR::C(mut x)) => {
                let c = op[1];
                if op[2] == 0 {
                    x.merge(Conflict::new((c >= 0).then(|| NAMES[c as usize].to_string())));
                } else {
                    x.merge(Conflict::<&'static str>::new((c >= 0).then(|| NAMES[c as usize])));
                }
                CpR::C(x)
            }
            (1, CpR::P(mut x)) => { x.merge(Point::new(op[1] as u8)); CpR::P(x) }
            (_, CpR::C(x)) => CpR::C(LatticeFrom::lattice_from(x)),
            (_, CpR::P(x)) => CpR::P(LatticeFrom::lattice_from(x)),
        })
    }
    fn model(&self, m: &Self::Model, op: &Op) -> Self::Model {
        if op[0] != 1 || m.0 { return *m; }
        match m.1 {
            None => (false, None),
            Some(v) => if op[1] >= 0 && op[1] as u8 == v { (false, Some(v)) } else { (false, None) },
        }
    }
    fn alpha(&self, r: &CpR) -> Result<Self::Model, String> {
        Ok(match r {
            CpR::C(x) => (false, x.as_reveal_ref().map(|s| NAMES.iter().position(|n| n == s).unwrap() as u8)),
            CpR::P(x) => (true, Some(x.val)),
        })
    }
    fn fingerprint(&self, r: &CpR) -> String {
        match r { CpR::C(x) => format!("Conflict({:?})", x.as_reveal_ref()), CpR::P(x) => format!("Point({})", x.val) }
    }
    fn describe(&self, op: &Op) -> String {
        let o = |c: i64| if c < 0 { "None".to_string() } else { format!("Some({:?})", NAMES[c as usize]) };
        match (op[0], op[1]) {
            (0, 0) => format!("Conflict<String>::new({})", o(op[2])),
            (0, _) if op[2] == -2 => "Point<u8,()>::default()".into(),
            (0, _) => format!("Point<u8,()>::new({})", op[2]),
            (1, c) => format!("merge({} as {})", if c < 0 { "None".to_string() } else { format!("{:?}/{c}", NAMES[c as usize]) }, if op[2] == 0 { "owned" } else { "Conflict<&str>" }),
            _ => "lattice_from(self)".into(),
        }
    }
}

// ================================================================================================
// Pair<SetUnion, Max<u8>> and DomPair<Max<u8>, SetUnion> (total-order key: the stated precondition)
// deltas: (key/val u8, set mask) with the set in 0 HashSet 1 BTreeSet 2 Vec 3 Singleton 4 Option
// ================================================================================================
macro_rules! with_pair_delta {
    ($ctor:expr, $mask:expr, $repr:expr, |$d:ident| $body:expr) => {{
        let it: Vec<u8> = bits($mask);
        let ctor = $ctor;
        match $repr {
            0 => { let $d = ctor.hs(SetUnion::new(it.iter().copied().collect::<HashSet<u8>>())); $body }
            1 => { let $d = ctor.bs(SetUnion::new(it.iter().copied().collect::<BTreeSet<u8>>())); $body }
            2 => { let $d = ctor.vs(SetUnion::new(it.clone())); $body }
            3 => { let $d = ctor.ss(SetUnion::new(SingletonSet(it[0]))); $body }
            4 => { let $d = ctor.os(SetUnion::new(OptionSet(it.first().copied()))); $body }
            _ => unreachable!(),
        }
    }};
}
fn pair_reprs(mask: i64) -> Vec<i64> {
    let n = bits(mask).len();
    let mut v = vec![0, 1, 2];
    if n == 1 { v.push(3); }
    if n <= 1 { v.push(4); }
    v
}
#[derive(Clone, Copy)]
struct PairCtor(u8);
impl PairCtor {
    fn hs(self, s: SetUnionHashSet<u8>) -> Pair<SetUnionHashSet<u8>, Max<u8>> { Pair::new(s, Max::new(self.0)) }
    fn bs(self, s: SetUnionBTreeSet<u8>) -> Pair<SetUnionBTreeSet<u8>, Max<u8>> { Pair::new(s, Max::new(self.0)) }
    fn vs(self, s: SetUnionVec<u8>) -> Pair<SetUnionVec<u8>, Max<u8>> { Pair::new(s, Max::new(self.0)) }
    fn ss(self, s: SetUnionSingletonSet<u8>) -> Pair<SetUnionSingletonSet<u8>, Max<u8>> { Pair::new(s, Max::new(self.0)) }
    fn os(self, s: SetUnionOptionSet<u8>) -> Pair<SetUnionOptionSet<u8>, Max<u8>> { Pair::new(s, Max::new(self.0)) }
}
#[derive(Clone, Copy)]
struct DomCtor(u8);
impl DomCtor {
    fn hs(self, s: SetUnionHashSet<u8>) -> DomPair<Max<u8>, SetUnionHashSet<u8>> { DomPair::new(Max::new(self.0), s) }
    fn bs(self, s: SetUnionBTreeSet<u8>) -> DomPair<Max<u8>, SetUnionBTreeSet<u8>> { DomPair::new(Max::new(self.0), s) }
    fn vs(self, s: SetUnionVec<u8>) -> DomPair<Max<u8>, SetUnionVec<u8>> { DomPair::new(Max::new(self.0), s) }
    fn ss(self, s: SetUnionSingletonSet<u8>) -> DomPair<Max<u8>, SetUnionSingletonSet<u8>> { DomPair::new(Max::new(self.0), s) }
    fn os(self, s: SetUnionOptionSet<u8>) -> DomPair<Max<u8>, SetUnionOptionSet<u8>> { DomPair::new(Max::new(self.0), s) }
}

#[derive(Clone)]
pub enum PairR {
    PH(Pair<SetUnionHashSet<u8>, Max<u8>>),
    PB(Pair<SetUnionBTreeSet<u8>, Max<u8>>),
    DH(DomPair<Max<u8>, SetUnionHashSet<u8>>),
    DB(DomPair<Max<u8>, SetUnionBTreeSet<u8>>),
}
pub struct PairFam {
    pub items: usize,
    pub vals: usize,
}
impl PairFam {
    fn deltas(&self) -> Vec<(i64, i64, i64)> {
        let mut v = vec![];
        for k in 0..self.vals as i64 {
            for mask in 0..(1i64 << self.items) {
                for r in pair_reprs(mask) { v.push((k, mask, r)); }
            }
        }
        v
    }
}
impl Family for PairFam {
    type Recv = PairR;
    /// (is_dompair, u8 component, set component)
    type Model = (bool, u8, BTreeSet<u8>);
    fn name(&self) -> String { "Pair/DomPair".into() }
    fn inits(&self) -> Vec<Op> {
        let mut v = vec![];
        for t in 0..4 {
            v.push([0, t, -1, 0]);
            for (k, mask, r) in self.deltas() { v.push([0, t, k * 100 + mask, r]); }
        }
        v
    }
    fn ops(&self) -> Vec<Op> {
        let mut v: Vec<Op> = self.deltas().into_iter().map(|(k, mask, r)| [1, k * 100 + mask, r, 0]).collect();
        v.push([2, 0, 0, 0]);
        v.push([2, 1, 0, 0]);
        v
    }
    fn init(&self, op: &Op) -> (PairR, Self::Model) {
        let dom = op[1] >= 2;
        if op[2] < 0 {
            let r = match op[1] { 0 => PairR::PH(Default::default()), 1 => PairR::PB(Default::default()), 2 => PairR::DH(Default::default()), _ => PairR::DB(Default::default()) };
            return (r, (dom, 0, BTreeSet::new()));
        }
        let (k, mask) = ((op[2] / 100) as u8, op[2] % 100);
        let r = match op[1] {
            0 => PairR::PH(with_pair_delta!(PairCtor(k), mask, op[3], |d| LatticeFrom::lattice_from(d))),
            1 => PairR::PB(with_pair_delta!(PairCtor(k), mask, op[3], |d| LatticeFrom::lattice_from(d))),
            2 => PairR::DH(with_pair_delta!(DomCtor(k), mask, op[3], |d| LatticeFrom::lattice_from(d))),
            _ => PairR::DB(with_pair_delta!(DomCtor(k), mask, op[3], |d| LatticeFrom::lattice_from(d))),
        };
        (r, (dom, k, bset(mask)))
    }
    fn apply(&self, r: PairR, op: &Op, _m: &Self::Model) -> Result<PairR, String> {
        let (k, mask) = ((op[1] / 100) as u8, op[1] % 100);
        Ok(match (op[0], r) {
            (1, PairR::PH(mut x)) => { with_pair_delta!(PairCtor(k), mask, op[2], |d| x.merge(d)); PairR::PH(x) }
            (1, PairR::PB(mut x)) => { with_pair_delta!(PairCtor(k), mask, op[2], |d| x.merge(d)); PairR::PB(x) }
            (1, PairR::DH(mut x)) => { with_pair_delta!(DomCtor(k), mask, op[2], |d| x.merge(d)); PairR::DH(x) }
            (1, PairR::DB(mut x)) => { with_pair_delta!(DomCtor(k), mask, op[2], |d| x.merge(d)); PairR::DB(x) }
            (_, PairR::PH(x)) => if op[1] == 0 { PairR::PH(LatticeFrom::lattice_from(x)) } else { PairR::PB(LatticeFrom::lattice_from(x)) },
            (_, PairR::PB(x)) => if op[1] == 0 { PairR::PH(LatticeFrom::lattice_from(x)) } else { PairR::PB(LatticeFrom::lattice_from(x)) },
            (_, PairR::DH(x)) => if op[1] == 0 { PairR::DH(LatticeFrom::lattice_from(x)) } else { PairR::DB(LatticeFrom::lattice_from(x)) },
            (_, PairR::DB(x)) => if op[1] == 0 { PairR::DH(LatticeFrom::lattice_from(x)) } else { PairR::DB(LatticeFrom::lattice_from(x)) },
        })
    }
    fn model(&self, m: &Self::Model, op: &Op) -> Self::Model {
        if op[0] != 1 { return m.clone(); }
        let (k, mask) = ((op[1] / 100) as u8, op[1] % 100);
        let (dom, mk, ms) = m.clone();
        if !dom {
            let mut s = ms;
            s.extend(bits(mask));
            (false, mk.max(k), s)
        } else if k > mk {
            (true, k, bset(mask))
        } else if k == mk {
            let mut s = ms;
            s.extend(bits(mask));
            (true, mk, s)
        } else {
            (true, mk, ms)
        }
    }
    fn alpha(&self, r: &PairR) -> Result<Self::Model, String> {
        Ok(match r {
            PairR::PH(x) => (false, *x.b.as_reveal_ref(), x.a.as_reveal_ref().iter().copied().collect()),
            PairR::PB(x) => (false, *x.b.as_reveal_ref(), x.a.as_reveal_ref().iter().copied().collect()),
            PairR::DH(x) => (true, *x.as_reveal_ref().0.as_reveal_ref(), x.as_reveal_ref().1.as_reveal_ref().iter().copied().collect()),
            PairR::DB(x) => (true, *x.as_reveal_ref().0.as_reveal_ref(), x.as_reveal_ref().1.as_reveal_ref().iter().copied().collect()),
        })
    }
    fn fingerprint(&self, r: &PairR) -> String {
        let tag = match r { PairR::PH(_) => "Pair<HashSet,Max>", PairR::PB(_) => "Pair<BTreeSet,Max>", PairR::DH(_) => "DomPair<Max,HashSet>", PairR::DB(_) => "DomPair<Max,BTreeSet>" };
        format!("{tag}{:?}", self.alpha(r).unwrap())
    }
    fn describe(&self, op: &Op) -> String {
        let t = ["Pair<SetUnionHashSet,Max>", "Pair<SetUnionBTreeSet,Max>", "DomPair<Max,SetUnionHashSet>", "DomPair<Max,SetUnionBTreeSet>"];
        match op[0] {
            0 if op[2] < 0 => format!("{}::default()", t[op[1] as usize]),
            0 => format!("{}::lattice_from((u8 {}, {} as {}))", t[op[1] as usize], op[2] / 100, show_set(op[2] % 100), OPT_REPR_NAMES[op[3] as usize]),
            1 => format!("merge((u8 {}, {} as {}))", op[1] / 100, show_set(op[1] % 100), OPT_REPR_NAMES[op[2] as usize]),
            _ => format!("lattice_from -> {} set backing", if op[1] == 0 { "HashSet" } else { "BTreeSet" }),
        }
    }
}
