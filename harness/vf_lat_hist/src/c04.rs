//! C04 — explicit-state BFS over operation histories of the real lattice objects with a reference
//! model stepped alongside. Generic driver; the families live in `families.rs` and `uf.rs`.
use std::collections::BTreeSet;
use std::fmt::Debug;
use std::sync::Arc;

use vf_explore::{Stats, Value, catch, json};

use crate::guard::{self, Beat, Outcome};

/// One operation, numerically encoded (kind, a, b, c); the meaning is family specific and is
/// rendered by `Family::describe`. Kind 0 is always an initial-state constructor.
pub type Op = [i64; 4];

pub trait Family: Send + Sync + 'static {
    /// The real object(s) under test (an enum over receiver representations).
    type Recv: Clone;
    /// The boring reference model value.
    type Model: Clone + Ord + Debug + Send + 'static;

    fn name(&self) -> String;
    /// Initial-state constructors (kind 0 ops).
    fn inits(&self) -> Vec<Op>;
    /// The (state independent) alphabet of later operations.
    fn ops(&self) -> Vec<Op>;
    fn init(&self, op: &Op) -> (Self::Recv, Self::Model);
    /// Preconditions of the property statement (e.g. `Point` only merges equal values).
    fn applicable(&self, _m: &Self::Model, _op: &Op) -> bool {
        true
    }
    /// Execute the operation on the REAL object. `Err` = an answer returned by the operation
    /// itself disagreed with the model (e.g. `same(a,b)`).
    fn apply(&self, r: Self::Recv, op: &Op, m: &Self::Model) -> Result<Self::Recv, String>;
    /// Step the reference model.
    fn model(&self, m: &Self::Model, op: &Op) -> Self::Model;
    /// Abstraction of the real object, computed by the harness from the full reveal.
    fn alpha(&self, r: &Self::Recv) -> Result<Self::Model, String>;
    /// Full reveal + representation tag (state fingerprint; nothing observable is dropped).
    fn fingerprint(&self, r: &Self::Recv) -> String;
    /// Additional per-state observations compared with the model (union-find: `same` table).
    fn extra(&self, _r: &Self::Recv, _m: &Self::Model) -> Result<(), String> {
        Ok(())
    }
    /// `false`: execute and check the transition but do not enqueue its successor (used for
    /// deltas whose iteration order is chosen by a randomly seeded hasher, so that the explored
    /// state graph is the same in every run; the same orders are covered by ordered deltas).
    fn expand(&self, _op: &Op) -> bool {
        true
    }
    fn describe(&self, op: &Op) -> String;
    /// A per-state number whose maximum over all distinct reachable states is reported in the
    /// evidence (union-find: longest find path), with its name.
    fn metric(&self, _r: &Self::Recv) -> u64 {
        0
    }
    fn metric_name(&self) -> &'static str {
        "none"
    }
    /// Vacuity guard: the value `max metric` must reach once the state space is closed.
    fn metric_required(&self) -> Option<u64> {
        None
    }
    /// Families that are explored to closure regardless of the tier's history depth.
    fn depth_override(&self) -> Option<usize> {
        None
    }
}

pub fn describe_history<F: Family>(f: &F, h: &[Op]) -> String {
    h.iter().map(|o| f.describe(o)).collect::<Vec<_>>().join(" ; ")
}

/// One checked step of real code + model. Panics of the subject are observations.
pub fn step<F: Family>(f: &F, r: F::Recv, m: &F::Model, op: &Op) -> Result<(F::Recv, F::Model), String> {
    let m2 = f.model(m, op);
    let r2 = match catch(|| f.apply(r, op, m)) {
        Ok(Ok(r2)) => r2,
        Ok(Err(e)) => return Err(e),
        Err(p) => return Err(format!("panic in {}: {p}", f.describe(op))),
    };
    check_state(f, &r2, &m2)?;
    Ok((r2, m2))
}

fn check_state<F: Family>(f: &F, r: &F::Recv, m: &F::Model) -> Result<(), String> {
    match catch(|| f.alpha(r)) {
        Ok(Ok(a)) => {
            if a != *m {
                return Err(format!("alpha(impl) = {a:?} but model = {m:?} (reveal {})", f.fingerprint(r)));
            }
        }
        Ok(Err(e)) => return Err(format!("alpha failed: {e}")),
        Err(p) => return Err(format!("panic while revealing: {p}")),
    }
    match catch(|| f.extra(r, m)) {
        Ok(Ok(())) => Ok(()),
        Ok(Err(e)) => Err(e),
        Err(p) => Err(format!("panic in observation: {p}")),
    }
}

/// Plain re-execution of a history from scratch (used to confirm failures and for `--replay`).
/// Returns the final (fingerprint, model) or the first failing step.
pub fn check_history<F: Family>(f: &F, h: &[Op]) -> Result<(String, String), (usize, String)> {
    let (mut r, mut m) = match catch(|| f.init(&h[0])) {
        Ok(x) => x,
        Err(p) => return Err((0, format!("panic in {}: {p}", f.describe(&h[0])))),
    };
    check_state(f, &r, &m).map_err(|e| (0, e))?;
    for (i, op) in h.iter().enumerate().skip(1) {
        let (r2, m2) = step(f, r, &m, op).map_err(|e| (i, e))?;
        r = r2;
        m = m2;
    }
    Ok((f.fingerprint(&r), format!("{m:?}")))
}

fn rebuild<F: Family>(f: &F, h: &[Op]) -> (F::Recv, F::Model) {
    let (mut r, mut m) = f.init(&h[0]);
    for op in &h[1..] {
        let m2 = f.model(&m, op);
        r = f.apply(r, op, &m).expect("replay of an already validated history failed");
        m = m2;
    }
    (r, m)
}

struct LevelOut<M> {
    st: Stats,
    next: Vec<(Vec<Op>, String, M, u64)>,
    fails: Vec<(Vec<Op>, String)>,
}

fn flat(h: &[Op], op: Option<&Op>) -> Vec<i64> {
    let mut v = Vec::with_capacity(4 * (h.len() + 1));
    for o in h.iter().chain(op) {
        v.extend_from_slice(o);
    }
    v
}

fn unflat(v: &[i64]) -> Vec<Op> {
    v.chunks(4).map(|c| [c[0], c[1], c[2], c[3]]).collect()
}

pub fn history_json(h: &[Op]) -> Value {
    json!(h.iter().map(|o| o.to_vec()).collect::<Vec<_>>())
}

pub fn history_from_json(v: &Value) -> Vec<Op> {
    v.as_array()
        .expect("history array")
        .iter()
        .map(|o| {
            let a: Vec<i64> = o.as_array().unwrap().iter().map(|x| x.as_i64().unwrap()).collect();
            [a[0], a[1], a[2], a[3]]
        })
        .collect()
}

pub struct BfsResult {
    pub st: Stats,
    pub info: Value,
}

fn machinery(msg: String) -> ! {
    println!("MACHINERY-ERROR: {msg}");
    std::process::exit(2);
}

/// Confirm a failing history by re-executing it from scratch under the hang guard; record the
/// violation (or exit 2 if it does not reproduce).
fn confirm<F: Family>(f: &Arc<F>, st: &mut Stats, replay_extra: &Value, h: Vec<Op>, first_msg: String, was_hang: bool) {
    let f2 = f.clone();
    let h2 = h.clone();
    let res = guard::run_one(move || check_history(&*f2, &h2));
    let desc = describe_history(&**f, &h);
    let mut case = replay_extra.clone();
    case["family"] = json!(f.name());
    case["history"] = history_json(&h);
    case["history_text"] = json!(desc);
    match res {
        None => {
            st.violation(
                format!("C04:{}:hang:{}", f.name(), desc),
                format!("{}: real code does not return within the step budget ({:?}) after history [{}]", f.name(), guard::hang_budget(), desc),
                case,
            );
        }
        Some(Err(p)) => machinery(format!("harness panic while confirming [{desc}]: {p}")),
        Some(Ok(Err((i, msg)))) => {
            if was_hang {
                machinery(format!("{}: step budget exceeded once but the history [{desc}] then failed differently: {msg}", f.name()));
            }
            st.violation(
                format!("C04:{}:{}", f.name(), desc),
                format!("{}: after history [{}] (failing step #{i}): {msg}", f.name(), desc),
                case,
            );
        }
        Some(Ok(Ok(_))) => guard::note_flaky(format!(
            "{}: failure did not reproduce for history [{desc}] (first run said: {first_msg}; hang={was_hang})",
            f.name()
        )),
    }
}

/// Level-synchronous BFS to `depth` operations after the initial constructor.
pub fn bfs<F: Family>(f: Arc<F>, depth: usize, threads: usize, replay_extra: Value) -> BfsResult {
    let depth = f.depth_override().unwrap_or(depth);
    let mut max_metric = 0u64;
    let mut st = Stats::new();
    let mut visited: BTreeSet<(String, F::Model)> = BTreeSet::new();
    let mut frontier: Vec<Vec<Op>> = vec![];
    let mut per_level: Vec<usize> = vec![];
    let ops: Arc<Vec<Op>> = Arc::new(f.ops());
    // level 0
    for i in f.inits() {
        st.eval();
        st.transition();
        st.trace();
        match check_history(&*f, &[i]) {
            Ok((fp, _)) => {
                let (r, m) = f.init(&i);
                let a = f.alpha(&r).unwrap();
                st.outcome(&(f.name(), format!("{a:?}")));
                if visited.insert((fp, m)) {
                    st.state();
                    max_metric = max_metric.max(f.metric(&r));
                    frontier.push(vec![i]);
                }
            }
            Err((_, msg)) => {
                // at most two reported cases per family so that every failing family gets a slot
                if st.violations.len() < 2 { confirm(&f, &mut st, &replay_extra, vec![i], msg, false) } else { st.violations_total += 1; }
            }
        }
    }
    per_level.push(frontier.len());
    let mut fixpoint = false;
    let mut reached = 0usize;
    for d in 1..=depth {
        if !st.violations.is_empty() {
            break;
        }
        if frontier.is_empty() {
            fixpoint = true;
            break;
        }
        let fr = Arc::new(std::mem::take(&mut frontier));
        let chunk = fr.len().div_ceil((threads * 4).min(fr.len()).max(1));
        let nshards = fr.len().div_ceil(chunk);
        let (f2, fr2, ops2) = (f.clone(), fr.clone(), ops.clone());
        let work = move |s: usize, beat: &Beat| -> LevelOut<F::Model> {
            let f = &*f2;
            let mut out = LevelOut { st: Stats::new(), next: vec![], fails: vec![] };
            let lo = s * chunk;
            let hi = ((s + 1) * chunk).min(fr2.len());
            for h in &fr2[lo..hi] {
                beat.step(&flat(h, None));
                let (r, m) = rebuild(f, h);
                let fp0 = f.fingerprint(&r);
                for op in ops2.iter() {
                    if !f.applicable(&m, op) {
                        continue;
                    }
                    beat.step(&flat(h, Some(op)));
                    out.st.eval();
                    out.st.transition();
                    out.st.trace();
                    match step(f, r.clone(), &m, op) {
                        Ok((r2, m2)) => {
                            let fp2 = f.fingerprint(&r2);
                            if fp2 != fp0 {
                                // distinct non-trivial case: the operation changed the revealed state
                                out.st.nontrivial(&(f.name(), &fp0, op));
                                out.st.sample(|| json!({"family": f.name(), "history": describe_history(f, h), "op": f.describe(op), "reveal_before": fp0.clone(), "reveal_after": fp2.clone(), "model_after": format!("{m2:?}")}));
                            }
                            out.st.outcome(&(f.name(), format!("{m2:?}")));
                            if f.expand(op) {
                                let mut h2 = h.clone();
                                h2.push(*op);
                                let mt = f.metric(&r2);
                                out.next.push((h2, fp2, m2, mt));
                            }
                        }
                        Err(msg) => {
                            if out.fails.len() < 4 {
                                let mut h2 = h.clone();
                                h2.push(*op);
                                out.fails.push((h2, msg));
                            }
                        }
                    }
                }
            }
            out
        };
        match guard::run(nshards, threads, Arc::new(work)) {
            Outcome::Done(outs) => {
                let mut fails = vec![];
                for o in outs {
                    st.merge(o.st);
                    fails.extend(o.fails);
                    for (h, fp, m, mt) in o.next {
                        if visited.insert((fp, m)) {
                            st.state();
                            max_metric = max_metric.max(mt);
                            frontier.push(h);
                        }
                    }
                }
                for (h, msg) in fails.into_iter().take(2) {
                    confirm(&f, &mut st, &replay_extra, h, msg, false);
                }
            }
            Outcome::Hang { case, .. } => {
                let h = unflat(&case);
                confirm(&f, &mut st, &replay_extra, h, "step budget exceeded".into(), true);
            }
            Outcome::Panic(p) => machinery(format!("{}: harness worker panicked: {p}", f.name())),
        }
        reached = d;
        per_level.push(frontier.len());
    }
    if frontier.is_empty() && st.violations.is_empty() {
        fixpoint = true;
    }
    if let Some(req) = f.metric_required() {
        if st.violations.is_empty() && fixpoint && max_metric != req {
            machinery(format!("{}: vacuity guard: {} reached only {max_metric}, required {req}", f.name(), f.metric_name()));
        }
    }
    let info = json!({
        "family": f.name(),
        "depth_bound": depth,
        "depth_explored": reached,
        "state_space_closed": fixpoint,
        "new_states_per_level": per_level,
        "alphabet": ops.len(),
        "initial_constructors": f.inits().len(),
        "state_metric": f.metric_name(),
        "max_state_metric": max_metric,
    });
    BfsResult { st, info }
}
