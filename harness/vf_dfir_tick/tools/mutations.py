#!/usr/bin/env python3
"""Detection demos for C24/C25/C26: apply ONE named property-breaking change to a SCRATCH copy of the repo
(never to /repo):  tools/scratch.sh new x vf_dfir_tick; mutations.py /tmp/vfs/x/repo <name>; then run the check
in /tmp/vfs/x/verif. Names: sched_swap drain_buf lazy_sched end_tick fold_tick (C24); groups_rev groups_none
fold_early ref_dep (C25; ref_dep makes the generated programs fail to compile); nested_gate root_while no_remap
lazy_entry_gate (C26)."""
import sys, re
root, name = sys.argv[1], sys.argv[2]
MG = root + "/dfir_lang/src/graph/meta_graph.rs"
FP = root + "/dfir_lang/src/graph/flat_to_partitioned.rs"
FOLD = root + "/dfir_lang/src/graph/ops/fold.rs"
def sub(path, old, new, count=1):
    s = open(path).read()
    assert s.count(old) >= 1, (name, "pattern not found", old[:60])
    if count == 1:
        assert s.count(old) == 1, (name, "pattern not unique", s.count(old), old[:60])
    s = s.replace(old, new)
    open(path, "w").write(s)

if name == "sched_swap":      # C24 M1: schedule check looks at the wrong buffer of a defer_tick handoff
    sub(MG, """                        return Some(&entry.0); // back ident
                    }
                }
                Some(&entry.1) // buf ident""", """                        return Some(&entry.1); // back ident
                    }
                }
                Some(&entry.0) // buf ident""")
elif name == "drain_buf":     # C24 M1b: consumer of a defer_tick handoff drains the producer side buffer
    sub(MG, "let drain_ident = if back_edge_hoffs_and_lazyness.contains_key(hoff_id) {",
            "let drain_ident = if false && back_edge_hoffs_and_lazyness.contains_key(hoff_id) {")
elif name == "lazy_sched":    # C24 M2: lazy handoffs also schedule another tick
    sub(MG, """                if matches!(delay_type, DelayType::TickLazy | DelayType::LoopLazy) {
                    return None;
                }
                let span = self.nodes[hoff_id].span();
                let expected_back_ident""", """                let span = self.nodes[hoff_id].span();
                let expected_back_ident""")
elif name == "end_tick":      # C24 M3: __end_tick skipped on ticks without work
    sub(MG, """                    #df.__end_tick();

                    ::std::mem::take(&mut __dfir_work_done)""", """                    if __dfir_work_done {
                        #df.__end_tick();
                    }

                    ::std::mem::take(&mut __dfir_work_done)""")
elif name == "fold_tick":     # C24 M4: fold::<'tick> accumulator is not reset at the end of the tick
    sub(FOLD, """            Persistence::Tick => quote_spanned! {op_span=>
                #[allow(clippy::redundant_closure_call)]
                { #singleton_output_ident = #init; }
            },""", """            Persistence::Tick => Default::default(),""")
elif name == "ref_dep":       # C25 M5: reference consumer no longer depends on the referenced handoff
    sub(FP, """            if let Some(src) = handoff_ref.node_id {
                all_preds.entry(node_id).unwrap().or_default().push(src);""", """            if let Some(src) = handoff_ref.node_id {""")
elif name == "groups_rev":    # C25 M6: access groups ordered in reverse
    sub(FP, "for (group_a, group_b) in groups.values().tuple_windows() {",
            "for (group_a, group_b) in groups.values().rev().tuple_windows() {")
elif name == "groups_none":   # C25 M7: access group order not turned into scheduling constraints
    sub(FP, """    for &(src, dst) in access_group_pairs {
        all_preds.entry(dst).unwrap().or_default().push(src);
    }""", """    for &(_src, _dst) in access_group_pairs {}""")
elif name == "fold_early":    # C25 M5': fold hands out its accumulator before consuming this tick's input
    sub(FOLD, """                #assign_accum_ident

                // Eagerly consume input to ensure updated state.
                {
                    let __fut = #root::dfir_pipes::pull::Pull::for_each(#input, |#item_ident| {
                        #foreach_body
                    });
                    let () = #work_fn_async(__fut).await;
                }

                let #ident = #work_fn(
                    || #root::dfir_pipes::pull::once(
                        ::std::clone::Clone::clone(&*#accumulator_ident)
                    )
                );""", """                #assign_accum_ident

                let #ident = #work_fn(
                    || #root::dfir_pipes::pull::once(
                        ::std::clone::Clone::clone(&*#accumulator_ident)
                    )
                );

                // Eagerly consume input to ensure updated state.
                {
                    let __fut = #root::dfir_pipes::pull::Pull::for_each(#input, |#item_ident| {
                        #foreach_body
                    });
                    let () = #work_fn_async(__fut).await;
                }""")
elif name == "nested_gate":   # C26 M8: nested loop gate ignores loop-delayed data
    sub(MG, """        // Non-lazy defer_tick back-buffers also contribute to the gate (nested loops only).
        if !is_root_loop {""", """        // Non-lazy defer_tick back-buffers also contribute to the gate (nested loops only).
        if false && !is_root_loop {""")
elif name == "root_while":    # C26 M9: root loop emitted as `while`
    sub(MG, """            output.extend(quote! {
                #[allow(clippy::nonminimal_bool, reason = "codegen")]
                if false #( || #gate_checks )* {
                    #child_body
                    #( #swap_code )*
                }
            });""", """            output.extend(quote! {
                #[allow(clippy::nonminimal_bool, reason = "codegen")]
                while false #( || #gate_checks )* {
                    #child_body
                    #( #swap_code )*
                }
            });""")
elif name == "no_remap":      # C26 M10: Tick -> Loop remap dropped for nested loops
    sub(FP, """                if partitioned_graph.loop_parent(loop_id).is_some() {
                    // Nested loop: remap to loop-level delay.""", """                if false && partitioned_graph.loop_parent(loop_id).is_some() {
                    // Nested loop: remap to loop-level delay.""")
elif name == "lazy_entry_gate":  # C26 M11: batch_lazy entries also open the loop gate
    sub(MG, "                !is_lazy\n            })", "                let _ = is_lazy; true\n            })")
else:
    sys.exit("unknown mutation " + name)
print("applied", name)
