//! vf_dfir_tick — engine D' for C24 (ticks & deferred data), C25 (references) and C26 (loops).
//!
//! build.rs turns every program description of `family.rs` into a function holding one
//! `dfir_syntax!{..}`; this binary drives each compiled program with EVERY input history of the
//! stated bound and compares what the program did with the reference interpreter of `family.rs`.
use std::collections::{BTreeMap, HashMap};
use std::sync::Mutex;
use std::time::Instant;

use vf_dfir_tick_rt::ProgEntry;
use vf_dfir_tick_rt::family::*;
use vf_dfir_tick_rt::io::{Ev, Io};
use vf_explore::{Report, Stats, Value, catch, cli, json, ncpu, par_map, quiet_panics};

/// The compiled programs of one family, ordered by family index (shards merged).
fn table(prop: &str) -> Vec<&'static ProgEntry> {
    let mut v: Vec<&'static ProgEntry> = match prop {
        "C24" => vfp_c24_0of3::TABLE.iter().chain(vfp_c24_1of3::TABLE.iter()).chain(vfp_c24_2of3::TABLE.iter()).collect(),
        "C25" => vfp_c25_0of5::TABLE
            .iter()
            .chain(vfp_c25_1of5::TABLE.iter())
            .chain(vfp_c25_2of5::TABLE.iter())
            .chain(vfp_c25_3of5::TABLE.iter())
            .chain(vfp_c25_4of5::TABLE.iter())
            .collect(),
        "C26" => vfp_c26_0of1::TABLE.iter().collect(),
        _ => unreachable!(),
    };
    v.sort_by_key(|e| e.index);
    v
}

// -------------------------------------------------------------------------------------------------
// Running a compiled program under a history
// -------------------------------------------------------------------------------------------------

#[derive(Clone, Debug, Default, PartialEq, Eq, Hash)]
struct Obs {
    ticks_after: Vec<u64>,
    log: Vec<Ev>,
    failure: Option<String>,
}

fn run_real(e: &ProgEntry, h: &History) -> Obs {
    let (io, srcs) = Io::new(e.n_sources);
    let io2 = io.clone();
    let mut obs = Obs::default();
    let mut df = match catch(move || (e.build)(io2, srcs)) {
        Ok(d) => d,
        Err(m) => {
            obs.failure = Some(format!("constructing the program panicked: {m}"));
            return obs;
        }
    };
    if df.current_tick().0 != 0 {
        obs.failure = Some(format!("current_tick() is {} before the first tick", df.current_tick().0));
        return obs;
    }
    for st in h {
        for &(s, x) in &st.sends {
            io.send(s, x);
        }
        io.reset_budget();
        let r = catch(|| {
            if st.avail {
                df.run_available_sync();
            } else {
                df.run_tick_sync();
            }
        });
        if let Err(m) = r {
            obs.failure = Some(m);
            break;
        }
        obs.ticks_after.push(df.current_tick().0);
    }
    obs.log = io.take_log();
    obs
}

fn norm_obs(log: &[Ev]) -> Norm {
    let mut m = Norm::new();
    for ev in log {
        match ev {
            Ev::Item { sink, tick, item } => norm_insert(&mut m, *tick, &RefEv::Item { sink: *sink, item: *item }),
            Ev::Block { sink, tick, items } => norm_insert(&mut m, *tick, &RefEv::Block { sink: *sink, items: items.clone() }),
            Ev::Ref { .. } => {}
        }
    }
    m
}

/// Oracle for Graph programs (C24, C26). Returns (kind, detail) of the first discrepancy.
fn judge_graph(exp: &Expect, obs: &Obs, h: &History) -> Option<(String, String)> {
    if let Some(f) = &obs.failure {
        let kind = if f.contains("TICK-BUDGET") {
            "run-does-not-become-idle"
        } else if f.contains("ITER-BUDGET") {
            "loop-does-not-terminate"
        } else {
            "panic"
        };
        return Some((kind.into(), f.clone()));
    }
    let mut prev = 0u64;
    for (i, st) in h.iter().enumerate() {
        let got = obs.ticks_after[i];
        let want = exp.ticks_after[i];
        if !st.avail && got != prev + 1 {
            return Some((
                "tick-counter".into(),
                format!("step {i}: current_tick() went {prev} -> {got} across one run_tick_sync (must be +1)"),
            ));
        }
        if got != want {
            return Some((
                "ticks-executed".into(),
                format!(
                    "step {i} ({}): executed {} tick(s), reference executes {} (current_tick {} -> {}, expected {})",
                    if st.avail { "run_available_sync" } else { "run_tick_sync" },
                    got - prev,
                    want - prev,
                    prev,
                    got,
                    want
                ),
            ));
        }
        prev = got;
    }
    let ne = norm_expect(exp);
    let no = norm_obs(&obs.log);
    if ne != no {
        let mut keys: Vec<_> = ne.keys().chain(no.keys()).copied().collect();
        keys.sort();
        keys.dedup();
        for k in keys {
            if ne.get(&k) != no.get(&k) {
                return Some((
                    "outputs".into(),
                    format!("tick {} sink {}: expected {:?}, observed {:?}", k.0, k.1, ne.get(&k), no.get(&k)),
                ));
            }
        }
    }
    None
}

/// Oracle for reference programs (C25).
fn judge_ref(p: &C25Prog, exp: &C25Expect, obs: &Obs, h: &History) -> Option<(String, String)> {
    let readers = p.readers();
    if let Some(f) = &obs.failure {
        return Some(("panic".into(), f.clone()));
    }
    for (i, _) in h.iter().enumerate() {
        if obs.ticks_after[i] != i as u64 + 1 {
            return Some(("tick-counter".into(), format!("step {i}: current_tick() = {}", obs.ticks_after[i])));
        }
    }
    // (1) every read / mutation sees the value the reference predicts (settled state, then the
    //     updates of earlier groups), per closure as a sequence.
    let mut got: BTreeMap<usize, Vec<RLog>> = readers.iter().map(|r| (r.id, vec![])).collect();
    let mut pos: Vec<(usize, u64, usize)> = vec![]; // (reader, tick, global position)
    for (i, ev) in obs.log.iter().enumerate() {
        if let Ev::Ref { reader, tick, item, before, after } = ev {
            got.entry(*reader).or_default().push(RLog { reader: *reader, tick: *tick, item: *item, before: *before, after: *after });
            pos.push((*reader, *tick, i));
        }
    }
    // (2) group precedence inside a tick (checked first: it explains value mismatches).
    for a in readers {
        for b in readers {
            if a.group < b.group {
                for t in 0..h.len() as u64 {
                    let last_a = pos.iter().filter(|x| x.0 == a.id && x.1 == t).map(|x| x.2).max();
                    let first_b = pos.iter().filter(|x| x.0 == b.id && x.1 == t).map(|x| x.2).min();
                    if let (Some(la), Some(fb)) = (last_a, first_b) {
                        if la > fb {
                            return Some((
                                "group-order".into(),
                                format!(
                                    "tick {t}: closure {} (group {:?}) still ran after closure {} (group {:?}) had started",
                                    a.id, a.group, b.id, b.group
                                ),
                            ));
                        }
                    }
                }
            }
        }
    }
    for r in readers {
        let e = &exp.readers[&r.id];
        let g = &got[&r.id];
        if e != g {
            let i = e.iter().zip(g.iter()).position(|(x, y)| x != y).unwrap_or(e.len().min(g.len()));
            return Some((
                "observed-value".into(),
                format!("closure {} entry {}: expected {:?}, observed {:?}", r.id, i, e.get(i), g.get(i)),
            ));
        }
    }
    // Slot programs: the pipe consumer of the slot still receives everything (multiset per tick).
    if let Some(cons) = &exp.consumer {
        for (t, want) in cons.iter().enumerate() {
            let mut have: Vec<It> = obs
                .log
                .iter()
                .filter_map(|ev| match ev {
                    Ev::Item { sink: 1, tick, item } if *tick == t as u64 => Some(*item),
                    _ => None,
                })
                .collect();
            have.sort();
            if &have != want {
                return Some(("slot-consumer".into(), format!("tick {t}: the slot's pipe consumer received {have:?}, expected {want:?}")));
            }
        }
    }
    None
}

// -------------------------------------------------------------------------------------------------
// JSON helpers (replay files)
// -------------------------------------------------------------------------------------------------

fn hist_json(h: &History) -> Value {
    Value::Array(
        h.iter()
            .map(|s| {
                json!({"sends": s.sends.iter().map(|(k, x)| json!([k, x.0, x.1])).collect::<Vec<_>>(),
                       "run": if s.avail { "run_available_sync" } else { "run_tick_sync" }})
            })
            .collect(),
    )
}

fn hist_from_json(v: &Value) -> History {
    v.as_array()
        .expect("history array")
        .iter()
        .map(|s| Step {
            sends: s["sends"]
                .as_array()
                .unwrap()
                .iter()
                .map(|t| (t[0].as_u64().unwrap() as usize, (t[1].as_u64().unwrap() as u8, t[2].as_u64().unwrap() as u8)))
                .collect(),
            avail: s["run"].as_str().unwrap() == "run_available_sync",
        })
        .collect()
}

// -------------------------------------------------------------------------------------------------
// Watchdog: a stuck execution becomes a reported violation
// -------------------------------------------------------------------------------------------------

static CURRENT: Mutex<Option<HashMap<std::thread::ThreadId, (String, String, Value, Instant)>>> = Mutex::new(None);

fn note_case(prog: &str, hist: &History) {
    let mut g = CURRENT.lock().unwrap();
    g.get_or_insert_with(HashMap::new)
        .insert(std::thread::current().id(), (prog.to_string(), hist_string(hist), hist_json(hist), Instant::now()));
}

fn clear_case() {
    if let Some(m) = CURRENT.lock().unwrap().as_mut() {
        m.remove(&std::thread::current().id());
    }
}

fn start_watchdog(property: String, tier: String) {
    std::thread::spawn(move || {
        loop {
            std::thread::sleep(std::time::Duration::from_secs(2));
            let stuck = {
                let g = CURRENT.lock().unwrap();
                g.as_ref().and_then(|m| m.values().find(|v| v.3.elapsed().as_secs() > 120).cloned())
            };
            if let Some((prog, hs, hj, _)) = stuck {
                let mut rep = Report::new(&property, &tier, "vf_dfir_tick");
                rep.rule = "watchdog".into();
                rep.explanation = "an execution did not return within 120 s".into();
                let mut st = Stats::new();
                st.eval();
                st.violation(
                    format!("{property}:{prog}:{hs}:hang"),
                    format!("program {prog} under history {hs} did not return within 120 s (hang)"),
                    json!({"prog": prog, "history": hj}),
                );
                rep.section("watchdog", st);
                rep.finish();
            }
        }
    });
}

// -------------------------------------------------------------------------------------------------
// Property drivers
// -------------------------------------------------------------------------------------------------

struct GraphCase<'a> {
    g: &'a Graph,
    e: &'a ProgEntry,
    steps: usize,
    max_items: usize,
    alphabet: Vec<It>,
}

fn check_graph_prog(prop: &str, c: &GraphCase) -> Stats {
    let mut st = Stats::new();
    let mut reported = false;
    let hists = histories(c.steps, c.g.n_sources, c.max_items, &c.alphabet, true);
    for h in &hists {
        note_case(c.e.name, h);
        let exp = match expect_graph(c.g, h) {
            Ok(e) => e,
            Err(Hang(m)) => {
                println!("MACHINERY-ERROR: reference interpreter: {} on {} under {}", m, c.e.name, hist_string(h));
                std::process::exit(2);
            }
        };
        let obs = run_real(c.e, h);
        st.eval();
        let n_ev: usize = exp.per_tick.iter().map(|t| t.len()).sum();
        let extra_ticks = exp.ticks_after.last().copied().unwrap_or(0) as usize > h.len();
        if n_ev > 0 || extra_ticks {
            st.nontrivial(&(c.e.name, hist_string(h)));
        }
        st.outcome(&(obs.ticks_after.clone(), norm_obs(&obs.log), obs.failure.clone()));
        if n_ev >= 4 && extra_ticks {
            st.sample(|| {
                json!({"prog": c.e.name, "history": hist_string(h), "ticks_after_each_step": obs.ticks_after,
                       "observed (tick,sink)->contents": format!("{:?}", norm_obs(&obs.log))})
            });
        }
        if let Some((kind, detail)) = judge_graph(&exp, &obs, h) {
            if reported {
                st.violations_total += 1;
                continue;
            }
            // Re-execute once more before reporting.
            let obs2 = run_real(c.e, h);
            if obs2 != obs {
                println!("MACHINERY-ERROR: {} under {} does not reproduce ({:?} vs {:?})", c.e.name, hist_string(h), obs, obs2);
                std::process::exit(2);
            }
            reported = true;
            st.violation(
                format!("{prop}:{}:{}:{kind}", c.e.name, hist_string(h)),
                format!("program {} under history {} — {kind}: {detail}", c.e.name, hist_string(h)),
                json!({"prog": c.e.name, "history": hist_json(h), "kind": kind, "detail": detail,
                       "dfir": c.e.text, "expected_ticks_after": exp.ticks_after,
                       "expected": format!("{:?}", norm_expect(&exp)),
                       "observed_ticks_after": obs.ticks_after, "observed": format!("{:?}", norm_obs(&obs.log))}),
            );
        }
    }
    clear_case();
    st
}

fn table_check<T>(table: &[&'static ProgEntry], fam: &[T], name: impl Fn(&T) -> String, text: impl Fn(&T) -> String) {
    if table.len() != fam.len() {
        println!("MACHINERY-ERROR: compiled table has {} programs, family has {}", table.len(), fam.len());
        std::process::exit(2);
    }
    let mut names = std::collections::BTreeSet::new();
    for (i, (e, p)) in table.iter().zip(fam).enumerate() {
        if e.index != i || e.name != name(p) || e.text != text(p) {
            println!("MACHINERY-ERROR: compiled program {} differs from its description", e.name);
            std::process::exit(2);
        }
        if !names.insert(e.name) {
            println!("MACHINERY-ERROR: duplicate program name {}", e.name);
            std::process::exit(2);
        }
    }
}

fn alphabet(prop: &str, thorough: bool, countdown: bool) -> Vec<It> {
    match (prop, thorough) {
        ("C24", false) => vec![(0, 1), (1, 2)],
        ("C24", true) => {
            if countdown {
                vec![(0, 1), (1, 2), (1, 0)]
            } else {
                vec![(0, 1), (1, 2), (0, 2)]
            }
        }
        ("C26", false) => vec![(0, 0), (0, 1), (1, 2)],
        ("C26", true) => vec![(0, 0), (0, 1), (1, 2), (1, 3)],
        ("C25", false) => vec![(1, 0), (2, 0)],
        ("C25", true) => vec![(1, 0), (2, 0), (3, 0)],
        _ => unreachable!(),
    }
}

/// (steps, max items for programs with 1 source, max items for programs with more sources).
fn run_graph_property(rep: &mut Report, prop: &str, fam: &[Graph], steps: usize, items_1: usize, items_n: usize) {
    let table = table(prop);
    table_check(&table, fam, |g| g.name.clone(), |g| g.dfir_text());
    let thorough = rep.thorough();
    let mut cases: Vec<GraphCase> = fam
        .iter()
        .zip(&table)
        .map(|(g, e)| GraphCase {
            g,
            e,
            steps,
            max_items: if g.n_sources == 1 { items_1 } else { items_n },
            alphabet: alphabet(prop, thorough, g.alphabet == 1),
        })
        .collect();
    // Largest history spaces first (better balance of the worker threads).
    cases.sort_by_key(|c| std::cmp::Reverse((c.g.n_sources, c.max_items)));
    println!("[vf_dfir_tick] {prop}: {} compiled programs", cases.len());
    let st = par_map(cases.len(), ncpu().min(16), |i| check_graph_prog(prop, &cases[i]));
    rep.bound("programs", cases.len());
    rep.bound("run_calls_per_history", steps);
    rep.bound("max_items_per_history_single_source_programs", items_1);
    rep.bound("max_items_per_history_multi_source_programs", items_n);
    rep.bound("alphabet", format!("{:?}", alphabet(prop, thorough, true)));
    rep.bound("executions", st.evaluations);
    rep.section("programs_x_histories", st);
}

fn check_ref_prog(p: &C25Prog, e: &ProgEntry, hists: &[History]) -> Stats {
    let mut st = Stats::new();
    let mut reported = false;
    for h in hists {
        note_case(e.name, h);
        let exp = p.expect(h);
        let obs = run_real(e, h);
        st.eval();
        if exp.readers.values().any(|v| !v.is_empty()) {
            st.nontrivial(&(e.name, hist_string(h)));
        }
        let refs: Vec<&Ev> = obs.log.iter().filter(|e| matches!(e, Ev::Ref { .. } | Ev::Item { sink: 1, .. })).collect();
        st.outcome(&(refs, obs.failure.clone()));
        if exp.readers.values().map(|v| v.len()).sum::<usize>() >= 3 {
            st.sample(|| json!({"prog": e.name, "history": hist_string(h), "observed_log": format!("{:?}", obs.log)}));
        }
        if let Some((kind, detail)) = judge_ref(p, &exp, &obs, h) {
            if reported {
                st.violations_total += 1;
                continue;
            }
            let obs2 = run_real(e, h);
            if obs2 != obs {
                println!("MACHINERY-ERROR: {} under {} does not reproduce", e.name, hist_string(h));
                std::process::exit(2);
            }
            reported = true;
            st.violation(
                format!("C25:{}:{}:{kind}", e.name, hist_string(h)),
                format!("program {} under history {} — {kind}: {detail}", e.name, hist_string(h)),
                json!({"prog": e.name, "history": hist_json(h), "kind": kind, "detail": detail, "dfir": e.text,
                       "expected": format!("{:?}", exp), "observed": format!("{:?}", obs.log)}),
            );
        }
    }
    clear_case();
    st
}

fn replay(prop: &str, file: &str) -> ! {
    let txt = std::fs::read_to_string(file).expect("cannot read replay file");
    let v: Value = vf_explore::serde_json::from_str(&txt).expect("replay file is not JSON");
    let case = &v["case"];
    let name = case["prog"].as_str().expect("case.prog");
    let h = hist_from_json(&case["history"]);
    println!("replaying {name} under {}", hist_string(&h));
    let verdict = match prop {
        "C24" | "C26" => {
            let fam = if prop == "C24" { family_c24() } else { family_c26() };
            let table = table(prop);
            let i = table.iter().position(|e| e.name == name).expect("unknown program");
            println!("{}", table[i].text);
            let exp = expect_graph(&fam[i], &h).expect("reference hang");
            let obs = run_real(table[i], &h);
            println!("expected ticks after each step: {:?}\nexpected: {:?}", exp.ticks_after, norm_expect(&exp));
            println!("observed ticks after each step: {:?}\nobserved: {:?}\nfailure: {:?}", obs.ticks_after, norm_obs(&obs.log), obs.failure);
            judge_graph(&exp, &obs, &h)
        }
        "C25" => {
            let fam = family_c25_all();
            let table = table("C25");
            let i = table.iter().position(|e| e.name == name).expect("unknown program");
            println!("{}", table[i].text);
            let exp = fam[i].expect(&h);
            let obs = run_real(table[i], &h);
            println!("expected: {:?}\nobserved: {:?}", exp, obs.log);
            judge_ref(&fam[i], &exp, &obs, &h)
        }
        _ => unreachable!(),
    };
    match verdict {
        Some((k, d)) => {
            println!("still violates — {k}: {d}");
            std::process::exit(1)
        }
        None => {
            println!("no violation on replay");
            std::process::exit(0)
        }
    }
}

fn main() {
    let cli = cli();
    quiet_panics();
    let prop = cli.property.clone();
    if !["C24", "C25", "C26"].contains(&prop.as_str()) {
        eprintln!("vf_dfir_tick serves C24, C25, C26");
        std::process::exit(2);
    }
    if let Some(f) = &cli.replay {
        replay(&prop, f);
    }
    start_watchdog(prop.clone(), cli.tier.clone());
    let mut rep = Report::new(&prop, &cli.tier, "vf_dfir_tick");
    let thorough = rep.thorough();
    rep.assume("reference interpreter (family.rs) transcribes the operators' documented per-tick semantics (DESIGN Appendix A)");
    rep.assume("programs are a bounded-exhaustive family over a small operator grammar, not all DFIR programs");
    rep.assume("rustc/LLVM compile the generated programs faithfully; dfir_rs::util::unbounded_channel (tokio) delivers in FIFO order and wakes the registered waker on send");
    match prop.as_str() {
        "C24" => {
            rep.rule = "case = (compiled program, history); history = 4 (thorough: 5) run calls, each run_tick_sync or run_available_sync (all 2^n vectors), preceded by sends; all placements of <= N items (order inside a slot significant). Non-trivial: the reference produces >= 1 sink event or more ticks than run calls.".into();
            rep.explanation = "current_tick() after every run call, number of ticks executed by run_available_sync, and the per-(tick,sink) multiset of items logged by the program's sinks (tick read from context.current_tick()) are compared with a tick-synchronous reference interpreter: defer_tick/defer_tick_lazy deliver exactly one tick later, non-lazy pending data or a send into the own input channel demands another tick, lazy data does not, 'tick state is reset per tick and 'static state kept.".into();
            rep.assume("stateful operators downstream of union/join use order-insensitive functions; sink contents are compared as multisets per tick");
            rep.assume("join::<'static> re-emits the whole join every tick (Appendix A)");
            let (steps, i1, i2) = if thorough { (5, 3, 3) } else { (4, 3, 3) };
            let fam = family_c24();
            run_graph_property(&mut rep, "C24", &fam, steps, i1, i2);
        }
        "C26" => {
            rep.rule = "case = (compiled program with loop blocks, history of 3 (thorough: 4) run calls x all tick/available vectors, <= N countdown items). Non-trivial: >= 1 sink event or extra ticks.".into();
            rep.explanation = "Sinks inside loop bodies log one block per execution of the body (heartbeat: a unit fold emits once per subgraph run), sinks after all_iterations log per tick. Per (tick,sink): the SEQUENCE of per-iteration blocks (each a multiset) must equal the reference interpreter's explicit iteration semantics: a root loop body runs at most once per tick and only if a non-lazy entry or non-lazy tick-deferred data is present; a nested loop re-runs while a non-lazy entry buffer or non-lazy loop-deferred data is non-empty; defer_tick(_lazy) inside a nested loop delays by exactly one iteration; batch/batch_lazy release their input to the iteration that drains the entry buffer, lazy input is dropped if the loop does not fire.".into();
            rep.assume("fold emits exactly one value per execution of its subgraph (used as the per-iteration heartbeat of block sinks)");
            rep.assume("batch hands its whole pending input to the first iteration of an activation (the operator doc only promises order-preserving splitting into batches)");
            let (steps, i1, i2) = if thorough { (4, 4, 3) } else { (3, 3, 3) };
            let fam = family_c26();
            run_graph_property(&mut rep, "C26", &fam, steps, i1, i2);
        }
        "C25" => {
            rep.rule = "case = (compiled program with one state and 1-3 referencing closures, history of run_tick_sync calls with all placements of <= N items over all sources). Non-trivial: >= 1 closure invocation expected.".into();
            rep.explanation = "Every referencing closure logs (closure, tick, item, value seen, value left). Per closure the log sequence must equal the reference: the state value after ALL same-tick producers ran, then the fixed non-commutative updates (v*2+item) of all closures in lower access groups. In the global log, within a tick, every entry of a lower group precedes every entry of a higher group on the same state.".into();
            rep.assume("'group declared later' is read as 'higher access-group number #{N}'; the textual declaration order of the closures is permuted and must not matter");
            rep.assume("slot programs (c25_slotref_*): a handoff()/optional()/singleton() slot with one pipe consumer and 2-3 shared `#slot` readers in all statement orders; every reader must observe the slot's full same-tick contents (never the drained slot) and the consumer must still receive everything");
            rep.assume("mutating closures are only used on 'tick states (persistence of a mutation made through a reference into the next tick of a 'static state is not specified)");
            let fam = family_c25_all();
            let table = table("C25");
            table_check(&table, &fam, |p| p.name(), |p| p.dfir_text());
            let (steps, items) = if thorough { (3, 4) } else { (3, 3) };
            let alpha = alphabet("C25", thorough, false);
            let mut order: Vec<usize> = (0..fam.len()).collect();
            order.sort_by_key(|&i| std::cmp::Reverse(fam[i].n_sources()));
            println!("[vf_dfir_tick] C25: {} compiled programs", fam.len());
            let st = par_map(order.len(), ncpu().min(16), |k| {
                let i = order[k];
                let hs = histories(steps, fam[i].n_sources(), items, &alpha, false);
                check_ref_prog(&fam[i], table[i], &hs)
            });
            rep.bound("programs", fam.len());
            rep.bound("ticks_per_history", steps);
            rep.bound("max_items_per_history", items);
            rep.bound("alphabet", format!("{:?}", alpha));
            rep.bound("executions", st.evaluations);
            rep.section("programs_x_histories", st);
        }
        _ => unreachable!(),
    }
    rep.finish();
}
