use std::cell::RefCell;
use std::rc::Rc;
use dfir_rs::dfir_syntax;
use dfir_rs::scheduled::context::DfirErased;

type It = (u8, u8);
#[derive(Debug, Clone)]
enum Ev { Item(u8, u64, It), Block(u8, u64, Vec<It>) }

fn p1() -> (DfirErased, dfir_rs::tokio::sync::mpsc::UnboundedSender<It>, Rc<RefCell<Vec<Ev>>>) {
    let (tx, rx) = dfir_rs::util::unbounded_channel::<It>();
    let log = Rc::new(RefCell::new(Vec::new()));
    let l0 = log.clone();
    let l1 = log.clone();
    let b1 = Rc::new(RefCell::new(Vec::<It>::new()));
    let b1a = b1.clone();
    let l2 = log.clone();
    let df = dfir_syntax! {
        n0 = source_stream(rx);
        n1 = tee();
        n0 -> n1;
        n2 = for_each(|x: It| l0.borrow_mut().push(Ev::Item(0, context.current_tick().0, x)));
        n1 -> n2;
        loop {
            n3 = batch();
            n1 -> n3;
            n4 = identity();
            n3 -> n4;
            loop {
                n5 = batch();
                n4 -> n5;
                n6 = union();
                n7 = tee();
                n5 -> n6;
                n6 -> n7;
                n8 = filter(|x: &It| x.1 > 0);
                n9 = map(|x: It| (x.0, x.1 - 1));
                n10 = defer_tick();
                n7 -> n8; n8 -> n9; n9 -> n10; n10 -> n6;
                n11 = inspect(|x: &It| b1.borrow_mut().push(*x));
                n12 = fold::<'tick>(|| (), |_: &mut (), _: It| ());
                n13 = for_each(|_: ()| l1.borrow_mut().push(Ev::Block(1, context.current_tick().0, std::mem::take(&mut *b1a.borrow_mut()))));
                n7 -> n11; n11 -> n12; n12 -> n13;
                n7 -> n14;
            };
            n14 = all_iterations();
            n15 = for_each(|x: It| l2.borrow_mut().push(Ev::Item(2, context.current_tick().0, x)));
            n14 -> n15;
        };
    };
    (df.into_erased(), tx, log)
}

fn main() {
    let (mut df, tx, log) = p1();
    tx.send((1, 2)).unwrap();
    tx.send((2, 0)).unwrap();
    df.run_tick_sync();
    println!("{:?} tick={}", log.borrow(), df.current_tick().0);
    log.borrow_mut().clear();
    df.run_tick_sync();
    println!("{:?} tick={}", log.borrow(), df.current_tick().0);
    tx.send((3, 1)).unwrap();
    df.run_available_sync();
    println!("{:?} tick={}", log.borrow(), df.current_tick().0);
}
