//! One shard of generated DFIR programs (see build.rs).
use dfir_rs::dfir_syntax;
use vf_dfir_tick_rt::family::It;
use vf_dfir_tick_rt::io::{Io, Src};
use vf_dfir_tick_rt::{DfirErased, ProgEntry};

include!(concat!(env!("OUT_DIR"), "/progs.rs"));
