// Generates one Rust function per program of this shard (each containing one `dfir_syntax!`
// invocation) plus the lookup table, into OUT_DIR/progs.rs. The shard is named by the package:
// vfp_<family>_<k>of<n> holds the programs with index % n == k of that family.
#[path = "../../rt/src/family.rs"]
mod family;

use std::fmt::Write;

fn main() {
    println!("cargo:rerun-if-changed=build.rs");
    println!("cargo:rerun-if-changed=../../rt/src/family.rs");
    let out_dir = std::env::var("OUT_DIR").unwrap();
    let pkg = std::env::var("CARGO_PKG_NAME").unwrap();
    let parts: Vec<&str> = pkg.split('_').collect(); // ["vfp", "c24", "0of2"]
    let fam = parts[1];
    let (k, n) = parts[2].split_once("of").unwrap();
    let (k, n): (usize, usize) = (k.parse().unwrap(), n.parse().unwrap());
    // (name, text, n_sources)
    let progs: Vec<(String, String, usize)> = match fam {
        "c24" => family::family_c24().iter().map(|g| (g.name.clone(), g.dfir_text(), g.n_sources)).collect(),
        "c25" => family::family_c25_all().iter().map(|p| (p.name(), p.dfir_text(), p.n_sources())).collect(),
        "c26" => family::family_c26().iter().map(|g| (g.name.clone(), g.dfir_text(), g.n_sources)).collect(),
        _ => panic!("unknown family {fam}"),
    };
    let mut code = String::new();
    let mut table = String::new();
    writeln!(table, "pub static TABLE: &[ProgEntry] = &[").unwrap();
    for (i, (name, text, nsrc)) in progs.iter().enumerate() {
        if i % n != k {
            continue;
        }
        let f = format!("p_{i:03}");
        code.push_str(&family::fn_text(&f, *nsrc, text));
        writeln!(table, "    ProgEntry {{ index: {i}, name: {name:?}, text: r####\"{text}\"####, n_sources: {nsrc}, build: {f} }},").unwrap();
    }
    writeln!(table, "];").unwrap();
    code.push_str(&table);
    std::fs::write(format!("{out_dir}/progs.rs"), code).unwrap();
}
