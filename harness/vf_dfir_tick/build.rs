// Generates one Rust function per program of the C24 / C25 / C26 families (each containing one
// `dfir_syntax!` invocation) plus the lookup tables, into OUT_DIR/progs.rs.
#[path = "src/family.rs"]
mod family;

use std::fmt::Write;

fn main() {
    println!("cargo:rerun-if-changed=build.rs");
    println!("cargo:rerun-if-changed=src/family.rs");
    let out_dir = std::env::var("OUT_DIR").unwrap();
    let mut code = String::new();
    let table = |code: &mut String, tname: &str, rows: &[(String, String, String, usize)]| {
        writeln!(code, "pub static {tname}: &[ProgEntry] = &[").unwrap();
        for (name, f, text, nsrc) in rows {
            writeln!(code, "    ProgEntry {{ name: {name:?}, text: r####\"{text}\"####, n_sources: {nsrc}, build: {f} }},").unwrap();
        }
        writeln!(code, "];\n").unwrap();
    };
    let mut rows = vec![];
    for (i, g) in family::family_c24().iter().enumerate() {
        let f = format!("p24_{i:03}");
        let text = g.dfir_text();
        code.push_str(&family::fn_text(&f, g.n_sources, &text));
        rows.push((g.name.clone(), f, text, g.n_sources));
    }
    table(&mut code, "TABLE_C24", &rows);
    let mut rows = vec![];
    for (i, p) in family::family_c25().iter().enumerate() {
        let f = format!("p25_{i:03}");
        let text = p.dfir_text();
        code.push_str(&family::fn_text(&f, p.n_sources(), &text));
        rows.push((p.name.clone(), f, text, p.n_sources()));
    }
    table(&mut code, "TABLE_C25", &rows);
    let mut rows = vec![];
    for (i, g) in family::family_c26().iter().enumerate() {
        let f = format!("p26_{i:03}");
        let text = g.dfir_text();
        code.push_str(&family::fn_text(&f, g.n_sources, &text));
        rows.push((g.name.clone(), f, text, g.n_sources));
    }
    table(&mut code, "TABLE_C26", &rows);
    std::fs::write(format!("{out_dir}/progs.rs"), code).unwrap();
}
