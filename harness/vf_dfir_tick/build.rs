fn main() {
    println!("cargo:rerun-if-changed=build.rs");
}
