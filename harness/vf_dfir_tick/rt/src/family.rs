// Program families for C24 / C25 / C26: typed program descriptions, a printer to DFIR surface
// syntax and the reference interpreters (tick-synchronous semantics, DESIGN Appendix A).
//
// This file is compiled twice: by build.rs (to print one Rust function per program into OUT_DIR)
// and by the binary (to interpret the very same program descriptions). It must not depend on
// anything outside std.
#![allow(dead_code)]

use std::collections::{BTreeMap, BTreeSet};

/// Item type flowing through every generated program: (id / key, value / countdown).
pub type It = (u8, u8);

pub const ITER_BUDGET: usize = 12; // loop iterations per tick per sink (a hang becomes a violation)
pub const TICK_BUDGET: usize = 24; // ticks per driver step (run_available must stop)

// =================================================================================================
// Graph IR (C24, C26)
// =================================================================================================

#[derive(Clone, Debug, PartialEq, Eq)]
pub enum Op {
    Source(usize),
    Tee,
    Union,
    Identity,
    Handoff,
    MapDec,
    MapId,
    FilterPos,
    DeferTick,
    DeferTickLazy,
    Fold(bool),
    Reduce(bool),
    Unique(bool),
    Enumerate(bool),
    Join(bool, bool),
    AntiJoin(bool, bool),
    Batch,
    BatchLazy,
    AllIterations,
    Sink(usize),
    BlockSink(usize),
    Echo(usize),
}

#[derive(Clone, Debug)]
pub struct Node {
    pub op: Op,
    /// Predecessors in port order.
    pub ins: Vec<usize>,
    /// Loop context: 0 = root, otherwise index into `Graph::loops`.
    pub lp: usize,
}

#[derive(Clone, Debug)]
pub struct Graph {
    pub name: String,
    pub nodes: Vec<Node>,
    /// `loops[l]` = parent context of loop `l` (0 = root). Index 0 is the root itself (unused).
    pub loops: Vec<usize>,
    pub n_sources: usize,
    /// Item alphabet used by the driver for this program: 0 = plain, 1 = countdown.
    pub alphabet: u8,
}

pub struct GB {
    pub g: Graph,
}

fn pers(st: bool) -> &'static str {
    if st { "'static" } else { "'tick" }
}

impl GB {
    pub fn new(name: &str, n_sources: usize, alphabet: u8) -> GB {
        GB { g: Graph { name: name.to_string(), nodes: vec![], loops: vec![0], n_sources, alphabet } }
    }
    pub fn lp(&mut self, parent: usize) -> usize {
        self.g.loops.push(parent);
        self.g.loops.len() - 1
    }
    pub fn add(&mut self, lp: usize, op: Op, ins: &[usize]) -> usize {
        self.g.nodes.push(Node { op, ins: ins.to_vec(), lp });
        self.g.nodes.len() - 1
    }
    pub fn connect(&mut self, from: usize, to: usize) {
        self.g.nodes[to].ins.push(from);
    }
    /// Chain of defers: `lazy[i]` selects defer_tick_lazy.
    pub fn defers(&mut self, lp: usize, mut from: usize, lazy: &[bool]) -> usize {
        for &l in lazy {
            from = self.add(lp, if l { Op::DeferTickLazy } else { Op::DeferTick }, &[from]);
        }
        from
    }
    pub fn done(self) -> Graph {
        self.g
    }
}

pub fn mask_bits(mask: usize, k: usize) -> Vec<bool> {
    (0..k).map(|i| mask >> i & 1 == 1).collect()
}
pub fn lazy_name(l: &[bool]) -> String {
    l.iter().map(|&b| if b { 'L' } else { 'T' }).collect()
}

impl Graph {
    fn op_text(&self, i: usize) -> String {
        match &self.nodes[i].op {
            Op::Source(k) => format!("source_stream(rx{k})"),
            Op::Tee => "tee()".into(),
            Op::Union => "union()".into(),
            Op::Identity => "identity::<It>()".into(),
            Op::Handoff => "handoff()".into(),
            Op::MapDec => "map(|x: It| (x.0, x.1 - 1))".into(),
            Op::MapId => "map(|x: It| (x.0, x.1))".into(),
            Op::FilterPos => "filter(|x: &It| x.1 > 0)".into(),
            Op::DeferTick => "defer_tick()".into(),
            Op::DeferTickLazy => "defer_tick_lazy()".into(),
            Op::Fold(st) => format!(
                "fold::<{}>(|| (0u8, 0u8), |a: &mut It, x: It| {{ a.0 = a.0.wrapping_add(1); a.1 = a.1.wrapping_add(x.0 * 4 + x.1 + 1); }})",
                pers(*st)
            ),
            Op::Reduce(st) => format!(
                "reduce::<{}>(|a: &mut It, x: It| {{ a.0 = a.0.max(x.0); a.1 = a.1.wrapping_add(x.1); }})",
                pers(*st)
            ),
            Op::Unique(st) => format!("unique::<{}>()", pers(*st)),
            Op::Enumerate(st) => format!(
                "enumerate::<{}>() -> map(|(i, x): (usize, It)| (i as u8, x.0 * 4 + x.1))",
                pers(*st)
            ),
            Op::Join(l, r) => format!(
                "join::<{}, {}>() -> map(|(k, (a, b)): (u8, (u8, u8))| (k, a * 4 + b))",
                pers(*l),
                pers(*r)
            ),
            Op::AntiJoin(p, n) => format!("anti_join::<{}, {}>()", pers(*p), pers(*n)),
            Op::Batch => "batch()".into(),
            Op::BatchLazy => "batch_lazy()".into(),
            Op::AllIterations => "all_iterations()".into(),
            Op::Sink(k) => format!("for_each(|x: It| io.item({k}, context.current_tick().0, x))"),
            Op::BlockSink(k) => format!(
                "inspect(|x: &It| io.blk_push({k}, *x)) -> fold::<'tick>(|| (), |_: &mut (), _: It| ()) -> for_each(|_: ()| io.blk_end({k}, context.current_tick().0))"
            ),
            Op::Echo(k) => format!("for_each(|x: It| io.echo({k}, x))"),
        }
    }

    fn edge_text(&self, from: usize, to: usize, port: usize) -> String {
        match &self.nodes[to].op {
            Op::Join(..) => format!("n{from} -> [{port}]n{to};"),
            Op::AntiJoin(..) => {
                if port == 0 {
                    format!("n{from} -> [pos]n{to};")
                } else {
                    format!("n{from} -> map(|x: It| x.0) -> [neg]n{to};")
                }
            }
            _ => format!("n{from} -> n{to};"),
        }
    }

    /// Smallest node index inside loop `l` (including nested loops).
    fn loop_key(&self, l: usize) -> usize {
        let mut best = usize::MAX;
        for (i, n) in self.nodes.iter().enumerate() {
            let mut c = n.lp;
            while c != 0 {
                if c == l {
                    best = best.min(i);
                    break;
                }
                c = self.loops[c];
            }
        }
        best
    }

    /// Statements of context `ctx` in node-creation order: every node is followed by its input
    /// edges, and a child `loop {}` block is written where its first node was created (so the
    /// order of operators, edges and therefore handoffs in the compiled graph follows the order in
    /// which the family code builds the program).
    fn print_ctx(&self, ctx: usize, indent: usize, out: &mut String) {
        let pad = "    ".repeat(indent);
        // (key, is_loop, id)
        let mut items: Vec<(usize, bool, usize)> = vec![];
        for (i, n) in self.nodes.iter().enumerate() {
            if n.lp == ctx {
                items.push((i, false, i));
            }
        }
        for l in 1..self.loops.len() {
            if self.loops[l] == ctx {
                items.push((self.loop_key(l), true, l));
            }
        }
        items.sort();
        for (_, is_loop, id) in items {
            if is_loop {
                out.push_str(&format!("{pad}loop {{\n"));
                self.print_ctx(id, indent + 1, out);
                out.push_str(&format!("{pad}}};\n"));
            } else {
                out.push_str(&format!("{pad}n{id} = {};\n", self.op_text(id)));
                for (port, &p) in self.nodes[id].ins.iter().enumerate() {
                    out.push_str(&format!("{pad}{}\n", self.edge_text(p, id, port)));
                }
            }
        }
    }

    /// The body of the `dfir_syntax!` invocation.
    pub fn dfir_text(&self) -> String {
        let mut s = String::new();
        self.print_ctx(0, 2, &mut s);
        s
    }

    pub fn sinks(&self) -> Vec<(usize, bool)> {
        let mut v = vec![];
        for n in &self.nodes {
            match n.op {
                Op::Sink(k) => v.push((k, false)),
                Op::BlockSink(k) => v.push((k, true)),
                _ => {}
            }
        }
        v.sort();
        v
    }
}

// -------------------------------------------------------------------------------------------------
// Reference interpreter for Graph programs
// -------------------------------------------------------------------------------------------------

#[derive(Clone, Debug, PartialEq, Eq, PartialOrd, Ord, Hash)]
pub enum RefEv {
    Item { sink: usize, item: It },
    Block { sink: usize, items: Vec<It> },
}

#[derive(Clone, Copy, PartialEq, Eq, Debug)]
enum Unit {
    Node(usize),
    Loop(usize),
}

#[derive(Clone, Default)]
struct NState {
    acc: It,
    racc: Option<It>,
    seen: BTreeSet<It>,
    count: usize,
    l: BTreeSet<It>,
    r: BTreeSet<It>,
    pos: Vec<It>,
    neg: BTreeSet<u8>,
    back: Vec<It>,
}

pub struct Interp<'a> {
    g: &'a Graph,
    orders: Vec<Vec<Unit>>,
    st: Vec<NState>,
    vals: Vec<Vec<It>>,
    pending: Vec<Vec<It>>,
    iter_accum: Vec<Vec<It>>,
    feeds_alliter: Vec<bool>,
    inputs: Vec<Vec<It>>,
    echo_q: Vec<Vec<It>>,
    events: Vec<RefEv>,
    wants_more: bool,
    pub tick: u64,
}

#[derive(Debug, Clone, PartialEq, Eq)]
pub struct Hang(pub String);

impl<'a> Interp<'a> {
    pub fn new(g: &'a Graph) -> Interp<'a> {
        let nctx = g.loops.len();
        let mut orders = vec![];
        for ctx in 0..nctx {
            orders.push(Self::order(g, ctx));
        }
        let mut feeds = vec![false; g.nodes.len()];
        for n in &g.nodes {
            if n.op == Op::AllIterations {
                feeds[n.ins[0]] = true;
            }
        }
        Interp {
            g,
            orders,
            st: vec![NState::default(); g.nodes.len()],
            vals: vec![vec![]; g.nodes.len()],
            pending: vec![vec![]; g.nodes.len()],
            iter_accum: vec![vec![]; g.nodes.len()],
            feeds_alliter: feeds,
            inputs: vec![vec![]; g.n_sources],
            echo_q: vec![vec![]; g.n_sources],
            events: vec![],
            wants_more: false,
            tick: 0,
        }
    }

    fn is_defer(op: &Op) -> bool {
        matches!(op, Op::DeferTick | Op::DeferTickLazy)
    }

    /// The unit of context `ctx` that contains node `n` (None if `n` is outside `ctx`).
    fn unit_of(g: &Graph, ctx: usize, n: usize) -> Option<Unit> {
        let mut l = g.nodes[n].lp;
        if l == ctx {
            return Some(Unit::Node(n));
        }
        while l != 0 {
            if g.loops[l] == ctx {
                return Some(Unit::Loop(l));
            }
            l = g.loops[l];
        }
        None
    }

    fn order(g: &Graph, ctx: usize) -> Vec<Unit> {
        let mut units: Vec<Unit> = vec![];
        for (i, n) in g.nodes.iter().enumerate() {
            if n.lp == ctx {
                units.push(Unit::Node(i));
            }
        }
        for l in 1..g.loops.len() {
            if g.loops[l] == ctx {
                units.push(Unit::Loop(l));
            }
        }
        let mut deps: Vec<(Unit, Unit)> = vec![];
        for (i, n) in g.nodes.iter().enumerate() {
            if Self::is_defer(&n.op) {
                continue; // delayed edge: no same-execution dependency
            }
            let Some(ui) = Self::unit_of(g, ctx, i) else { continue };
            for &p in &n.ins {
                if let Some(up) = Self::unit_of(g, ctx, p) {
                    if up != ui {
                        deps.push((up, ui));
                    }
                }
            }
        }
        let mut out = vec![];
        let mut left = units;
        while !left.is_empty() {
            let pos = left
                .iter()
                .position(|u| !deps.iter().any(|(a, b)| b == u && left.contains(a)))
                .expect("reference interpreter: same-execution cycle in program description");
            out.push(left.remove(pos));
        }
        out
    }

    fn eval(&mut self, i: usize) -> Vec<It> {
        let g: &'a Graph = self.g;
        let n = &g.nodes[i];
        let input = |s: &Self, port: usize| -> Vec<It> { s.vals[n.ins[port]].clone() };
        match &n.op {
            Op::Source(k) => std::mem::take(&mut self.inputs[*k]),
            Op::Tee | Op::Identity | Op::Handoff | Op::MapId => input(self, 0),
            Op::Union => {
                let mut v = vec![];
                for p in 0..n.ins.len() {
                    v.extend(input(self, p));
                }
                v
            }
            Op::MapDec => input(self, 0).into_iter().map(|x| (x.0, x.1 - 1)).collect(),
            Op::FilterPos => input(self, 0).into_iter().filter(|x| x.1 > 0).collect(),
            Op::DeferTick | Op::DeferTickLazy => std::mem::take(&mut self.st[i].back),
            Op::Fold(st) => {
                let mut a = if *st { self.st[i].acc } else { (0, 0) };
                for x in input(self, 0) {
                    a.0 = a.0.wrapping_add(1);
                    a.1 = a.1.wrapping_add(x.0 * 4 + x.1 + 1);
                }
                self.st[i].acc = a;
                vec![a]
            }
            Op::Reduce(st) => {
                let mut a = if *st { self.st[i].racc } else { None };
                for x in input(self, 0) {
                    a = Some(match a {
                        None => x,
                        Some(a) => (a.0.max(x.0), a.1.wrapping_add(x.1)),
                    });
                }
                self.st[i].racc = a;
                a.into_iter().collect()
            }
            Op::Unique(st) => {
                let mut seen = if *st { std::mem::take(&mut self.st[i].seen) } else { BTreeSet::new() };
                let mut out = vec![];
                for x in input(self, 0) {
                    if seen.insert(x) {
                        out.push(x);
                    }
                }
                self.st[i].seen = seen;
                out
            }
            Op::Enumerate(st) => {
                let mut c = if *st { self.st[i].count } else { 0 };
                let mut out = vec![];
                for x in input(self, 0) {
                    out.push((c as u8, x.0 * 4 + x.1));
                    c += 1;
                }
                self.st[i].count = c;
                out
            }
            Op::Join(l, r) => {
                let mut ls = if *l { std::mem::take(&mut self.st[i].l) } else { BTreeSet::new() };
                let mut rs = if *r { std::mem::take(&mut self.st[i].r) } else { BTreeSet::new() };
                ls.extend(input(self, 0));
                rs.extend(input(self, 1));
                let mut out = vec![];
                for a in &ls {
                    for b in &rs {
                        if a.0 == b.0 {
                            out.push((a.0, a.1 * 4 + b.1));
                        }
                    }
                }
                self.st[i].l = ls;
                self.st[i].r = rs;
                out
            }
            Op::AntiJoin(p, ng) => {
                let mut pos = if *p { std::mem::take(&mut self.st[i].pos) } else { vec![] };
                let mut neg = if *ng { std::mem::take(&mut self.st[i].neg) } else { BTreeSet::new() };
                pos.extend(input(self, 0));
                neg.extend(input(self, 1).into_iter().map(|x| x.0));
                let out = pos.iter().copied().filter(|x| !neg.contains(&x.0)).collect();
                self.st[i].pos = pos;
                self.st[i].neg = neg;
                out
            }
            Op::Batch | Op::BatchLazy => std::mem::take(&mut self.pending[i]),
            Op::AllIterations => std::mem::take(&mut self.iter_accum[n.ins[0]]),
            Op::Sink(k) => {
                for x in input(self, 0) {
                    self.events.push(RefEv::Item { sink: *k, item: x });
                }
                vec![]
            }
            Op::BlockSink(k) => {
                let mut items = input(self, 0);
                items.sort();
                self.events.push(RefEv::Block { sink: *k, items });
                vec![]
            }
            Op::Echo(k) => {
                let items = input(self, 0);
                if !items.is_empty() {
                    // A send into the program's own input channel while the tick runs: the
                    // registered waker fires, i.e. an external wake-up is pending afterwards.
                    self.wants_more = true;
                }
                self.echo_q[*k].extend(items);
                vec![]
            }
        }
    }

    /// One execution of the body of `ctx`.
    fn exec_ctx(&mut self, ctx: usize) -> Result<(), Hang> {
        let order = self.orders[ctx].clone();
        for u in order {
            match u {
                Unit::Node(i) => {
                    let v = self.eval(i);
                    self.vals[i] = v;
                }
                Unit::Loop(l) => self.run_loop(l)?,
            }
        }
        // End of this execution: data handed to a defer is what it releases in the NEXT execution
        // of its context. Non-lazy pending data at tick level asks for another tick.
        let g: &'a Graph = self.g;
        for i in 0..g.nodes.len() {
            let n = &g.nodes[i];
            if n.lp == ctx && Self::is_defer(&n.op) {
                let got = self.vals[n.ins[0]].clone();
                let tick_level = ctx == 0 || g.loops[ctx] == 0;
                if tick_level && n.op == Op::DeferTick && !got.is_empty() {
                    self.wants_more = true;
                }
                self.st[i].back = got;
            }
            if n.lp == ctx && self.feeds_alliter[i] {
                let v = self.vals[i].clone();
                self.iter_accum[i].extend(v);
            }
        }
        Ok(())
    }

    fn run_loop(&mut self, l: usize) -> Result<(), Hang> {
        let g = self.g;
        let is_root_loop = g.loops[l] == 0;
        for (i, n) in g.nodes.iter().enumerate() {
            if n.lp == l && matches!(n.op, Op::Batch | Op::BatchLazy) {
                self.pending[i] = self.vals[n.ins[0]].clone();
            }
        }
        let mut iters = 0;
        loop {
            let mut gate = false;
            for (i, n) in g.nodes.iter().enumerate() {
                if n.lp != l {
                    continue;
                }
                if n.op == Op::Batch && !self.pending[i].is_empty() {
                    gate = true;
                }
                if n.op == Op::DeferTick && !self.st[i].back.is_empty() {
                    gate = true;
                }
            }
            if !gate {
                break;
            }
            iters += 1;
            if iters > ITER_BUDGET {
                return Err(Hang(format!("reference: loop {l} exceeds the iteration budget")));
            }
            self.exec_ctx(l)?;
            if is_root_loop {
                break;
            }
        }
        for (i, n) in g.nodes.iter().enumerate() {
            if n.lp == l && matches!(n.op, Op::Batch | Op::BatchLazy) {
                self.pending[i].clear(); // lazy input that never entered is dropped
            }
        }
        Ok(())
    }

    pub fn send(&mut self, src: usize, x: It) {
        self.echo_q[src].push(x);
    }

    /// Run one tick. Returns (events of this tick, another tick is wanted).
    pub fn run_tick(&mut self) -> Result<(Vec<RefEv>, bool), Hang> {
        for k in 0..self.g.n_sources {
            let q = std::mem::take(&mut self.echo_q[k]);
            self.inputs[k] = q;
        }
        self.wants_more = false;
        self.events.clear();
        self.exec_ctx(0)?;
        self.tick += 1;
        Ok((std::mem::take(&mut self.events), self.wants_more))
    }
}

// =================================================================================================
// Driver histories (shared by all three properties)
// =================================================================================================

#[derive(Clone, Debug, PartialEq, Eq, Hash)]
pub struct Step {
    /// Items sent before the run call, in order: (source, item).
    pub sends: Vec<(usize, It)>,
    /// false = run_tick_sync, true = run_available_sync.
    pub avail: bool,
}

pub type History = Vec<Step>;

pub fn hist_string(h: &History) -> String {
    let mut s = String::new();
    for (i, st) in h.iter().enumerate() {
        if i > 0 {
            s.push(' ');
        }
        s.push('[');
        for (j, (src, it)) in st.sends.iter().enumerate() {
            if j > 0 {
                s.push(',');
            }
            s.push_str(&format!("s{}:({},{})", src, it.0, it.1));
        }
        s.push(']');
        s.push(if st.avail { 'A' } else { 'T' });
    }
    s
}

/// All histories with `steps` steps, at most `max_items` items over `n_sources` sources drawn from
/// `alphabet`; run-call kinds: every vector over {tick, available} if `both`, else ticks only.
/// Items are enumerated as sequences of (slot, value) with non-decreasing slot = step*n_sources+src,
/// so the order inside one slot is significant and nothing is enumerated twice.
pub fn histories(steps: usize, n_sources: usize, max_items: usize, alphabet: &[It], both: bool) -> Vec<History> {
    let slots = steps * n_sources;
    let mut placements: Vec<Vec<(usize, It)>> = vec![vec![]];
    let mut frontier: Vec<Vec<(usize, It)>> = vec![vec![]];
    for _ in 0..max_items {
        let mut next = vec![];
        for p in &frontier {
            let lo = p.last().map(|x| x.0).unwrap_or(0);
            for slot in lo..slots {
                for &a in alphabet {
                    let mut q = p.clone();
                    q.push((slot, a));
                    next.push(q);
                }
            }
        }
        placements.extend(next.iter().cloned());
        frontier = next;
    }
    let nvec = if both { 1usize << steps } else { 1 };
    let mut out = vec![];
    for p in &placements {
        for m in 0..nvec {
            let mut h: History = (0..steps).map(|s| Step { sends: vec![], avail: m >> s & 1 == 1 }).collect();
            for &(slot, it) in p {
                h[slot / n_sources].sends.push((slot % n_sources, it));
            }
            out.push(h);
        }
    }
    out
}

/// Expected observation of a Graph program under a history.
#[derive(Clone, Debug, PartialEq, Eq)]
pub struct Expect {
    /// current_tick() after each step.
    pub ticks_after: Vec<u64>,
    /// Per tick: events.
    pub per_tick: Vec<Vec<RefEv>>,
}

pub fn expect_graph(g: &Graph, h: &History) -> Result<Expect, Hang> {
    let mut it = Interp::new(g);
    let mut e = Expect { ticks_after: vec![], per_tick: vec![] };
    for st in h {
        for &(s, x) in &st.sends {
            it.send(s, x);
        }
        let mut n = 0;
        loop {
            let (ev, more) = it.run_tick()?;
            e.per_tick.push(ev);
            n += 1;
            if !st.avail || !more {
                break;
            }
            if n > TICK_BUDGET {
                return Err(Hang("reference: run_available exceeds the tick budget".into()));
            }
        }
        e.ticks_after.push(it.tick);
    }
    Ok(e)
}

/// Normal form shared by expectation and observation: (tick, sink) -> plain sinks: sorted items;
/// block sinks: one sorted block per loop-body execution, in execution order.
#[derive(Clone, Debug, PartialEq, Eq, Hash, PartialOrd, Ord)]
pub enum SinkObs {
    Items(Vec<It>),
    Blocks(Vec<Vec<It>>),
}
pub type Norm = BTreeMap<(u64, usize), SinkObs>;

pub fn norm_insert(m: &mut Norm, tick: u64, ev: &RefEv) {
    match ev {
        RefEv::Item { sink, item } => {
            let e = m.entry((tick, *sink)).or_insert_with(|| SinkObs::Items(vec![]));
            if let SinkObs::Items(v) = e {
                v.push(*item);
                v.sort();
            }
        }
        RefEv::Block { sink, items } => {
            let e = m.entry((tick, *sink)).or_insert_with(|| SinkObs::Blocks(vec![]));
            if let SinkObs::Blocks(v) = e {
                let mut b = items.clone();
                b.sort();
                v.push(b);
            }
        }
    }
}

pub fn norm_expect(e: &Expect) -> Norm {
    let mut m = Norm::new();
    for (t, evs) in e.per_tick.iter().enumerate() {
        for ev in evs {
            norm_insert(&mut m, t as u64, ev);
        }
    }
    m
}

// =================================================================================================
// C24 family
// =================================================================================================

pub fn family_c24() -> Vec<Graph> {
    let mut out = vec![];
    // A. chains of 1..3 defers, all lazy mixes; sink 0 taps the arrival tick, sink 1 the delivery.
    for k in 1..=3usize {
        for mask in 0..(1usize << k) {
            let lz = mask_bits(mask, k);
            let mut b = GB::new(&format!("c24_chain_{}", lazy_name(&lz)), 1, 0);
            let s = b.add(0, Op::Source(0), &[]);
            let t = b.add(0, Op::Tee, &[s]);
            b.add(0, Op::Sink(0), &[t]);
            let d = b.defers(0, t, &lz);
            b.add(0, Op::Sink(1), &[d]);
            out.push(b.done());
        }
    }
    // A'. the same chains WITHOUT any tap: the only path is source -> [map ->] defers -> sink, so in
    // the arrival tick no handoff carries data except the defer buffer itself (the generated
    // tick closure's "work done" flag stays false on every tick but the first).
    for with_map in [false, true] {
        for k in 1..=3usize {
            for mask in 0..(1usize << k) {
                let lz = mask_bits(mask, k);
                let mut b = GB::new(&format!("c24_bare{}_{}", if with_map { "_map" } else { "" }, lazy_name(&lz)), 1, 0);
                let s = b.add(0, Op::Source(0), &[]);
                let x = if with_map { b.add(0, Op::MapId, &[s]) } else { s };
                let d = b.defers(0, x, &lz);
                b.add(0, Op::Sink(1), &[d]);
                out.push(b.done());
            }
        }
    }
    // B. stateful operators with 'tick / 'static persistence around defers.
    let stateful: Vec<(&str, fn(bool) -> Op)> = vec![
        ("fold", Op::Fold as fn(bool) -> Op),
        ("reduce", Op::Reduce as fn(bool) -> Op),
        ("unique", Op::Unique as fn(bool) -> Op),
        ("enumerate", Op::Enumerate as fn(bool) -> Op),
    ];
    for (nm, mk) in &stateful {
        for st in [false, true] {
            let op = mk(st);
            // An operator that emits on ticks without input must not feed a non-lazy defer
            // (the program would legitimately never become idle).
            let replays = matches!(op, Op::Fold(_) | Op::Reduce(true));
            for (pre, post) in [(None, None), (Some(false), None), (Some(true), None), (None, Some(replays))] {
                let tag = format!(
                    "c24_{nm}_{}_pre{}_post{}",
                    if st { "static" } else { "tick" },
                    pre.map(|l| if l { "L" } else { "T" }).unwrap_or("0"),
                    post.map(|l| if l { "L" } else { "T" }).unwrap_or("0")
                );
                let mut b = GB::new(&tag, 1, 0);
                let s = b.add(0, Op::Source(0), &[]);
                let t = b.add(0, Op::Tee, &[s]);
                b.add(0, Op::Sink(0), &[t]);
                let mut x = t;
                if let Some(l) = pre {
                    x = b.defers(0, x, &[l]);
                }
                x = b.add(0, op.clone(), &[x]);
                if let Some(l) = post {
                    x = b.defers(0, x, &[l]);
                }
                b.add(0, Op::Sink(1), &[x]);
                out.push(b.done());
            }
        }
    }
    for l in [false, true] {
        for r in [false, true] {
            for pre in [false, true] {
                let tag = format!("c24_join_{}_{}_pre{}", pers(l).trim_start_matches('\''), pers(r).trim_start_matches('\''), if pre { "T" } else { "0" });
                let mut b = GB::new(&tag, 2, 0);
                let s0 = b.add(0, Op::Source(0), &[]);
                let s1 = b.add(0, Op::Source(1), &[]);
                let x = if pre { b.defers(0, s0, &[false]) } else { s0 };
                let j = b.add(0, Op::Join(l, r), &[x, s1]);
                b.add(0, Op::Sink(1), &[j]);
                out.push(b.done());
            }
        }
    }
    for p in [false, true] {
        for n in [false, true] {
            for pre in [false, true] {
                if pre && p != n {
                    continue;
                }
                let tag = format!("c24_antijoin_{}_{}_negpre{}", pers(p).trim_start_matches('\''), pers(n).trim_start_matches('\''), if pre { "T" } else { "0" });
                let mut b = GB::new(&tag, 2, 0);
                let s0 = b.add(0, Op::Source(0), &[]);
                let s1 = b.add(0, Op::Source(1), &[]);
                let x = if pre { b.defers(0, s1, &[false]) } else { s1 };
                let j = b.add(0, Op::AntiJoin(p, n), &[s0, x]);
                b.add(0, Op::Sink(1), &[j]);
                out.push(b.done());
            }
        }
    }
    // C. cycles through defers with a strictly decreasing countdown.
    for lz in [vec![false], vec![true], vec![false, false], vec![false, true], vec![true, false], vec![true, true]] {
        let mut b = GB::new(&format!("c24_cycle_{}", lazy_name(&lz)), 1, 1);
        let s = b.add(0, Op::Source(0), &[]);
        let u = b.add(0, Op::Union, &[s]);
        let t = b.add(0, Op::Tee, &[u]);
        b.add(0, Op::Sink(0), &[t]);
        let f = b.add(0, Op::FilterPos, &[t]);
        let m = b.add(0, Op::MapDec, &[f]);
        let d = b.defers(0, m, &lz);
        b.connect(d, u);
        out.push(b.done());
    }
    for (l1, l2) in [(false, false), (false, true), (true, true)] {
        let mut b = GB::new(&format!("c24_mutual_{}", lazy_name(&[l1, l2])), 1, 1);
        let s = b.add(0, Op::Source(0), &[]);
        let ua = b.add(0, Op::Union, &[s]);
        let ta = b.add(0, Op::Tee, &[ua]);
        b.add(0, Op::Sink(0), &[ta]);
        let fa = b.add(0, Op::FilterPos, &[ta]);
        let ma = b.add(0, Op::MapDec, &[fa]);
        let da = b.defers(0, ma, &[l1]);
        let ub = b.add(0, Op::Identity, &[da]);
        let tb = b.add(0, Op::Tee, &[ub]);
        b.add(0, Op::Sink(1), &[tb]);
        let fb = b.add(0, Op::FilterPos, &[tb]);
        let mb = b.add(0, Op::MapDec, &[fb]);
        let db = b.defers(0, mb, &[l2]);
        b.connect(db, ua);
        out.push(b.done());
    }
    {
        let mut b = GB::new("c24_cycle_unique_static_T", 1, 1);
        let s = b.add(0, Op::Source(0), &[]);
        let u = b.add(0, Op::Union, &[s]);
        let t = b.add(0, Op::Tee, &[u]);
        b.add(0, Op::Sink(0), &[t]);
        let q = b.add(0, Op::Unique(true), &[t]);
        let f = b.add(0, Op::FilterPos, &[q]);
        let m = b.add(0, Op::MapDec, &[f]);
        let d = b.defers(0, m, &[false]);
        b.connect(d, u);
        out.push(b.done());
    }
    // D. fan-in of differently delayed copies.
    for (a, c) in [
        (vec![false], vec![false, false]),
        (vec![true], vec![false]),
        (vec![false], vec![true, true]),
        (vec![false, true], vec![true, false]),
    ] {
        let mut b = GB::new(&format!("c24_fanin_{}_{}", lazy_name(&a), lazy_name(&c)), 1, 0);
        let s = b.add(0, Op::Source(0), &[]);
        let t = b.add(0, Op::Tee, &[s]);
        b.add(0, Op::Sink(0), &[t]);
        let da = b.defers(0, t, &a);
        let dc = b.defers(0, t, &c);
        let u = b.add(0, Op::Union, &[da, dc]);
        b.add(0, Op::Sink(1), &[u]);
        out.push(b.done());
    }
    // E. external wake-ups: the program sends into its own input channel while the tick runs.
    for pre in [None, Some(false), Some(true)] {
        let tag = format!("c24_echo_pre{}", pre.map(|l| if l { "L" } else { "T" }).unwrap_or("0"));
        let mut b = GB::new(&tag, 1, 1);
        let s = b.add(0, Op::Source(0), &[]);
        let h = b.add(0, Op::Handoff, &[s]);
        let t = b.add(0, Op::Tee, &[h]);
        b.add(0, Op::Sink(0), &[t]);
        let f = b.add(0, Op::FilterPos, &[t]);
        let m = b.add(0, Op::MapDec, &[f]);
        let x = if let Some(l) = pre { b.defers(0, m, &[l]) } else { m };
        b.add(0, Op::Echo(0), &[x]);
        out.push(b.done());
    }
    out
}

// =================================================================================================
// C26 family
// =================================================================================================

/// Inside loop `lp`: u = union(entry.., deferred); t = tee(u); blocksink(sink) <- t;
/// t -> filter(c>0) -> map(c-1) -> defers(lz) -> u. Returns the tee.
fn countdown_cycle(b: &mut GB, lp: usize, entries: &[usize], lz: &[bool], sink: usize) -> usize {
    let u = b.add(lp, Op::Union, entries);
    let t = b.add(lp, Op::Tee, &[u]);
    b.add(lp, Op::BlockSink(sink), &[t]);
    let f = b.add(lp, Op::FilterPos, &[t]);
    let m = b.add(lp, Op::MapDec, &[f]);
    let d = b.defers(lp, m, lz);
    b.connect(d, u);
    t
}

pub fn family_c26() -> Vec<Graph> {
    let mut out = vec![];
    let chains: Vec<Vec<bool>> = vec![vec![false], vec![true], vec![false, false], vec![false, true], vec![true, false], vec![true, true]];

    // T1. root loop, entry kinds.
    // (A loop without any non-lazy entry has no gate at all and is not part of the family: the
    // property says nothing about when such a loop body runs.)
    for (tag, kinds) in [("B", vec![false]), ("BB", vec![false, false]), ("BL", vec![false, true]), ("LB", vec![true, false])] {
        let mut b = GB::new(&format!("c26_root_entry_{tag}"), kinds.len(), 1);
        let l = b.lp(0);
        let mut entries = vec![];
        for (k, &lazy) in kinds.iter().enumerate() {
            let s = b.add(0, Op::Source(k), &[]);
            entries.push(b.add(l, if lazy { Op::BatchLazy } else { Op::Batch }, &[s]));
        }
        let u = b.add(l, if entries.len() > 1 { Op::Union } else { Op::Identity }, &entries);
        let t = b.add(l, Op::Tee, &[u]);
        b.add(l, Op::BlockSink(0), &[t]);
        let a = b.add(0, Op::AllIterations, &[t]);
        b.add(0, Op::Sink(1), &[a]);
        out.push(b.done());
    }
    // T2. root loop with a loop-carried cycle (tick-delayed, because a root loop is fused with the tick).
    for lz in &chains {
        let mut b = GB::new(&format!("c26_root_cycle_{}", lazy_name(lz)), 1, 1);
        let l = b.lp(0);
        let s = b.add(0, Op::Source(0), &[]);
        let e = b.add(l, Op::Batch, &[s]);
        let t = countdown_cycle(&mut b, l, &[e], lz, 0);
        let a = b.add(0, Op::AllIterations, &[t]);
        b.add(0, Op::Sink(1), &[a]);
        out.push(b.done());
    }
    for lz in [vec![false], vec![true]] {
        let mut b = GB::new(&format!("c26_root_cycle_{}_lazyentry", lazy_name(&lz)), 2, 1);
        let l = b.lp(0);
        let s0 = b.add(0, Op::Source(0), &[]);
        let s1 = b.add(0, Op::Source(1), &[]);
        let e0 = b.add(l, Op::Batch, &[s0]);
        let e1 = b.add(l, Op::BatchLazy, &[s1]);
        let t = countdown_cycle(&mut b, l, &[e0, e1], &lz, 0);
        let a = b.add(0, Op::AllIterations, &[t]);
        b.add(0, Op::Sink(1), &[a]);
        out.push(b.done());
    }
    // T3. nested loop (depth 2) with an iteration-delayed cycle; optional lazy second entry.
    for lz in &chains {
        for lazy_entry in [false, true] {
            let nsrc = if lazy_entry { 2 } else { 1 };
            let mut b = GB::new(
                &format!("c26_nested_cycle_{}{}", lazy_name(lz), if lazy_entry { "_lazyentry" } else { "" }),
                nsrc,
                1,
            );
            let l1 = b.lp(0);
            let l2 = b.lp(l1);
            let s0 = b.add(0, Op::Source(0), &[]);
            let e0 = b.add(l1, Op::Batch, &[s0]);
            let t0 = b.add(l1, Op::Tee, &[e0]);
            b.add(l1, Op::BlockSink(0), &[t0]);
            let mut entries = vec![b.add(l2, Op::Batch, &[t0])];
            if lazy_entry {
                let s1 = b.add(0, Op::Source(1), &[]);
                let e1 = b.add(l1, Op::BatchLazy, &[s1]);
                let i1 = b.add(l1, Op::Identity, &[e1]);
                entries.push(b.add(l2, Op::BatchLazy, &[i1]));
            }
            let t = countdown_cycle(&mut b, l2, &entries, lz, 1);
            let a1 = b.add(l1, Op::AllIterations, &[t]);
            let a0 = b.add(0, Op::AllIterations, &[a1]);
            b.add(0, Op::Sink(2), &[a0]);
            out.push(b.done());
        }
    }
    // T4. cycles at both levels: tick-delayed in the root loop, iteration-delayed in the nested loop.
    for lo in [false, true] {
        for li in [false, true] {
            let mut b = GB::new(&format!("c26_both_cycles_{}_{}", lazy_name(&[lo]), lazy_name(&[li])), 1, 1);
            let l1 = b.lp(0);
            let l2 = b.lp(l1);
            let s0 = b.add(0, Op::Source(0), &[]);
            let e0 = b.add(l1, Op::Batch, &[s0]);
            let t0 = countdown_cycle(&mut b, l1, &[e0], &[lo], 0);
            let e2 = b.add(l2, Op::Batch, &[t0]);
            let t = countdown_cycle(&mut b, l2, &[e2], &[li], 1);
            let a1 = b.add(l1, Op::AllIterations, &[t]);
            let a0 = b.add(0, Op::AllIterations, &[a1]);
            b.add(0, Op::Sink(2), &[a0]);
            out.push(b.done());
        }
    }
    // T5a. two sibling root loops, each with its own source and cycle: one must not fire the other.
    for (la, lb) in [(false, false), (false, true), (true, true)] {
        let mut b = GB::new(&format!("c26_sibling_roots_{}_{}", lazy_name(&[la]), lazy_name(&[lb])), 2, 1);
        let l1 = b.lp(0);
        let l2 = b.lp(0);
        let s0 = b.add(0, Op::Source(0), &[]);
        let s1 = b.add(0, Op::Source(1), &[]);
        let e0 = b.add(l1, Op::Batch, &[s0]);
        countdown_cycle(&mut b, l1, &[e0], &[la], 0);
        let e1 = b.add(l2, Op::Batch, &[s1]);
        countdown_cycle(&mut b, l2, &[e1], &[lb], 1);
        out.push(b.done());
    }
    // T5b. two sibling nested loops inside one root loop, the first feeding the second.
    for (la, lb) in [(false, false), (false, true), (true, false)] {
        let mut b = GB::new(&format!("c26_sibling_nested_{}_{}", lazy_name(&[la]), lazy_name(&[lb])), 1, 1);
        let l1 = b.lp(0);
        let la_ = b.lp(l1);
        let lb_ = b.lp(l1);
        let s0 = b.add(0, Op::Source(0), &[]);
        let e0 = b.add(l1, Op::Batch, &[s0]);
        let i0 = b.add(l1, Op::Identity, &[e0]);
        let ea = b.add(la_, Op::Batch, &[i0]);
        let ta = countdown_cycle(&mut b, la_, &[ea], &[la], 0);
        let aa = b.add(l1, Op::AllIterations, &[ta]);
        let eb = b.add(lb_, Op::Batch, &[aa]);
        let tb = countdown_cycle(&mut b, lb_, &[eb], &[lb], 1);
        let ab = b.add(l1, Op::AllIterations, &[tb]);
        let a0 = b.add(0, Op::AllIterations, &[ab]);
        b.add(0, Op::Sink(2), &[a0]);
        out.push(b.done());
    }
    // T6. nested loop: two differently delayed copies of the loop-carried data merge again.
    for (a, c) in [(vec![false], vec![true]), (vec![false], vec![false, false]), (vec![true], vec![false, true]), (vec![false, false], vec![true])] {
        let mut b = GB::new(&format!("c26_nested_fanin_{}_{}", lazy_name(&a), lazy_name(&c)), 1, 1);
        let l1 = b.lp(0);
        let l2 = b.lp(l1);
        let s0 = b.add(0, Op::Source(0), &[]);
        let e0 = b.add(l1, Op::Batch, &[s0]);
        let i0 = b.add(l1, Op::Identity, &[e0]);
        let e = b.add(l2, Op::Batch, &[i0]);
        let u = b.add(l2, Op::Union, &[e]);
        let t = b.add(l2, Op::Tee, &[u]);
        b.add(l2, Op::BlockSink(0), &[t]);
        let f = b.add(l2, Op::FilterPos, &[t]);
        let m = b.add(l2, Op::MapDec, &[f]);
        let t2 = b.add(l2, Op::Tee, &[m]);
        let da = b.defers(l2, t2, &a);
        let dc = b.defers(l2, t2, &c);
        b.connect(da, u);
        let f2 = b.add(l2, Op::FilterPos, &[dc]);
        let t3 = b.add(l2, Op::Tee, &[f2]);
        b.add(l2, Op::BlockSink(1), &[t3]);
        let a1 = b.add(l1, Op::AllIterations, &[t3]);
        let a0 = b.add(0, Op::AllIterations, &[a1]);
        b.add(0, Op::Sink(2), &[a0]);
        out.push(b.done());
    }
    // T7. depth 3.
    for (l2z, l3z) in [(false, false), (true, false)] {
        let mut b = GB::new(&format!("c26_depth3_{}_{}", lazy_name(&[l2z]), lazy_name(&[l3z])), 1, 1);
        let l1 = b.lp(0);
        let l2 = b.lp(l1);
        let l3 = b.lp(l2);
        let s0 = b.add(0, Op::Source(0), &[]);
        let e0 = b.add(l1, Op::Batch, &[s0]);
        let i0 = b.add(l1, Op::Identity, &[e0]);
        let e2 = b.add(l2, Op::Batch, &[i0]);
        let t2 = countdown_cycle(&mut b, l2, &[e2], &[l2z], 0);
        let e3 = b.add(l3, Op::Batch, &[t2]);
        let t3 = countdown_cycle(&mut b, l3, &[e3], &[l3z], 1);
        let a2 = b.add(l2, Op::AllIterations, &[t3]);
        let a1 = b.add(l1, Op::AllIterations, &[a2]);
        let a0 = b.add(0, Op::AllIterations, &[a1]);
        b.add(0, Op::Sink(2), &[a0]);
        out.push(b.done());
    }
    // T9. one loop owning TWO defer_tick countdown cycles with a child loop (own cycle) created
    // before / between / after them (the delayed handoffs of the two loops interleave).
    for (tag, ord) in [("d1_child_d2", [0usize, 2, 1]), ("child_d1_d2", [2, 0, 1]), ("d1_d2_child", [0, 1, 2])] {
        for (l1z, l2z) in [(false, false), (false, true)] {
            // nested: root loop L1 > L2 (two cycles) > L3 (child)
            let mut b = GB::new(&format!("c26_two_cycles_nested_{tag}_{}", lazy_name(&[l1z, l2z])), 1, 1);
            let l1 = b.lp(0);
            let l2 = b.lp(l1);
            let l3 = b.lp(l2);
            let s0 = b.add(0, Op::Source(0), &[]);
            let e0 = b.add(l1, Op::Batch, &[s0]);
            let t0 = b.add(l1, Op::Tee, &[e0]);
            b.add(l1, Op::BlockSink(0), &[t0]);
            let ea = b.add(l2, Op::Batch, &[t0]);
            let eb = b.add(l2, Op::Batch, &[t0]);
            let mut t1 = usize::MAX;
            // The child reads the first cycle's tee; when it is created first, it reads the entry.
            for part in ord {
                match part {
                    0 => t1 = countdown_cycle(&mut b, l2, &[ea], &[l1z], 1),
                    1 => {
                        countdown_cycle(&mut b, l2, &[eb], &[l2z], 3);
                    }
                    _ => {
                        let from = if t1 == usize::MAX { t0 } else { t1 };
                        if from == t0 {
                            // child created before the cycles: feed it from a third entry of L2
                            let ec = b.add(l2, Op::Batch, &[t0]);
                            let ic = b.add(l2, Op::Identity, &[ec]);
                            let e3 = b.add(l3, Op::Batch, &[ic]);
                            countdown_cycle(&mut b, l3, &[e3], &[false], 2);
                        } else {
                            let e3 = b.add(l3, Op::Batch, &[from]);
                            countdown_cycle(&mut b, l3, &[e3], &[false], 2);
                        }
                    }
                }
            }
            out.push(b.done());
        }
        // root loop L1 owning the two (tick-delayed) cycles, child L2 nested in it
        let mut b = GB::new(&format!("c26_two_cycles_root_{tag}"), 1, 1);
        let l1 = b.lp(0);
        let l2 = b.lp(l1);
        let s00 = b.add(0, Op::Source(0), &[]);
        let s0 = b.add(0, Op::Tee, &[s00]);
        let ea = b.add(l1, Op::Batch, &[s0]);
        let eb = b.add(l1, Op::Batch, &[s0]);
        let mut t1 = usize::MAX;
        for part in ord {
            match part {
                0 => t1 = countdown_cycle(&mut b, l1, &[ea], &[false], 0),
                1 => {
                    countdown_cycle(&mut b, l1, &[eb], &[false], 3);
                }
                _ => {
                    if t1 == usize::MAX {
                        let ec = b.add(l1, Op::Batch, &[s0]);
                        let ic = b.add(l1, Op::Identity, &[ec]);
                        let e3 = b.add(l2, Op::Batch, &[ic]);
                        countdown_cycle(&mut b, l2, &[e3], &[false], 2);
                    } else {
                        let e3 = b.add(l2, Op::Batch, &[t1]);
                        countdown_cycle(&mut b, l2, &[e3], &[false], 2);
                    }
                }
            }
        }
        out.push(b.done());
    }
    // T8. root-level defers around a root loop.
    for lz in [false, true] {
        let mut b = GB::new(&format!("c26_defer_before_loop_{}", lazy_name(&[lz])), 1, 1);
        let l = b.lp(0);
        let s = b.add(0, Op::Source(0), &[]);
        let d = b.defers(0, s, &[lz]);
        let e = b.add(l, Op::Batch, &[d]);
        let t = b.add(l, Op::Tee, &[e]);
        b.add(l, Op::BlockSink(0), &[t]);
        let a = b.add(0, Op::AllIterations, &[t]);
        b.add(0, Op::Sink(1), &[a]);
        out.push(b.done());
    }
    for lz in [false, true] {
        // root -> loop -> root -> (next tick) same loop.
        let mut b = GB::new(&format!("c26_cycle_around_loop_{}", lazy_name(&[lz])), 1, 1);
        let l = b.lp(0);
        let s = b.add(0, Op::Source(0), &[]);
        let u = b.add(0, Op::Union, &[s]);
        let e = b.add(l, Op::Batch, &[u]);
        let t = b.add(l, Op::Tee, &[e]);
        b.add(l, Op::BlockSink(0), &[t]);
        let a = b.add(0, Op::AllIterations, &[t]);
        let t2 = b.add(0, Op::Tee, &[a]);
        b.add(0, Op::Sink(1), &[t2]);
        let f = b.add(0, Op::FilterPos, &[t2]);
        let m = b.add(0, Op::MapDec, &[f]);
        let d = b.defers(0, m, &[lz]);
        b.connect(d, u);
        out.push(b.done());
    }
    out
}

// =================================================================================================
// C25 family: references to one state
// =================================================================================================

#[derive(Clone, Copy, Debug, PartialEq, Eq, Hash)]
pub enum StateKind {
    Fold(bool),
    Reduce(bool),
    Lattice(bool),
}
#[derive(Clone, Copy, Debug, PartialEq, Eq, Hash)]
pub enum PipeOp {
    Map,
    Filter,
    Handoff,
    Union,
    Unique,
}
#[derive(Clone, Copy, Debug, PartialEq, Eq, Hash)]
pub enum CK {
    Map,
    Filter,
    Inspect,
    FlatMap,
}
#[derive(Clone, Debug, PartialEq, Eq, Hash)]
pub struct Reader {
    /// Stable id used in the log (independent of declaration position).
    pub id: usize,
    pub kind: CK,
    pub group: Option<u32>,
    pub is_mut: bool,
    /// true: reads the tee of source 0 (the state's own input); false: own source.
    pub shared_input: bool,
}
#[derive(Clone, Debug)]
pub struct RefProg {
    pub name: String,
    pub state: StateKind,
    pub pipe: Vec<PipeOp>,
    /// In declaration (textual) order.
    pub readers: Vec<Reader>,
    /// Referencing closures are written BEFORE the state pipeline in the program text.
    pub readers_first: bool,
}

impl RefProg {
    pub fn uses_union(&self) -> bool {
        self.pipe.contains(&PipeOp::Union)
    }
    /// Source numbering: 0 = state input, 1 = union side input (if any), then one per reader with
    /// its own input, in order of reader id.
    pub fn reader_source(&self, id: usize) -> Option<usize> {
        let base = if self.uses_union() { 2 } else { 1 };
        let mut own: Vec<usize> = self.readers.iter().filter(|r| !r.shared_input).map(|r| r.id).collect();
        own.sort();
        own.iter().position(|&x| x == id).map(|p| base + p)
    }
    pub fn n_sources(&self) -> usize {
        (if self.uses_union() { 2 } else { 1 }) + self.readers.iter().filter(|r| !r.shared_input).count()
    }

    fn read_expr(&self, r: &str) -> String {
        match self.state {
            StateKind::Fold(_) => format!("(*{r} as i64)"),
            StateKind::Reduce(_) => format!("({r}.map(|v| v as i64).unwrap_or(-1))"),
            StateKind::Lattice(_) => format!("(*{r}.as_reveal_ref() as i64)"),
        }
    }

    fn closure_text(&self, rd: &Reader) -> String {
        let grp = rd.group.map(|g| format!("{{{g}}} ")).unwrap_or_default();
        let id = rd.id;
        let body = if rd.is_mut {
            let upd = match self.state {
                StateKind::Fold(_) => "*r = *r * 2 + x.0 as u32;".to_string(),
                StateKind::Reduce(_) => "if let Some(v) = r.as_mut() { *v = *v * 2 + x.0 as u32; }".to_string(),
                StateKind::Lattice(_) => "*r = dfir_rs::lattices::Max::new(*r.as_reveal_ref() * 2 + x.0 as u32);".to_string(),
            };
            format!(
                "let r = #{grp}mut st; let before = {}; {upd} let after = {}; io.rlog({id}, context.current_tick().0, x.0, before, after);",
                self.read_expr("r"),
                self.read_expr("r")
            )
        } else {
            format!(
                "let r = #{grp}st; let v = {}; io.rlog({id}, context.current_tick().0, x.0, v, v);",
                self.read_expr("r")
            )
        };
        match rd.kind {
            CK::Map => format!("map(|x: It| {{ {body} x }})"),
            CK::Filter => format!("filter(|x: &It| {{ {body} true }})"),
            CK::Inspect => format!("inspect(|x: &It| {{ {body} }})"),
            CK::FlatMap => format!("flat_map(|x: It| {{ {body} [x] }})"),
        }
    }

    pub fn dfir_text(&self) -> String {
        let pad = "        ";
        let mut s = String::new();
        s.push_str(&format!("{pad}s0 = source_stream(rx0) -> tee();\n"));
        let op_txt = |p: &PipeOp| -> &'static str {
            match p {
                PipeOp::Map => " -> map(|x: It| (x.0 + 1, x.1))",
                PipeOp::Filter => " -> filter(|x: &It| x.0 != 2)",
                PipeOp::Handoff => " -> handoff()",
                PipeOp::Unique => " -> unique::<'tick>()",
                PipeOp::Union => unreachable!(),
            }
        };
        // `sp` = the expression that feeds the state operator.
        let sp: String = if let Some(pos) = self.pipe.iter().position(|p| *p == PipeOp::Union) {
            let pre: String = self.pipe[..pos].iter().map(op_txt).collect();
            let post: String = self.pipe[pos + 1..].iter().map(op_txt).collect();
            s.push_str(&format!("{pad}un = union();\n"));
            s.push_str(&format!("{pad}s0{pre} -> un;\n"));
            s.push_str(&format!("{pad}source_stream(rx1) -> un;\n"));
            format!("un{post}")
        } else {
            let all: String = self.pipe.iter().map(op_txt).collect();
            format!("s0{all}")
        };
        let mut stt = String::new();
        match self.state {
            StateKind::Fold(st) => stt.push_str(&format!(
                "{pad}st = {sp} -> map(|x: It| x.0 as u32) -> fold::<{}>(|| 0u32, |a: &mut u32, x: u32| {{ *a = *a + 16 + x; }}) -> singleton();\n",
                pers(st)
            )),
            StateKind::Reduce(st) => stt.push_str(&format!(
                "{pad}st = {sp} -> map(|x: It| x.0 as u32 + 16) -> reduce::<{}>(|a: &mut u32, x: u32| {{ *a = *a + x; }}) -> optional();\n",
                pers(st)
            )),
            StateKind::Lattice(st) => {
                stt.push_str(&format!(
                    "{pad}stl = {sp} -> map(|x: It| dfir_rs::lattices::Max::new(x.0 as u32)) -> state::<{}, dfir_rs::lattices::Max<u32>>();\n",
                    pers(st)
                ));
                stt.push_str(&format!("{pad}stl[items] -> null();\n"));
                stt.push_str(&format!("{pad}st = stl[state] -> singleton();\n"));
            }
        }
        // The tee needs at least ... every shared reader hangs off it; keep one plain tap so that
        // the tee always has two outputs.
        s.push_str(&format!("{pad}s0 -> for_each(|x: It| io.item(0, context.current_tick().0, x));\n"));
        let mut rdt = String::new();
        for rd in &self.readers {
            let src = if rd.shared_input {
                "s0".to_string()
            } else {
                format!("source_stream(rx{})", self.reader_source(rd.id).unwrap())
            };
            rdt.push_str(&format!("{pad}{src} -> {} -> for_each(|_x: It| ());\n", self.closure_text(rd)));
        }
        if self.readers_first {
            s.push_str(&rdt);
            s.push_str(&stt);
        } else {
            s.push_str(&stt);
            s.push_str(&rdt);
        }
        s
    }
}

#[derive(Clone, Debug, PartialEq, Eq, Hash, PartialOrd, Ord)]
pub struct RLog {
    pub reader: usize,
    pub tick: u64,
    pub item: u8,
    pub before: i64,
    pub after: i64,
}

/// Reference semantics for a RefProg under a ticks-only history: the expected log of every
/// reader (as a sequence), ticks in order.
pub fn expect_ref(p: &RefProg, h: &History) -> BTreeMap<usize, Vec<RLog>> {
    let mut out: BTreeMap<usize, Vec<RLog>> = BTreeMap::new();
    for r in &p.readers {
        out.insert(r.id, vec![]);
    }
    // Persistent accumulator for 'static states.
    let mut fold_acc: u32 = 0;
    let mut red_acc: Option<u32> = None;
    let mut lat_acc: u32 = 0;
    for (t, st) in h.iter().enumerate() {
        let t = t as u64;
        let per_src = |k: usize| -> Vec<It> { st.sends.iter().filter(|(s, _)| *s == k).map(|(_, x)| *x).collect() };
        // State input = the pipe applied to source 0 (and source 1 at the union).
        let mut cur: Vec<It> = per_src(0);
        for po in &p.pipe {
            match po {
                PipeOp::Map => cur = cur.into_iter().map(|x| (x.0 + 1, x.1)).collect(),
                PipeOp::Filter => cur.retain(|x| x.0 != 2),
                PipeOp::Handoff => {}
                PipeOp::Unique => {
                    let mut seen = BTreeSet::new();
                    cur.retain(|x| seen.insert(*x));
                }
                PipeOp::Union => cur.extend(per_src(1)),
            }
        }
        // Settled value of the state after ALL of this tick's producers ran.
        let mut val: i64 = match p.state {
            StateKind::Fold(s) => {
                let mut a = if s { fold_acc } else { 0 };
                for x in &cur {
                    a = a + 16 + x.0 as u32;
                }
                fold_acc = a;
                a as i64
            }
            StateKind::Reduce(s) => {
                let mut a = if s { red_acc } else { None };
                for x in &cur {
                    let v = x.0 as u32 + 16;
                    a = Some(match a {
                        None => v,
                        Some(a) => a + v,
                    });
                }
                red_acc = a;
                a.map(|v| v as i64).unwrap_or(-1)
            }
            StateKind::Lattice(s) => {
                let mut a = if s { lat_acc } else { 0 };
                for x in &cur {
                    a = a.max(x.0 as u32);
                }
                lat_acc = a;
                a as i64
            }
        };
        // Access groups in ascending order; shared readers of one group do not change the value.
        let mut groups: Vec<Option<u32>> = p.readers.iter().map(|r| r.group).collect();
        groups.sort();
        groups.dedup();
        for g in groups {
            for r in p.readers.iter().filter(|r| r.group == g) {
                let items = if r.shared_input { per_src(0) } else { per_src(p.reader_source(r.id).unwrap()) };
                for x in items {
                    let before = val;
                    if r.is_mut && val >= 0 {
                        val = val * 2 + x.0 as i64;
                    }
                    out.get_mut(&r.id).unwrap().push(RLog { reader: r.id, tick: t, item: x.0, before, after: val });
                }
            }
        }
    }
    out
}

fn ck_of(i: usize) -> CK {
    [CK::Map, CK::Filter, CK::Inspect, CK::FlatMap][i % 4]
}
fn ck_name(k: CK) -> &'static str {
    match k {
        CK::Map => "map",
        CK::Filter => "filter",
        CK::Inspect => "inspect",
        CK::FlatMap => "flatmap",
    }
}
fn state_name(s: StateKind) -> String {
    match s {
        StateKind::Fold(b) => format!("fold{}", if b { "S" } else { "T" }),
        StateKind::Reduce(b) => format!("reduce{}", if b { "S" } else { "T" }),
        StateKind::Lattice(b) => format!("lattice{}", if b { "S" } else { "T" }),
    }
}
fn pipe_name(p: &[PipeOp]) -> String {
    if p.is_empty() {
        return "direct".into();
    }
    p.iter()
        .map(|o| match o {
            PipeOp::Map => "map",
            PipeOp::Filter => "filter",
            PipeOp::Handoff => "hoff",
            PipeOp::Union => "union",
            PipeOp::Unique => "unique",
        })
        .collect::<Vec<_>>()
        .join("+")
}

fn permutations(n: usize) -> Vec<Vec<usize>> {
    fn go(rest: Vec<usize>, cur: &mut Vec<usize>, out: &mut Vec<Vec<usize>>) {
        if rest.is_empty() {
            out.push(cur.clone());
            return;
        }
        for i in 0..rest.len() {
            let mut r = rest.clone();
            let x = r.remove(i);
            cur.push(x);
            go(r, cur, out);
            cur.pop();
        }
    }
    let mut out = vec![];
    go((0..n).collect(), &mut vec![], &mut out);
    out
}

pub fn family_c25() -> Vec<RefProg> {
    let mut out = vec![];
    let states = [
        StateKind::Fold(false),
        StateKind::Fold(true),
        StateKind::Reduce(false),
        StateKind::Reduce(true),
        StateKind::Lattice(false),
        StateKind::Lattice(true),
    ];
    let kinds = [CK::Map, CK::Filter, CK::Inspect, CK::FlatMap];
    // F1a. settled state: every state kind x every closure kind, one shared reader with its own input.
    for s in states {
        for k in kinds {
            out.push(RefProg {
                name: format!("c25_settled_{}_{}", state_name(s), ck_name(k)),
                state: s,
                pipe: vec![],
                readers: vec![Reader { id: 0, kind: k, group: None, is_mut: false, shared_input: false }],
                readers_first: false,
            });
        }
    }
    // F1b. settled state behind same-tick pipelines of depth <= 2; reader on its own input or on
    // the very stream that also feeds the state.
    use PipeOp::*;
    let pipes: Vec<Vec<PipeOp>> = vec![
        vec![],
        vec![Map],
        vec![Handoff],
        vec![Union],
        vec![Map, Handoff],
        vec![Handoff, Map],
        vec![Union, Map],
        vec![Filter, Union],
        vec![Handoff, Union],
        vec![Unique, Handoff],
    ];
    let mut n = 0;
    for p in &pipes {
        for shared in [false, true] {
            if p.is_empty() && !shared {
                continue; // already in F1a
            }
            let s = states[n % states.len()];
            let k = ck_of(n);
            n += 1;
            out.push(RefProg {
                name: format!("c25_pipe_{}_{}_{}_{}", pipe_name(p), if shared { "shared" } else { "own" }, state_name(s), ck_name(k)),
                state: s,
                pipe: p.clone(),
                readers: vec![Reader { id: 0, kind: k, group: None, is_mut: false, shared_input: shared }],
                readers_first: false,
            });
        }
    }
    // F2. two readers in groups 0 < 1, all shared/mut patterns, both declaration orders,
    // own inputs or the shared input. Mutating closures only on 'tick states (whether a mutation
    // through a reference survives into the next tick of a 'static state is not stated anywhere).
    for s in [StateKind::Fold(false), StateKind::Reduce(false)] {
        for pat in 0..4usize {
            for rev in [false, true] {
                for shared in [false, true] {
                    if s == StateKind::Reduce(false) && (shared || pat == 0) {
                        continue;
                    }
                    let mut rs = vec![];
                    for i in 0..2 {
                        rs.push(Reader {
                            id: i,
                            kind: ck_of(i + pat + if shared { 2 } else { 0 }),
                            group: Some(i as u32),
                            is_mut: pat >> i & 1 == 1,
                            shared_input: shared,
                        });
                    }
                    if rev {
                        rs.reverse();
                    }
                    let pn: String = (0..2).map(|i| if pat >> i & 1 == 1 { 'm' } else { 's' }).collect();
                    out.push(RefProg {
                        name: format!("c25_two_{}_{}_{}_{}", state_name(s), pn, if rev { "decl10" } else { "decl01" }, if shared { "shared" } else { "own" }),
                        state: s,
                        pipe: vec![],
                        readers: rs,
                        readers_first: false,
                    });
                }
            }
        }
    }
    // F3. three readers in groups 0 < 1 < 2, declared in all 6 orders.
    for pat in ["mmm", "msm", "sms", "mms"] {
        for perm in permutations(3) {
            let rs: Vec<Reader> = perm
                .iter()
                .map(|&i| Reader {
                    id: i,
                    kind: ck_of(i + pat.len() + perm[0]),
                    group: Some(i as u32),
                    is_mut: pat.as_bytes()[i] == b'm',
                    shared_input: false,
                })
                .collect();
            out.push(RefProg {
                name: format!("c25_three_{}_decl{}{}{}", pat, perm[0], perm[1], perm[2]),
                state: StateKind::Fold(false),
                pipe: vec![],
                readers: rs,
                readers_first: false,
            });
        }
    }
    // F4. two shared readers in one group next to a mutating group; 'static states read from
    // three groups; groups with gaps in the numbering.
    for (tag, groups, muts) in [
        ("ss0_m1", [0u32, 0, 1], [false, false, true]),
        ("m1_ss2", [1, 2, 2], [true, false, false]),
        ("gaps_m1_s4_m9", [1, 4, 9], [true, false, true]),
    ] {
        for rev in [false, true] {
            let mut rs: Vec<Reader> = (0..3)
                .map(|i| Reader { id: i, kind: ck_of(i), group: Some(groups[i]), is_mut: muts[i], shared_input: false })
                .collect();
            if rev {
                rs.reverse();
            }
            out.push(RefProg {
                name: format!("c25_groups_{}_{}", tag, if rev { "rev" } else { "fwd" }),
                state: StateKind::Fold(false),
                pipe: vec![],
                readers: rs,
                readers_first: false,
            });
        }
    }
    for s in [StateKind::Fold(true), StateKind::Lattice(true)] {
        let rs: Vec<Reader> =
            [2usize, 0, 1].iter().map(|&i| Reader { id: i, kind: ck_of(i), group: Some(i as u32), is_mut: false, shared_input: i == 1 }).collect();
        out.push(RefProg { name: format!("c25_static_sss_{}", state_name(s)), state: s, pipe: vec![Handoff], readers: rs, readers_first: false });
    }
    // F5. the same programs with the referencing closures written BEFORE the state pipeline
    // (the reference alone must order the producer first): a subset of F1a, F2 and F3.
    let rf: Vec<RefProg> = out
        .iter()
        .filter(|p| {
            (p.name.starts_with("c25_settled_") && p.name.ends_with("_map"))
                || (p.name.starts_with("c25_two_foldT_") && p.name.ends_with("_own"))
                || p.name.starts_with("c25_three_msm_")
                || p.name.starts_with("c25_pipe_union_shared")
                || p.name.starts_with("c25_pipe_hoff+map_shared")
        })
        .map(|p| {
            let mut q = p.clone();
            q.name = format!("{}_rf", p.name);
            q.readers_first = true;
            q
        })
        .collect();
    out.extend(rf);
    out
}

// -------------------------------------------------------------------------------------------------
// C25 slot family: a handoff()/optional()/singleton() slot with BOTH a pipe consumer (which drains
// it) and several `#slot` readers.
// -------------------------------------------------------------------------------------------------

#[derive(Clone, Copy, Debug, PartialEq, Eq, Hash)]
pub enum SlotKind {
    Handoff,
    Optional,
    Singleton,
}

#[derive(Clone, Debug)]
pub struct SlotProg {
    pub name: String,
    pub kind: SlotKind,
    /// Same-tick pipeline in front of the slot: nothing or one map.
    pub pipe_map: bool,
    /// Pipe consumer: `for_each` or `map -> for_each`.
    pub consumer_map: bool,
    /// Pipe consumer sits behind `defer_tick()` (Some(false)) / `defer_tick_lazy()` (Some(true)):
    /// the slot is then a double-buffered handoff and the consumer sees the contents one tick later.
    pub consumer_defer: Option<bool>,
    /// Readers (all shared references), id = index.
    pub readers: Vec<Reader>,
    /// Textual order of the statements after the slot definition: 0 = the pipe consumer,
    /// i + 1 = reader i.
    pub order: Vec<usize>,
}

impl SlotProg {
    pub fn n_sources(&self) -> usize {
        1 + self.readers.len()
    }
    fn enc_expr(&self) -> &'static str {
        match self.kind {
            SlotKind::Handoff => "r.iter().fold(0i64, |v: i64, x: &It| v * 32 + (x.0 as i64 * 4 + x.1 as i64 + 1))",
            SlotKind::Optional => "r.map(|v| v.0 as i64 * 256 + v.1 as i64).unwrap_or(-1)",
            SlotKind::Singleton => "(r.0 as i64 * 256 + r.1 as i64)",
        }
    }
    pub fn dfir_text(&self) -> String {
        let pad = "        ";
        let mut s = String::new();
        let pipe = if self.pipe_map { " -> map(|x: It| (x.0 + 1, x.1))" } else { "" };
        let slot = match self.kind {
            SlotKind::Handoff => "handoff()".to_string(),
            SlotKind::Optional => {
                "reduce::<'tick>(|a: &mut It, x: It| { a.0 = a.0.max(x.0); a.1 = a.1.wrapping_add(x.0); }) -> optional()".to_string()
            }
            SlotKind::Singleton => {
                "fold::<'tick>(|| (0u8, 0u8), |a: &mut It, x: It| { a.0 = a.0.wrapping_add(1); a.1 = a.1.wrapping_add(x.0); }) -> singleton()".to_string()
            }
        };
        s.push_str(&format!("{pad}sl = source_stream(rx0){pipe} -> {slot};\n"));
        for &o in &self.order {
            if o == 0 {
                let m = if self.consumer_map { "map(|x: It| (x.0, x.1)) -> " } else { "" };
                let m = match self.consumer_defer {
                    None => m.to_string(),
                    Some(false) => format!("defer_tick() -> {m}"),
                    Some(true) => format!("defer_tick_lazy() -> {m}"),
                };
                s.push_str(&format!("{pad}sl -> {m}for_each(|x: It| io.item(1, context.current_tick().0, x));\n"));
            } else {
                let rd = &self.readers[o - 1];
                let grp = rd.group.map(|g| format!("{{{g}}} ")).unwrap_or_default();
                let body = if rd.is_mut {
                    format!(
                        "let r = #{grp}mut sl; let before = {e}; r.push((0u8, x.0)); let after = {e}; io.rlog({id}, context.current_tick().0, x.0, before, after);",
                        e = self.enc_expr(),
                        id = rd.id
                    )
                } else {
                    format!(
                        "let r = #{grp}sl; let v = {}; io.rlog({}, context.current_tick().0, x.0, v, v);",
                        self.enc_expr(),
                        rd.id
                    )
                };
                let cl = match rd.kind {
                    CK::Map => format!("map(|x: It| {{ {body} x }})"),
                    CK::Filter => format!("filter(|x: &It| {{ {body} true }})"),
                    CK::Inspect => format!("inspect(|x: &It| {{ {body} }})"),
                    CK::FlatMap => format!("flat_map(|x: It| {{ {body} [x] }})"),
                };
                s.push_str(&format!("{pad}source_stream(rx{}) -> {cl} -> for_each(|_x: It| ());\n", rd.id + 1));
            }
        }
        s
    }
}

/// Expected observation of a C25 program.
#[derive(Clone, Debug, PartialEq, Eq)]
pub struct C25Expect {
    pub readers: BTreeMap<usize, Vec<RLog>>,
    /// For slot programs: what the slot's pipe consumer receives, per tick (sorted).
    pub consumer: Option<Vec<Vec<It>>>,
}

pub fn expect_slot(p: &SlotProg, h: &History) -> C25Expect {
    let mut readers: BTreeMap<usize, Vec<RLog>> = p.readers.iter().map(|r| (r.id, vec![])).collect();
    let mut consumer = vec![];
    for (t, st) in h.iter().enumerate() {
        let per_src = |k: usize| -> Vec<It> { st.sends.iter().filter(|(s, _)| *s == k).map(|(_, x)| *x).collect() };
        let mut cur = per_src(0);
        if p.pipe_map {
            cur = cur.into_iter().map(|x| (x.0 + 1, x.1)).collect();
        }
        // Full same-tick contents of the slot (after ALL of its producers ran).
        let (val, mut drained): (i64, Vec<It>) = match p.kind {
            SlotKind::Handoff => (cur.iter().fold(0i64, |v, x| v * 32 + (x.0 as i64 * 4 + x.1 as i64 + 1)), cur.clone()),
            SlotKind::Optional => {
                let mut a: Option<It> = None;
                for x in &cur {
                    a = Some(match a {
                        None => *x,
                        Some(a) => (a.0.max(x.0), a.1.wrapping_add(x.0)),
                    });
                }
                (a.map(|v| v.0 as i64 * 256 + v.1 as i64).unwrap_or(-1), a.into_iter().collect())
            }
            SlotKind::Singleton => {
                let mut a: It = (0, 0);
                for x in &cur {
                    a = (a.0.wrapping_add(1), a.1.wrapping_add(x.0));
                }
                (a.0 as i64 * 256 + a.1 as i64, vec![a])
            }
        };
        // Readers in ascending access-group order; a mutating reader (handoff slots only) appends
        // (0, item) to the buffer.
        let enc = |v: &Vec<It>| v.iter().fold(0i64, |a, x| a * 32 + (x.0 as i64 * 4 + x.1 as i64 + 1));
        let mut val = val;
        let mut groups: Vec<Option<u32>> = p.readers.iter().map(|r| r.group).collect();
        groups.sort();
        groups.dedup();
        for g in groups {
            for r in p.readers.iter().filter(|r| r.group == g) {
                for x in per_src(r.id + 1) {
                    let before = val;
                    if r.is_mut {
                        drained.push((0, x.0));
                        val = enc(&drained);
                    }
                    readers.get_mut(&r.id).unwrap().push(RLog { reader: r.id, tick: t as u64, item: x.0, before, after: val });
                }
            }
        }
        drained.sort();
        consumer.push(drained);
    }
    if p.consumer_defer.is_some() {
        // The consumer behind a defer sees tick t's contents in tick t+1.
        consumer.insert(0, vec![]);
        consumer.pop();
    }
    C25Expect { readers, consumer: Some(consumer) }
}

pub fn family_c25_slot() -> Vec<SlotProg> {
    let mut out = vec![];
    let kinds = [(SlotKind::Handoff, "handoff"), (SlotKind::Optional, "optional"), (SlotKind::Singleton, "singleton")];
    let gname = |g: &[Option<u32>]| -> String { g.iter().map(|x| x.map(|v| v.to_string()).unwrap_or("n".into())).collect() };
    let mut n = 0usize;
    // Two readers: default group, one explicit shared group, two explicit groups; all 3! orders
    // of {consumer, reader 0, reader 1}.
    for (kind, kn) in kinds {
        for groups in [[None, None], [Some(0), Some(0)], [Some(0), Some(1)]] {
            for perm in permutations(3) {
                n += 1;
                let readers: Vec<Reader> =
                    (0..2).map(|i| Reader { id: i, kind: ck_of(i + n), group: groups[i], is_mut: false, shared_input: false }).collect();
                out.push(SlotProg {
                    name: format!("c25_slotref_{kn}_g{}_ord{}{}{}", gname(&groups), perm[0], perm[1], perm[2]),
                    kind,
                    pipe_map: n % 2 == 0,
                    consumer_map: n % 3 == 0,
                    consumer_defer: None,
                    readers,
                    order: perm,
                });
            }
        }
    }
    // Three readers: consumer at each of the 4 positions x reader orders 012 / 210 / 120.
    for ((kind, kn), groups) in kinds.into_iter().zip([[None, None, None], [Some(0), Some(1), Some(1)], [Some(2), Some(2), Some(2)]]) {
        for ro in [[1usize, 2, 3], [3, 2, 1], [2, 3, 1]] {
            for cpos in 0..4usize {
                n += 1;
                let mut order: Vec<usize> = ro.to_vec();
                order.insert(cpos, 0);
                let readers: Vec<Reader> =
                    (0..3).map(|i| Reader { id: i, kind: ck_of(i + n), group: groups[i], is_mut: false, shared_input: false }).collect();
                out.push(SlotProg {
                    name: format!("c25_slotref_{kn}_g{}_ord{}{}{}{}", gname(&groups), order[0], order[1], order[2], order[3]),
                    kind,
                    pipe_map: n % 2 == 0,
                    consumer_map: n % 3 == 0,
                    consumer_defer: None,
                    readers,
                    order,
                });
            }
        }
    }
    // Slot whose pipe consumer sits behind defer_tick / defer_tick_lazy (double-buffered handoff):
    // one shared reader, two shared readers, and a `#{0} mut` + `#{1}` pair; all statement orders.
    for lazy in [false, true] {
        let cfgs: Vec<(&str, Vec<(Option<u32>, bool)>)> = vec![
            ("s", vec![(None, false)]),
            ("ss", vec![(None, false), (None, false)]),
            ("m0s1", vec![(Some(0), true), (Some(1), false)]),
        ];
        for (tag, cfg) in cfgs {
            for perm in permutations(cfg.len() + 1) {
                n += 1;
                let readers: Vec<Reader> = cfg
                    .iter()
                    .enumerate()
                    .map(|(i, &(g, m))| Reader { id: i, kind: ck_of(i + n), group: g, is_mut: m, shared_input: false })
                    .collect();
                let ord: String = perm.iter().map(|x| x.to_string()).collect();
                out.push(SlotProg {
                    name: format!("c25_slotref_handoff_defer{}_{tag}_ord{ord}", if lazy { "L" } else { "T" }),
                    kind: SlotKind::Handoff,
                    pipe_map: n % 2 == 0,
                    consumer_map: n % 3 == 0,
                    consumer_defer: Some(lazy),
                    readers,
                    order: perm,
                });
            }
        }
    }
    out
}

/// The whole C25 family: reference programs first, then slot programs.
#[derive(Clone, Debug)]
pub enum C25Prog {
    Ref(RefProg),
    Slot(SlotProg),
}

impl C25Prog {
    pub fn name(&self) -> String {
        match self {
            C25Prog::Ref(p) => p.name.clone(),
            C25Prog::Slot(p) => p.name.clone(),
        }
    }
    pub fn dfir_text(&self) -> String {
        match self {
            C25Prog::Ref(p) => p.dfir_text(),
            C25Prog::Slot(p) => p.dfir_text(),
        }
    }
    pub fn n_sources(&self) -> usize {
        match self {
            C25Prog::Ref(p) => p.n_sources(),
            C25Prog::Slot(p) => p.n_sources(),
        }
    }
    pub fn readers(&self) -> &[Reader] {
        match self {
            C25Prog::Ref(p) => &p.readers,
            C25Prog::Slot(p) => &p.readers,
        }
    }
    pub fn expect(&self, h: &History) -> C25Expect {
        match self {
            C25Prog::Ref(p) => C25Expect { readers: expect_ref(p, h), consumer: None },
            C25Prog::Slot(p) => expect_slot(p, h),
        }
    }
}

pub fn family_c25_all() -> Vec<C25Prog> {
    family_c25().into_iter().map(C25Prog::Ref).chain(family_c25_slot().into_iter().map(C25Prog::Slot)).collect()
}

// =================================================================================================
// Code generation (used by build.rs)
// =================================================================================================

pub fn fn_text(fn_name: &str, n_sources: usize, body: &str) -> String {
    let mut s = String::new();
    s.push_str(&format!("#[allow(unused_variables, unused_mut, unused_parens, clippy::all)]\npub fn {fn_name}(io: Io, mut rx: Vec<Src>) -> DfirErased {{\n"));
    for k in (0..n_sources).rev() {
        s.push_str(&format!("    let rx{k} = rx.pop().unwrap();\n"));
    }
    s.push_str("    let df = dfir_syntax! {\n");
    s.push_str(body);
    s.push_str("    };\n    df.into_erased()\n}\n\n");
    s
}
