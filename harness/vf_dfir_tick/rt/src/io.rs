//! Runtime support used by the generated programs: input streams with a tick budget, the shared
//! observation log, block sinks with an iteration budget, and the echo senders.
use std::cell::{Cell, RefCell};
use std::pin::Pin;
use std::rc::Rc;
use std::task::{Context, Poll};

use dfir_rs::futures::Stream;
use dfir_rs::tokio::sync::mpsc::UnboundedSender;
use dfir_rs::tokio_stream::wrappers::UnboundedReceiverStream;

use crate::family::{ITER_BUDGET, It, TICK_BUDGET};

#[derive(Clone, Debug, PartialEq, Eq, Hash)]
pub enum Ev {
    Item { sink: usize, tick: u64, item: It },
    Block { sink: usize, tick: u64, items: Vec<It> },
    Ref { reader: usize, tick: u64, item: u8, before: i64, after: i64 },
}

/// `source_stream` input: the repo's own unbounded channel stream, plus a counter of `Pending`
/// answers (one per tick, because `source_stream` polls until `Pending` exactly once per tick).
/// When the counter exceeds the budget the stream panics, which turns a run_available that never
/// becomes idle into an observable failure instead of a stuck process.
pub struct Src {
    inner: UnboundedReceiverStream<It>,
    pendings: Rc<Cell<usize>>,
    limit: usize,
}

impl Stream for Src {
    type Item = It;
    fn poll_next(mut self: Pin<&mut Self>, cx: &mut Context<'_>) -> Poll<Option<It>> {
        let r = Pin::new(&mut self.inner).poll_next(cx);
        if r.is_pending() {
            let n = self.pendings.get() + 1;
            self.pendings.set(n);
            if n > self.limit {
                panic!("TICK-BUDGET: more than {} ticks in one run call", TICK_BUDGET);
            }
        }
        r
    }
}

pub struct IoInner {
    pub log: RefCell<Vec<Ev>>,
    blk: RefCell<Vec<Vec<It>>>,
    blk_count: RefCell<Vec<(u64, usize)>>,
    senders: Vec<UnboundedSender<It>>,
    pendings: Rc<Cell<usize>>,
}

#[derive(Clone)]
pub struct Io(pub Rc<IoInner>);

impl Io {
    pub fn new(n_sources: usize) -> (Io, Vec<Src>) {
        let pendings = Rc::new(Cell::new(0));
        let mut senders = vec![];
        let mut srcs = vec![];
        for _ in 0..n_sources {
            let (tx, rx) = dfir_rs::util::unbounded_channel::<It>();
            senders.push(tx);
            srcs.push(Src { inner: rx, pendings: pendings.clone(), limit: (TICK_BUDGET + 2) * n_sources });
        }
        let io = Io(Rc::new(IoInner {
            log: RefCell::new(vec![]),
            blk: RefCell::new(vec![vec![]; 8]),
            blk_count: RefCell::new(vec![(u64::MAX, 0); 8]),
            senders,
            pendings,
        }));
        (io, srcs)
    }
    pub fn reset_budget(&self) {
        self.0.pendings.set(0);
    }
    pub fn send(&self, src: usize, x: It) {
        self.0.senders[src].send(x).expect("harness: receiver dropped");
    }
    pub fn take_log(&self) -> Vec<Ev> {
        std::mem::take(&mut *self.0.log.borrow_mut())
    }

    // ---- called from generated programs ----
    pub fn item(&self, sink: usize, tick: u64, item: It) {
        self.0.log.borrow_mut().push(Ev::Item { sink, tick, item });
    }
    pub fn blk_push(&self, sink: usize, item: It) {
        self.0.blk.borrow_mut()[sink].push(item);
    }
    /// Called once per execution of the loop body that contains block sink `sink`.
    pub fn blk_end(&self, sink: usize, tick: u64) {
        let items = std::mem::take(&mut self.0.blk.borrow_mut()[sink]);
        self.0.log.borrow_mut().push(Ev::Block { sink, tick, items });
        let mut c = self.0.blk_count.borrow_mut();
        if c[sink].0 != tick {
            c[sink] = (tick, 0);
        }
        c[sink].1 += 1;
        if c[sink].1 > ITER_BUDGET * 4 {
            panic!("ITER-BUDGET: loop body with sink {} ran more than {} times in tick {}", sink, ITER_BUDGET * 4, tick);
        }
    }
    pub fn echo(&self, src: usize, x: It) {
        self.send(src, x);
    }
    pub fn rlog(&self, reader: usize, tick: u64, item: u8, before: i64, after: i64) {
        self.0.log.borrow_mut().push(Ev::Ref { reader, tick, item, before, after });
    }
}
