//! Shared by the driver binary and the generated-program shards: program families + reference
//! interpreters (`family`), runtime support for generated programs (`io`).
pub mod family;
pub mod io;

pub use dfir_rs::scheduled::context::DfirErased;

pub struct ProgEntry {
    /// Index inside the family (family_c24()[index] is the description of this program).
    pub index: usize,
    pub name: &'static str,
    /// The text inside `dfir_syntax!{ .. }`.
    pub text: &'static str,
    pub n_sources: usize,
    pub build: fn(io::Io, Vec<io::Src>) -> DfirErased,
}
