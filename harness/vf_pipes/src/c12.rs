//! C12 — push combinators deliver the right items and honour the push protocol.
use std::cell::RefCell;
use std::collections::HashMap;
use std::fmt::Debug;
use std::hash::Hash;
use std::pin::{Pin, pin};
use std::rc::Rc;
use std::task::{Context as TaskCx, Poll, Waker};

use dfir_pipes::pull::Pull;
use dfir_pipes::push::{self, FoldKeyed, ReduceKeyed, SortState};
use dfir_pipes::{Sink, Stream};
use futures_util::stream::{FuturesOrdered, FuturesUnordered};
use vf_explore::hash_of;

use crate::c11::{inner, keep};
use crate::common::{CaseOut, Cx, Section, sec, sec_thorough};
use crate::env::{CheckPush, DownRef, STEP_CAP, ScriptFut, ScriptSink, ScriptStream, down, drive_future, drive_push};

/// Whether the driver announces a size hint first (the trait allows "once, several times or never").
fn drv_hint(cx: &Cx) -> Option<(usize, Option<usize>)> {
    let n = cx.a.len();
    if cx.thorough && cx.env.free(2) == 1 { None } else { Some((n, Some(n))) }
}

#[derive(Clone, Copy)]
enum Order {
    Seq,
    /// Emission order unspecified (hash-map iteration): compare as multisets.
    Multiset,
}

fn expect_down<T: PartialEq + Debug + Clone + Ord>(cx: &Cx, d: &DownRef<T>, want: &[T], order: Order) {
    let d = d.borrow();
    let id = d.id;
    let ok = match order {
        Order::Seq => d.items == want,
        Order::Multiset => {
            let (mut g, mut w) = (d.items.clone(), want.to_vec());
            g.sort();
            w.sort();
            g == w
        }
    };
    if !ok {
        cx.env.fault(format!("items@d{id}"), format!("downstream {id}: expected {want:?}, received {:?}", d.items));
    }
    if !d.finalized {
        cx.env.fault(format!("not-finalized@d{id}"), format!("downstream {id} was never finalized"));
    }
}

fn out1<T: Hash>(params: String, pend: u32, d: &DownRef<T>) -> CaseOut {
    let d = d.borrow();
    CaseOut { params, observed: hash_of(&(&d.items, pend, d.polls_after_final)), diff: None }
}
fn out1_sorted<T: Hash + Ord + Clone>(params: String, pend: u32, d: &DownRef<T>) -> CaseOut {
    let d = d.borrow();
    let mut items = d.items.clone();
    items.sort();
    CaseOut { params, observed: hash_of(&(&items, pend, d.polls_after_final)), diff: None }
}
fn out2<T: Hash, U: Hash>(params: String, pend: u32, d0: &DownRef<T>, d1: &DownRef<U>) -> CaseOut {
    let (d0, d1) = (d0.borrow(), d1.borrow());
    CaseOut { params, observed: hash_of(&(&d0.items, &d1.items, pend, d0.polls_after_final, d1.polls_after_final)), diff: None }
}

fn p_map(cx: &Cx) -> CaseOut {
    let d = down::<u8>(0);
    let p = push::map(|x: u8| x + 10, CheckPush::new(&cx.env, &d));
    let pend = drive_push(&cx.env, pin!(p), cx.a.clone(), drv_hint(cx));
    let want: Vec<u8> = cx.a.iter().map(|x| x + 10).collect();
    expect_down(cx, &d, &want, Order::Seq);
    out1(String::new(), pend, &d)
}

fn p_filter(cx: &Cx) -> CaseOut {
    let mask = cx.env.free(8);
    let d = down::<u8>(0);
    let p = push::filter(move |x: &u8| keep(mask, *x), CheckPush::new(&cx.env, &d));
    let pend = drive_push(&cx.env, pin!(p), cx.a.clone(), drv_hint(cx));
    let want: Vec<u8> = cx.a.iter().copied().filter(|x| keep(mask, *x)).collect();
    expect_down(cx, &d, &want, Order::Seq);
    out1(format!("mask={mask:03b}"), pend, &d)
}

fn p_filter_map(cx: &Cx) -> CaseOut {
    let mask = cx.env.free(8);
    let d = down::<u8>(0);
    let p = push::filter_map(move |x: u8| keep(mask, x).then_some(x + 20), CheckPush::new(&cx.env, &d));
    let pend = drive_push(&cx.env, pin!(p), cx.a.clone(), drv_hint(cx));
    let want: Vec<u8> = cx.a.iter().copied().filter_map(|x| keep(mask, x).then_some(x + 20)).collect();
    expect_down(cx, &d, &want, Order::Seq);
    out1(format!("mask={mask:03b}"), pend, &d)
}

fn p_flat_map(cx: &Cx) -> CaseOut {
    let d = down::<u8>(0);
    let p = push::flat_map(inner, CheckPush::new(&cx.env, &d));
    let pend = drive_push(&cx.env, pin!(p), cx.a.clone(), drv_hint(cx));
    let want: Vec<u8> = cx.a.iter().copied().flat_map(inner).collect();
    expect_down(cx, &d, &want, Order::Seq);
    out1(String::new(), pend, &d)
}

fn p_flatten(cx: &Cx) -> CaseOut {
    let d = down::<u8>(0);
    let p = push::flatten::<Vec<u8>, (), _>(CheckPush::new(&cx.env, &d));
    let pend = drive_push(&cx.env, pin!(p), cx.a.iter().copied().map(inner).collect::<Vec<_>>(), drv_hint(cx));
    let want: Vec<u8> = cx.a.iter().copied().flat_map(inner).collect();
    expect_down(cx, &d, &want, Order::Seq);
    out1(String::new(), pend, &d)
}

fn p_inspect(cx: &Cx) -> CaseOut {
    let d = down::<u8>(0);
    let log = Rc::new(RefCell::new(Vec::<u8>::new()));
    let l = log.clone();
    let p = push::inspect(move |x: &u8| l.borrow_mut().push(*x), CheckPush::new(&cx.env, &d));
    let pend = drive_push(&cx.env, pin!(p), cx.a.clone(), drv_hint(cx));
    expect_down(cx, &d, &cx.a, Order::Seq);
    if *log.borrow() != cx.a {
        cx.env.fault("inspect-log", format!("closure saw {:?}, input was {:?}", log.borrow(), cx.a));
    }
    out1(String::new(), pend, &d)
}

fn p_fanout(cx: &Cx) -> CaseOut {
    let (d0, d1) = (down::<u8>(0), down::<u8>(1));
    let p = push::fanout(CheckPush::new(&cx.env, &d0), CheckPush::new(&cx.env, &d1));
    let pend = drive_push(&cx.env, pin!(p), cx.a.clone(), drv_hint(cx));
    expect_down(cx, &d0, &cx.a, Order::Seq);
    expect_down(cx, &d1, &cx.a, Order::Seq);
    out2(String::new(), pend, &d0, &d1)
}

fn p_unzip(cx: &Cx) -> CaseOut {
    let (d0, d1) = (down::<u8>(0), down::<u8>(1));
    let p = push::unzip(CheckPush::new(&cx.env, &d0), CheckPush::new(&cx.env, &d1));
    let pend = drive_push(&cx.env, pin!(p), cx.a.iter().map(|x| (*x, x + 10)).collect::<Vec<_>>(), drv_hint(cx));
    expect_down(cx, &d0, &cx.a, Order::Seq);
    let want1: Vec<u8> = cx.a.iter().map(|x| x + 10).collect();
    expect_down(cx, &d1, &want1, Order::Seq);
    out2(String::new(), pend, &d0, &d1)
}

/// Three-way demux: item `x` goes to downstream `x`.
fn p_demux_var(cx: &Cx) -> CaseOut {
    let (d0, d1, d2) = (down::<u8>(0), down::<u8>(1), down::<u8>(2));
    let pushes = (CheckPush::new(&cx.env, &d0), (CheckPush::new(&cx.env, &d1), (CheckPush::new(&cx.env, &d2), ())));
    let p = push::demux_var(pushes);
    let pend = drive_push(&cx.env, pin!(p), cx.a.iter().map(|x| (*x as usize, x + 10)).collect::<Vec<_>>(), drv_hint(cx));
    for (i, d) in [&d0, &d1, &d2].into_iter().enumerate() {
        let want: Vec<u8> = cx.a.iter().copied().filter(|x| *x as usize == i).map(|x| x + 10).collect();
        expect_down(cx, d, &want, Order::Seq);
    }
    let h = hash_of(&(&d0.borrow().items, &d1.borrow().items, &d2.borrow().items, pend));
    CaseOut { params: String::new(), observed: h, diff: None }
}

fn step(acc: &mut u32, x: u8) {
    *acc = *acc * 10 + x as u32 + 1;
}
fn fold_ref(init: u32, a: &[u8]) -> u32 {
    let mut acc = init;
    for x in a {
        step(&mut acc, *x);
    }
    acc
}

fn p_fold(cx: &Cx) -> CaseOut {
    let d = down::<u32>(0);
    let want = vec![fold_ref(5, &cx.a)];
    let (pend, params) = if cx.env.free(2) == 0 {
        let p = push::fold::<u32, _, u32, u8, _>(5u32, step, CheckPush::new(&cx.env, &d));
        (drive_push(&cx.env, pin!(p), cx.a.clone(), drv_hint(cx)), "owned")
    } else {
        let mut acc = 5u32;
        let pend = {
            let p = push::fold::<&mut u32, _, u32, u8, _>(&mut acc, step, push::map(|r: &mut u32| *r, CheckPush::new(&cx.env, &d)));
            drive_push(&cx.env, pin!(p), cx.a.clone(), drv_hint(cx))
        };
        if acc != want[0] {
            cx.env.fault("state", format!("borrowed accumulator is {acc}, expected {}", want[0]));
        }
        (pend, "borrowed")
    };
    expect_down(cx, &d, &want, Order::Seq);
    out1(params.into(), pend, &d)
}

fn reduce_refm(init: Option<u32>, a: &[u8]) -> Option<u32> {
    let mut acc = init;
    for x in a {
        match &mut acc {
            Some(v) => step(v, *x),
            None => acc = Some(*x as u32),
        }
    }
    acc
}

fn p_reduce(cx: &Cx) -> CaseOut {
    let d = down::<u32>(0);
    let init = if cx.env.free(2) == 1 { Some(5u32) } else { None };
    let want: Vec<u32> = reduce_refm(init, &cx.a).into_iter().collect();
    let items: Vec<u32> = cx.a.iter().map(|x| *x as u32).collect();
    let f = |a: &mut u32, x: u32| step(a, x as u8);
    let (pend, mode) = if cx.env.free(2) == 0 {
        let p = push::reduce(init, f, CheckPush::new(&cx.env, &d));
        (drive_push(&cx.env, pin!(p), items, drv_hint(cx)), "owned")
    } else {
        let mut acc = init;
        let pend = {
            let p = push::reduce_ref(&mut acc, f, push::map(|r: &mut u32| *r, CheckPush::new(&cx.env, &d)));
            drive_push(&cx.env, pin!(p), items, drv_hint(cx))
        };
        if acc != reduce_refm(init, &cx.a) {
            cx.env.fault("state", format!("borrowed accumulator is {acc:?}"));
        }
        (pend, "borrowed")
    };
    expect_down(cx, &d, &want, Order::Seq);
    out1(format!("init={init:?} {mode}"), pend, &d)
}

fn p_sort(cx: &Cx) -> CaseOut {
    let d = down::<u8>(0);
    let mut want = cx.a.clone();
    want.sort();
    let (pend, which) = if cx.env.free(2) == 0 {
        let p = push::accumulate(SortState::<u8>::new(), CheckPush::new(&cx.env, &d));
        (drive_push(&cx.env, pin!(p), cx.a.clone(), drv_hint(cx)), "Accumulate<SortState>")
    } else {
        let p = push::sort(CheckPush::new(&cx.env, &d));
        (drive_push(&cx.env, pin!(p), cx.a.clone(), drv_hint(cx)), "Sort")
    };
    expect_down(cx, &d, &want, Order::Seq);
    out1(which.into(), pend, &d)
}

fn kv(x: u8) -> (u8, u8) {
    (x % 2, x)
}

fn p_fold_keyed(cx: &Cx) -> CaseOut {
    let d = down::<(u8, u32)>(0);
    let prefilled = cx.env.free(2) == 1;
    let mut map: HashMap<u8, u32> = HashMap::new();
    if prefilled {
        map.insert(1, 7);
    }
    let mut model: std::collections::BTreeMap<u8, u32> = map.iter().map(|(k, v)| (*k, *v)).collect();
    for (k, v) in cx.a.iter().copied().map(kv) {
        step(model.entry(k).or_insert(3), v);
    }
    let pend = {
        let p = FoldKeyed::new(&mut map, || 3u32, step, CheckPush::new(&cx.env, &d));
        drive_push(&cx.env, pin!(p), cx.a.iter().copied().map(kv).collect::<Vec<_>>(), drv_hint(cx))
    };
    let want: Vec<(u8, u32)> = model.iter().map(|(k, v)| (*k, *v)).collect();
    expect_down(cx, &d, &want, Order::Multiset);
    let mut got: Vec<(u8, u32)> = map.into_iter().collect();
    got.sort();
    if got != want {
        cx.env.fault("state", format!("map is {got:?}, expected {want:?}"));
    }
    out1_sorted(format!("prefilled={prefilled}"), pend, &d)
}

fn p_reduce_keyed(cx: &Cx) -> CaseOut {
    let d = down::<(u8, u32)>(0);
    let prefilled = cx.env.free(2) == 1;
    let mut map: HashMap<u8, u32> = HashMap::new();
    if prefilled {
        map.insert(1, 7);
    }
    let mut model: std::collections::BTreeMap<u8, u32> = map.iter().map(|(k, v)| (*k, *v)).collect();
    for (k, v) in cx.a.iter().copied().map(kv) {
        match model.get_mut(&k) {
            Some(acc) => step(acc, v),
            None => {
                model.insert(k, v as u32);
            }
        }
    }
    let pend = {
        let p = ReduceKeyed::new(&mut map, |a: &mut u32, x: u32| step(a, x as u8), CheckPush::new(&cx.env, &d));
        drive_push(&cx.env, pin!(p), cx.a.iter().copied().map(kv).map(|(k, v)| (k, v as u32)).collect::<Vec<_>>(), drv_hint(cx))
    };
    let want: Vec<(u8, u32)> = model.iter().map(|(k, v)| (*k, *v)).collect();
    expect_down(cx, &d, &want, Order::Multiset);
    out1_sorted(format!("prefilled={prefilled}"), pend, &d)
}

fn p_persist(cx: &Cx) -> CaseOut {
    let d = down::<u8>(0);
    let replay = cx.env.free(2) == 1;
    let pre = cx.env.free(3);
    let mut buf: Vec<u8> = [vec![], vec![7], vec![7, 8]][pre].clone();
    let mut want: Vec<u8> = if replay { buf.clone() } else { vec![] };
    want.extend(&cx.a);
    let mut want_buf = buf.clone();
    want_buf.extend(&cx.a);
    let pend = {
        let p = push::persist_state(&mut buf, replay, CheckPush::new(&cx.env, &d));
        drive_push(&cx.env, pin!(p), cx.a.clone(), drv_hint(cx))
    };
    expect_down(cx, &d, &want, Order::Seq);
    if buf != want_buf {
        cx.env.fault("state", format!("persisted buffer is {buf:?}, expected {want_buf:?}"));
    }
    out1(format!("replay={replay} prefilled={pre}"), pend, &d)
}

/// Scripted futures resolve to `x + 30` after the chooser-determined number of Pending polls.
/// `subgraph_waker = None`: the operator blocks until every future is resolved, so all outputs
/// must be delivered before finalize completes. `Some(waker)`: unresolved futures are documented
/// to stay queued for a later tick, so delivered + still-queued must account for every future.
fn p_resolve_futures(cx: &Cx) -> CaseOut {
    let d = down::<u8>(0);
    let ordered = cx.env.free(2) == 1;
    let with_waker = cx.env.free(2) == 1;
    let waker = with_waker.then(|| Waker::noop().clone());
    let futs: Vec<ScriptFut<u8>> = cx.a.iter().map(|x| ScriptFut::new(&cx.env, x + 30)).collect();
    let all: Vec<u8> = cx.a.iter().map(|x| x + 30).collect();
    let (pend, left) = if ordered {
        let mut q = FuturesOrdered::<ScriptFut<u8>>::new();
        let pend = {
            let p = push::resolve_futures_state(&mut q, waker, CheckPush::new(&cx.env, &d));
            drive_push(&cx.env, pin!(p), futs, drv_hint(cx))
        };
        (pend, q.len())
    } else {
        let mut q = FuturesUnordered::<ScriptFut<u8>>::new();
        let pend = {
            let p = push::resolve_futures_state(&mut q, waker, CheckPush::new(&cx.env, &d));
            drive_push(&cx.env, pin!(p), futs, drv_hint(cx))
        };
        (pend, q.len())
    };
    if !with_waker {
        expect_down(cx, &d, &all, if ordered { Order::Seq } else { Order::Multiset });
        if left != 0 {
            cx.env.fault("state", format!("{left} future(s) left in the queue after finalize"));
        }
    } else {
        let db = d.borrow();
        let ok = if ordered {
            all.starts_with(&db.items)
        } else {
            let mut rest = all.clone();
            db.items.iter().all(|x| rest.iter().position(|y| y == x).map(|i| rest.swap_remove(i)).is_some())
        };
        if !ok || db.items.len() + left != all.len() {
            cx.env.fault(
                "items@d0",
                format!("outputs {all:?}: delivered {:?} with {left} future(s) still queued", db.items),
            );
        }
        if !db.finalized {
            cx.env.fault("not-finalized@d0", "downstream 0 was never finalized");
        }
    }
    out1(format!("ordered={ordered} subgraph_waker={with_waker}"), pend + left as u32 * 1000, &d)
}

fn p_filter_map_async(cx: &Cx) -> CaseOut {
    let mask = cx.env.free(8);
    let d = down::<u8>(0);
    let env = cx.env.clone();
    let p = push::filter_map_async(move |x: u8| ScriptFut::new(&env, keep(mask, x).then_some(x + 20)), CheckPush::new(&cx.env, &d));
    let pend = drive_push(&cx.env, pin!(p), cx.a.clone(), drv_hint(cx));
    let want: Vec<u8> = cx.a.iter().copied().filter_map(|x| keep(mask, x).then_some(x + 20)).collect();
    expect_down(cx, &d, &want, Order::Seq);
    out1(format!("mask={mask:03b}"), pend, &d)
}

fn p_flat_map_stream(cx: &Cx) -> CaseOut {
    let d = down::<u8>(0);
    let env = cx.env.clone();
    let p = push::flat_map_stream(move |x: u8| ScriptStream::<u8, false>::new(&env, 8, inner(x)), CheckPush::new(&cx.env, &d));
    let pend = drive_push(&cx.env, pin!(p), cx.a.clone(), drv_hint(cx));
    let want: Vec<u8> = cx.a.iter().copied().flat_map(inner).collect();
    expect_down(cx, &d, &want, Order::Seq);
    out1(String::new(), pend, &d)
}

fn p_flatten_stream(cx: &Cx) -> CaseOut {
    let d = down::<u8>(0);
    let p = push::flatten_stream::<ScriptStream<u8, false>, (), _>(CheckPush::new(&cx.env, &d));
    let streams: Vec<_> = cx.a.iter().map(|x| ScriptStream::<u8, false>::new(&cx.env, 8, inner(*x))).collect();
    let pend = drive_push(&cx.env, pin!(p), streams, drv_hint(cx));
    let want: Vec<u8> = cx.a.iter().copied().flat_map(inner).collect();
    expect_down(cx, &d, &want, Order::Seq);
    out1(String::new(), pend, &d)
}

/// `push::sink` over a scripted, protocol-checking `futures::Sink`; finalize must flush.
fn p_sink(cx: &Cx) -> CaseOut {
    let d = down::<u8>(0);
    let p = push::sink::<_, u8>(ScriptSink::new(&cx.env, &d));
    let pend = drive_push(&cx.env, pin!(p), cx.a.clone(), drv_hint(cx));
    {
        let db = d.borrow();
        if db.items != cx.a {
            cx.env.fault("items@d0", format!("expected {:?}, sink received {:?}", cx.a, db.items));
        }
        if db.flushed_upto != db.items.len() {
            cx.env.fault("not-finalized@d0", format!("only {} of {} item(s) flushed when finalize completed", db.flushed_upto, db.items.len()));
        }
    }
    out1(String::new(), pend, &d)
}

/// `push::sink_compat` turns a `Push` into a `futures::Sink`: drive it with the Sink protocol
/// (poll_ready until Ready, start_send, ..., poll_close until Ready).
fn p_sink_compat(cx: &Cx) -> CaseOut {
    let d = down::<u8>(0);
    let s = push::sink_compat::<_, u8>(CheckPush::new(&cx.env, &d));
    let mut s = pin!(s);
    let mut tcx = TaskCx::from_waker(Waker::noop());
    let mut pend = 0u32;
    let mut steps = 0;
    'outer: {
        for x in &cx.a {
            loop {
                match s.as_mut().poll_ready(&mut tcx) {
                    Poll::Ready(Ok(())) => break,
                    Poll::Ready(Err(e)) => match e {},
                    Poll::Pending => pend += 1,
                }
                steps += 1;
                if steps > STEP_CAP {
                    cx.env.fault("no-termination", "Sink::poll_ready never ready");
                    break 'outer;
                }
            }
            let _ = s.as_mut().start_send(*x);
        }
        loop {
            match s.as_mut().poll_close(&mut tcx) {
                Poll::Ready(_) => break,
                Poll::Pending => pend += 1,
            }
            steps += 1;
            if steps > STEP_CAP {
                cx.env.fault("no-termination", "Sink::poll_close never ready");
                break;
            }
        }
    }
    expect_down(cx, &d, &cx.a, Order::Seq);
    out1(String::new(), pend, &d)
}

/// `state_push` with the `Max<u8>` lattice: an item is forwarded iff it strictly raises the
/// running maximum; the lattice value is sent to the state downstream when the epoch is finalized.
fn p_state_push(cx: &Cx) -> CaseOut {
    use lattices::Max;
    let (d0, d1) = (down::<u8>(0), down::<u8>(1));
    let mut lat = Max::new(0u8);
    let mut run = 0u8;
    let mut want0 = vec![];
    for x in &cx.a {
        if *x > run {
            run = *x;
            want0.push(*x);
        }
    }
    let pend = {
        let p = push::state_push(
            CheckPush::new(&cx.env, &d0),
            push::map(|m: Max<u8>| m.into_reveal(), CheckPush::new(&cx.env, &d1)),
            Max::new,
            &mut lat,
        );
        drive_push(&cx.env, pin!(p), cx.a.clone(), drv_hint(cx))
    };
    expect_down(cx, &d0, &want0, Order::Seq);
    expect_down(cx, &d1, &[run], Order::Seq);
    out2(String::new(), pend, &d0, &d1)
}

fn p_terminal(cx: &Cx) -> CaseOut {
    // vec_push and for_each cannot pend; the schedule space is trivial, the inputs are not.
    let mut buf: Vec<u8> = vec![];
    {
        let p = push::vec_push(&mut buf);
        drive_push(&cx.env, pin!(p), cx.a.clone(), drv_hint(cx));
    }
    if buf != cx.a {
        cx.env.fault("items@vec_push", format!("expected {:?}, vec is {buf:?}", cx.a));
    }
    let log = Rc::new(RefCell::new(Vec::<u8>::new()));
    let l = log.clone();
    {
        let p = push::for_each(move |x: u8| l.borrow_mut().push(x));
        drive_push(&cx.env, pin!(p), cx.a.clone(), drv_hint(cx));
    }
    if *log.borrow() != cx.a {
        cx.env.fault("items@for_each", format!("expected {:?}, closure saw {:?}", cx.a, log.borrow()));
    }
    // Behind a pending-capable stage so that the section has a schedule space too.
    let d = down::<u8>(0);
    let mut buf2: Vec<u8> = vec![];
    let pend = {
        let p = push::fanout(CheckPush::new(&cx.env, &d), push::vec_push(&mut buf2));
        drive_push(&cx.env, pin!(p), cx.a.clone(), drv_hint(cx))
    };
    expect_down(cx, &d, &cx.a, Order::Seq);
    if buf2 != cx.a {
        cx.env.fault("items@vec_push", format!("behind fanout: expected {:?}, vec is {buf2:?}", cx.a));
    }
    CaseOut { params: String::new(), observed: hash_of(&(&buf, &buf2, pend)), diff: None }
}

/// `SendPush` joining a scripted pull to a scripted checking push (pendings on both sides).
fn p_send_push(cx: &Cx) -> CaseOut {
    let d = down::<u8>(0);
    let fut = cx.script_exact::<false, _>(0, cx.a.clone()).send_push(CheckPush::new(&cx.env, &d));
    let (done, pend) = drive_future(&cx.env, pin!(fut));
    if done.is_none() {
        cx.env.fault("no-termination", "SendPush never completed");
    }
    expect_down(cx, &d, &cx.a, Order::Seq);
    out1(String::new(), pend, &d)
}

// ---- compositions (thorough) -------------------------------------------------------------------

fn p2_flat_map_fanout(cx: &Cx) -> CaseOut {
    let (d0, d1) = (down::<u8>(0), down::<u8>(1));
    let p = push::flat_map(inner, push::fanout(CheckPush::new(&cx.env, &d0), CheckPush::new(&cx.env, &d1)));
    let pend = drive_push(&cx.env, pin!(p), cx.a.clone(), drv_hint(cx));
    let want: Vec<u8> = cx.a.iter().copied().flat_map(inner).collect();
    expect_down(cx, &d0, &want, Order::Seq);
    expect_down(cx, &d1, &want, Order::Seq);
    out2(String::new(), pend, &d0, &d1)
}

fn p2_persist_flat_map(cx: &Cx) -> CaseOut {
    let d = down::<u8>(0);
    let mut buf: Vec<u8> = vec![2, 1];
    let pend = {
        let p = push::persist_state(&mut buf, true, push::flat_map(inner, CheckPush::new(&cx.env, &d)));
        drive_push(&cx.env, pin!(p), cx.a.clone(), drv_hint(cx))
    };
    let want: Vec<u8> = [2u8, 1].into_iter().chain(cx.a.iter().copied()).flat_map(inner).collect();
    expect_down(cx, &d, &want, Order::Seq);
    out1(String::new(), pend, &d)
}

fn p2_sort_unzip(cx: &Cx) -> CaseOut {
    let (d0, d1) = (down::<u8>(0), down::<u8>(1));
    let p = push::sort(push::map(
        |x: u8| (x, x + 10),
        push::unzip(CheckPush::new(&cx.env, &d0), CheckPush::new(&cx.env, &d1)),
    ));
    let pend = drive_push(&cx.env, pin!(p), cx.a.clone(), drv_hint(cx));
    let mut w0 = cx.a.clone();
    w0.sort();
    let w1: Vec<u8> = w0.iter().map(|x| x + 10).collect();
    expect_down(cx, &d0, &w0, Order::Seq);
    expect_down(cx, &d1, &w1, Order::Seq);
    out2(String::new(), pend, &d0, &d1)
}

#[allow(dead_code)]
fn _assert_traits(_: Pin<&mut dyn Stream<Item = u8>>, _: Pin<&mut dyn Sink<u8, Error = ()>>) {}

pub static SECTIONS: &[Section] = &[
    sec("map", p_map),
    sec("filter", p_filter),
    sec("filter_map", p_filter_map),
    sec("flat_map", p_flat_map),
    sec("flatten", p_flatten),
    sec("inspect", p_inspect),
    sec("fanout", p_fanout),
    sec("unzip", p_unzip),
    sec("demux_var", p_demux_var),
    sec("fold", p_fold),
    sec("reduce", p_reduce),
    sec("sort", p_sort),
    sec("fold_keyed", p_fold_keyed),
    sec("reduce_keyed", p_reduce_keyed),
    sec("persist", p_persist),
    sec("resolve_futures", p_resolve_futures),
    sec("filter_map_async", p_filter_map_async),
    sec("flat_map_stream", p_flat_map_stream),
    sec("flatten_stream", p_flatten_stream),
    sec("sink", p_sink),
    sec("sink_compat", p_sink_compat),
    sec("state_push", p_state_push),
    sec("vec_push+for_each", p_terminal),
    sec("send_push", p_send_push),
    sec_thorough("flat_map(fanout)", p2_flat_map_fanout),
    sec_thorough("persist(flat_map)", p2_persist_flat_map),
    sec_thorough("sort(map(unzip))", p2_sort_unzip),
];
