//! C11 — pull combinators match iterator semantics under any pending schedule.
use std::cell::RefCell;
use std::collections::{BTreeMap, HashMap};
use std::fmt::Debug;
use std::hash::Hash;
use std::pin::{Pin, pin};
use std::rc::Rc;
use std::task::Waker;

use dfir_pipes::itertools::Itertools;
use dfir_pipes::pull::{self, FusedPull, Pull, PullStep};
use vf_explore::hash_of;

use crate::common::{CaseOut, Cx, Section, sec, sec_thorough};
use crate::env::{CheckPush, PullObs, ScriptFut, ScriptSink, ScriptStream, down, drive_future, drive_pull, drive_stream};

/// Inner sequence produced for an outer item by the flat_map/flatten families:
/// empty, singleton and two-element inner sequences all occur.
pub fn inner(x: u8) -> Vec<u8> {
    match x {
        0 => vec![],
        1 => vec![10],
        _ => vec![20, 21],
    }
}
pub fn keep(mask: usize, x: u8) -> bool {
    mask >> x & 1 == 1
}

fn judge<I: PartialEq + Debug + Hash>(cx: &Cx, obs: &PullObs<I>, want: &[I], params: String) -> CaseOut {
    if obs.items != want {
        cx.env.fault("items", format!("expected {want:?}, delivered {:?}", obs.items));
    }
    CaseOut { params, observed: hash_of(&(&obs.items, obs.pendings)), diff: None }
}

/// Drive until the first `Ended` (no claim about later pulls).
fn finish<P: Pull>(cx: &Cx, p: Pin<&mut P>, want: &[P::Item], params: String) -> CaseOut
where
    P::Item: PartialEq + Debug + Hash,
{
    let obs = drive_pull(&cx.env, p, want.len(), 0);
    judge(cx, &obs, want, params)
}

/// For types that claim `FusedPull`: three more pulls after the first `Ended` must be `Ended`.
fn finish_fused<P: FusedPull>(cx: &Cx, p: Pin<&mut P>, want: &[P::Item], params: String) -> CaseOut
where
    P::Item: PartialEq + Debug + Hash,
{
    let obs = drive_pull(&cx.env, p, want.len(), 3);
    judge(cx, &obs, want, params)
}

/// Unary combinator that is `FusedPull` iff its upstream is: run it over a non-fused upstream
/// (which panics when re-polled after `Ended`; driver stops at the first `Ended`) and over a
/// fused upstream (driver demands `Ended` three more times).
macro_rules! unary {
    ($cx:ident, $items:expr, $want:expr, $params:expr, |$s:ident| $build:expr) => {{
        let want = $want;
        let params: String = $params;
        if $cx.env.free(2) == 0 {
            let $s = $cx.script::<false, _>(0, $items);
            let p = $build;
            finish($cx, pin!(p), &want, format!("{params} upstream=nonfused"))
        } else {
            let $s = $cx.script::<true, _>(0, $items);
            let p = $build;
            finish_fused($cx, pin!(p), &want, format!("{params} upstream=fused"))
        }
    }};
}

fn a_items(cx: &Cx) -> Vec<u8> {
    cx.a.clone()
}

fn c_map(cx: &Cx) -> CaseOut {
    let want: Vec<u8> = cx.a.iter().map(|x| x + 10).collect();
    unary!(cx, a_items(cx), want, String::new(), |s| s.map(|x| x + 10))
}

fn c_filter(cx: &Cx) -> CaseOut {
    let mask = cx.env.free(8);
    let want: Vec<u8> = cx.a.iter().copied().filter(|x| keep(mask, *x)).collect();
    unary!(cx, a_items(cx), want, format!("mask={mask:03b}"), |s| s.filter(move |x| keep(mask, *x)))
}

fn c_filter_map(cx: &Cx) -> CaseOut {
    let mask = cx.env.free(8);
    let want: Vec<u8> = cx.a.iter().copied().filter_map(|x| keep(mask, x).then_some(x + 20)).collect();
    unary!(cx, a_items(cx), want, format!("mask={mask:03b}"), |s| s
        .filter_map(move |x| keep(mask, x).then_some(x + 20)))
}

fn c_flat_map(cx: &Cx) -> CaseOut {
    let want: Vec<u8> = cx.a.iter().copied().flat_map(inner).collect();
    unary!(cx, a_items(cx), want, String::new(), |s| s.flat_map(inner))
}

fn c_flatten(cx: &Cx) -> CaseOut {
    let want: Vec<u8> = cx.a.iter().copied().map(inner).flatten().collect();
    unary!(cx, cx.a.iter().copied().map(inner).collect::<Vec<_>>(), want, String::new(), |s| s.flatten())
}

fn c_flat_map_stream(cx: &Cx) -> CaseOut {
    let want: Vec<u8> = cx.a.iter().copied().flat_map(inner).collect();
    let env = cx.env.clone();
    unary!(cx, a_items(cx), want, String::new(), |s| s
        .flat_map_stream(move |x| ScriptStream::<u8, false>::new(&env, 8, inner(x))))
}

fn c_flatten_stream(cx: &Cx) -> CaseOut {
    let want: Vec<u8> = cx.a.iter().copied().flat_map(inner).collect();
    let streams = |cx: &Cx| cx.a.iter().map(|x| ScriptStream::<u8, false>::new(&cx.env, 8, inner(*x))).collect::<Vec<_>>();
    unary!(cx, streams(cx), want, String::new(), |s| s.flatten_stream())
}

fn c_enumerate(cx: &Cx) -> CaseOut {
    let want: Vec<(usize, u8)> = cx.a.iter().copied().enumerate().collect();
    unary!(cx, a_items(cx), want, String::new(), |s| s.enumerate())
}

fn c_skip(cx: &Cx) -> CaseOut {
    let n = cx.env.free(cx.a.len() + 2);
    let want: Vec<u8> = cx.a.iter().copied().skip(n).collect();
    unary!(cx, a_items(cx), want, format!("n={n}"), |s| s.skip(n))
}

fn c_skip_while(cx: &Cx) -> CaseOut {
    let mask = cx.env.free(8);
    let want: Vec<u8> = cx.a.iter().copied().skip_while(|x| keep(mask, *x)).collect();
    unary!(cx, a_items(cx), want, format!("mask={mask:03b}"), |s| s.skip_while(move |x| keep(mask, *x)))
}

/// `Take` claims `FusedPull` for *any* upstream: the non-fused (panicking) upstream is driven
/// with the three extra pulls as well.
fn c_take(cx: &Cx) -> CaseOut {
    let n = cx.env.free(cx.a.len() + 2);
    let want: Vec<u8> = cx.a.iter().copied().take(n).collect();
    if cx.env.free(2) == 0 {
        let p = cx.script::<false, _>(0, a_items(cx)).take(n);
        finish_fused(cx, pin!(p), &want, format!("n={n} upstream=nonfused"))
    } else {
        let p = cx.script::<true, _>(0, a_items(cx)).take(n);
        finish_fused(cx, pin!(p), &want, format!("n={n} upstream=fused"))
    }
}

/// `TakeWhile` makes no fusedness claim.
fn c_take_while(cx: &Cx) -> CaseOut {
    let mask = cx.env.free(8);
    let want: Vec<u8> = cx.a.iter().copied().take_while(|x| keep(mask, *x)).collect();
    let p = cx.script::<false, _>(0, a_items(cx)).take_while(move |x| keep(mask, *x));
    finish(cx, pin!(p), &want, format!("mask={mask:03b} upstream=nonfused"))
}

fn c_inspect(cx: &Cx) -> CaseOut {
    let want = a_items(cx);
    let log = Rc::new(RefCell::new(Vec::<u8>::new()));
    let l2 = log.clone();
    let out = unary!(cx, a_items(cx), want, String::new(), |s| {
        let l = l2.clone();
        s.inspect(move |x| l.borrow_mut().push(*x))
    });
    if *log.borrow() != cx.a {
        cx.env.fault("inspect-log", format!("closure saw {:?}, input was {:?}", log.borrow(), cx.a));
    }
    out
}

/// `Fuse` shields any upstream: non-fused (panicking) upstream + three extra pulls.
fn c_fuse(cx: &Cx) -> CaseOut {
    let want = a_items(cx);
    if cx.env.free(2) == 0 {
        let p = cx.script::<false, _>(0, a_items(cx)).fuse();
        finish_fused(cx, pin!(p), &want, "upstream=nonfused".into())
    } else {
        let p = cx.script::<true, _>(0, a_items(cx)).fuse();
        finish_fused(cx, pin!(p), &want, "upstream=fused".into())
    }
}

fn c_filter_map_async(cx: &Cx) -> CaseOut {
    let mask = cx.env.free(8);
    let want: Vec<u8> = cx.a.iter().copied().filter_map(|x| keep(mask, x).then_some(x + 20)).collect();
    let env = cx.env.clone();
    unary!(cx, a_items(cx), want, format!("mask={mask:03b}"), |s| s
        .filter_map_async(move |x| ScriptFut::new(&env, keep(mask, x).then_some(x + 20))))
}

fn future_out<T: Hash>(params: &str, val: &T, pendings: u32) -> CaseOut {
    CaseOut { params: params.to_string(), observed: hash_of(&(val, pendings)), diff: None }
}

fn c_collect(cx: &Cx) -> CaseOut {
    let fut = cx.script::<false, _>(0, a_items(cx)).collect::<Vec<u8>>();
    let (got, pend) = drive_future(&cx.env, pin!(fut));
    if got.as_ref() != Some(&cx.a) {
        cx.env.fault("items", format!("expected {:?}, collected {got:?}", cx.a));
    }
    future_out("", &got, pend)
}

fn c_for_each(cx: &Cx) -> CaseOut {
    let log = Rc::new(RefCell::new(Vec::<u8>::new()));
    let l = log.clone();
    let fut = cx.script::<false, _>(0, a_items(cx)).for_each(move |x| l.borrow_mut().push(x));
    let (done, pend) = drive_future(&cx.env, pin!(fut));
    let got = log.borrow().clone();
    if done.is_none() || got != cx.a {
        cx.env.fault("items", format!("expected {:?}, closure saw {got:?}", cx.a));
    }
    future_out("", &got, pend)
}

/// Repeated `next()` futures on `&mut pull` deliver the items one by one, then `None`.
fn c_next(cx: &Cx) -> CaseOut {
    let mut s = cx.script::<true, _>(0, a_items(cx));
    let mut got = vec![];
    let mut pend = 0;
    let mut nones = 0;
    for _ in 0..cx.a.len() + 2 {
        let fut = Pull::next(&mut s);
        let (r, p) = drive_future(&cx.env, pin!(fut));
        pend += p;
        match r {
            Some(Some((x, ()))) => {
                if nones > 0 {
                    cx.env.fault("not-fused", "next() yielded an item after None");
                }
                got.push(x)
            }
            Some(None) => nones += 1,
            None => break,
        }
    }
    if got != cx.a || nones != 2 {
        cx.env.fault("items", format!("expected {:?} then None twice, got {got:?} and {nones} None", cx.a));
    }
    future_out("", &got, pend)
}

fn c_stream(cx: &Cx) -> CaseOut {
    let want = a_items(cx);
    if cx.env.free(2) == 0 {
        let p = pull::stream(ScriptStream::<u8, false>::new(&cx.env, 0, a_items(cx)));
        finish(cx, pin!(p), &want, "stream=nonfused".into())
    } else {
        let p = pull::stream(ScriptStream::<u8, true>::new(&cx.env, 0, a_items(cx)));
        finish_fused(cx, pin!(p), &want, "stream=fused".into())
    }
}

fn c_stream_compat(cx: &Cx) -> CaseOut {
    let want = a_items(cx);
    let s = pull::stream_compat(cx.script::<false, _>(0, a_items(cx)));
    let obs = drive_stream(&cx.env, pin!(s), want.len());
    judge(cx, &obs, &want, String::new())
}

/// `stream_ready` is documented as non-blocking: a `Pending` from the stream is reported as
/// `Ended` for now. Oracle (no more than that): pulling again after such an `Ended` continues the
/// sequence; the concatenation equals the stream's items; an `Ended` is reported only when the
/// stream pended or ended in that call; the size hint brackets what is still to come.
fn c_stream_ready(cx: &Cx) -> CaseOut {
    let p = pull::stream_ready(ScriptStream::<u8, false>::new(&cx.env, 0, a_items(cx)), Waker::noop().clone());
    let mut p = pin!(p);
    let mut got = vec![];
    let mut early_ends = 0u32;
    for _ in 0..crate::env::STEP_CAP {
        let h = p.size_hint();
        let rem = cx.a.len().saturating_sub(got.len());
        if h.0 > rem || h.1.is_some_and(|u| u < rem) {
            cx.env.fault("size_hint", format!("size_hint {h:?} but {rem} item(s) remain"));
        }
        cx.env.pended.set(false);
        match p.as_mut().pull(&mut ()) {
            PullStep::Ready(x, ()) => got.push(x),
            PullStep::Ended(_) => {
                if cx.env.source_ended(0) {
                    break;
                }
                if !cx.env.pended.get() {
                    cx.env.fault("spurious-end", "Ended although the stream neither pended nor ended");
                }
                early_ends += 1;
            }
            PullStep::Pending(_) => unreachable!(),
        }
    }
    if got != cx.a {
        cx.env.fault("items", format!("expected {:?}, delivered {got:?}", cx.a));
    }
    future_out("", &got, early_ends)
}

fn kv(x: u8) -> (u8, u8) {
    (x % 2, x)
}
fn step(acc: &mut u32, x: u8) {
    *acc = *acc * 10 + x as u32 + 1;
}

fn c_accumulate_all(cx: &Cx) -> CaseOut {
    let which = cx.env.free(3);
    let mut map: HashMap<u8, u32> = HashMap::new();
    let mut want: BTreeMap<u8, u32> = BTreeMap::new();
    let prev = cx.script::<false, _>(0, cx.a.iter().copied().map(kv));
    let (done, pend) = match which {
        0 => {
            for (k, v) in cx.a.iter().copied().map(kv) {
                step(want.entry(k).or_insert(3), v);
            }
            let mut acc = pull::Fold::new(|| 3u32, step);
            let fut = pull::accumulate_all(&mut acc, &mut map, prev);
            drive_future(&cx.env, pin!(fut))
        }
        1 => {
            for (k, v) in cx.a.iter().copied().map(kv) {
                match want.entry(k) {
                    std::collections::btree_map::Entry::Vacant(e) => {
                        e.insert(v as u32);
                    }
                    std::collections::btree_map::Entry::Occupied(mut e) => step(e.get_mut(), v),
                }
            }
            let mut acc = pull::Reduce::new(|a: &mut u32, x: u32| step(a, x as u8));
            let prev = prev.map(|(k, v)| (k, v as u32));
            let fut = pull::accumulate_all(&mut acc, &mut map, prev);
            drive_future(&cx.env, pin!(fut))
        }
        _ => {
            for (k, v) in cx.a.iter().copied().map(kv) {
                match want.entry(k) {
                    std::collections::btree_map::Entry::Vacant(e) => {
                        e.insert(100 + v as u32);
                    }
                    std::collections::btree_map::Entry::Occupied(mut e) => step(e.get_mut(), v),
                }
            }
            let mut acc = pull::FoldFrom::new(|x: u8| 100 + x as u32, step);
            let fut = pull::accumulate_all(&mut acc, &mut map, prev);
            drive_future(&cx.env, pin!(fut))
        }
    };
    let got: BTreeMap<u8, u32> = map.into_iter().collect();
    if done.is_none() || got != want {
        cx.env.fault("items", format!("expected table {want:?}, got {got:?}"));
    }
    future_out(["fold", "reduce", "fold_from"][which], &got, pend)
}

fn c_send_push(cx: &Cx) -> CaseOut {
    let d = down::<u8>(0);
    let fut = cx.script::<false, _>(0, a_items(cx)).send_push(CheckPush::new(&cx.env, &d));
    let (done, pend) = drive_future(&cx.env, pin!(fut));
    let d = d.borrow();
    if done.is_none() || d.items != cx.a {
        cx.env.fault("items", format!("expected {:?}, pushed {:?}", cx.a, d.items));
    }
    if !d.finalized {
        cx.env.fault("not-finalized@d0", "SendPush completed without finalizing the push");
    }
    future_out("", &d.items, pend)
}

fn c_send_sink(cx: &Cx) -> CaseOut {
    let d = down::<u8>(0);
    let fut = cx.script::<false, _>(0, a_items(cx)).send_sink(ScriptSink::new(&cx.env, &d));
    let (done, pend) = drive_future(&cx.env, pin!(fut));
    let d = d.borrow();
    if done.is_none() || d.items != cx.a {
        cx.env.fault("items", format!("expected {:?}, sent {:?}", cx.a, d.items));
    }
    if !d.closed {
        cx.env.fault("not-finalized@d0", "SendSink completed without closing the sink");
    }
    future_out("", &d.items, pend)
}

// ---- binary ----------------------------------------------------------------------------------

fn c_chain(cx: &Cx) -> CaseOut {
    let b = cx.free_seq();
    let want: Vec<u8> = cx.a.iter().copied().chain(b.iter().copied()).collect();
    // `first` must be FusedPull (precondition of `chain`).
    if cx.env.free(2) == 0 {
        let p = cx.script::<true, _>(0, a_items(cx)).chain(cx.script::<false, _>(1, b.clone()));
        finish(cx, pin!(p), &want, format!("b={b:?} second=nonfused"))
    } else {
        let p = cx.script::<true, _>(0, a_items(cx)).chain(cx.script::<true, _>(1, b.clone()));
        finish_fused(cx, pin!(p), &want, format!("b={b:?} second=fused"))
    }
}

fn c_zip(cx: &Cx) -> CaseOut {
    let b = cx.free_seq();
    let want: Vec<(u8, u8)> = cx.a.iter().copied().zip(b.iter().copied()).collect();
    let p = cx.script::<false, _>(0, a_items(cx)).zip(cx.script::<false, _>(1, b.clone()));
    finish(cx, pin!(p), &want, format!("b={b:?}"))
}

fn c_zip_longest(cx: &Cx) -> CaseOut {
    let b = cx.free_seq();
    let want: Vec<_> = cx.a.iter().copied().zip_longest(b.iter().copied()).collect();
    let p = cx.script::<true, _>(0, a_items(cx)).zip_longest(cx.script::<true, _>(1, b.clone()));
    finish_fused(cx, pin!(p), &want, format!("b={b:?}"))
}

fn cross_ref(a: &[u8], single: Option<u8>) -> Vec<(u8, u8)> {
    match single {
        Some(s) => a.iter().map(|x| (*x, s)).collect(),
        None => vec![],
    }
}

fn c_cross_singleton(cx: &Cx) -> CaseOut {
    let b = cx.env.free_seq(2, 3);
    let want = cross_ref(&cx.a, b.first().copied());
    if cx.env.free(2) == 0 {
        let p = cx.script::<false, _>(0, a_items(cx)).cross_singleton(cx.script::<false, _>(1, b.clone()));
        finish(cx, pin!(p), &want, format!("single={b:?} inputs=nonfused"))
    } else {
        let p = cx.script::<true, _>(0, a_items(cx)).cross_singleton(cx.script::<true, _>(1, b.clone()));
        finish_fused(cx, pin!(p), &want, format!("single={b:?} inputs=fused"))
    }
}

fn c_cross_singleton_state(cx: &Cx) -> CaseOut {
    let b = cx.env.free_seq(2, 3);
    let mut state: Option<u8> = if cx.env.free(2) == 1 { Some(7) } else { None };
    let want = cross_ref(&cx.a, state.or(b.first().copied()));
    let params = format!("single={b:?} state={state:?}");
    let p = cx.script::<true, _>(0, a_items(cx)).cross_singleton_state(cx.script::<true, _>(1, b.clone()), &mut state);
    finish_fused(cx, pin!(p), &want, params)
}

// ---- two-level compositions (thorough) ---------------------------------------------------------

fn c2_zip_flat_map(cx: &Cx) -> CaseOut {
    let b = cx.free_seq();
    let want: Vec<(u8, u8)> = cx.a.iter().copied().flat_map(inner).zip(b.iter().copied()).collect();
    let p = cx.script::<false, _>(0, a_items(cx)).flat_map(inner).zip(cx.script::<false, _>(1, b.clone()));
    finish(cx, pin!(p), &want, format!("b={b:?}"))
}

fn c2_chain_take(cx: &Cx) -> CaseOut {
    let b = cx.free_seq();
    let n = cx.env.free(cx.a.len() + 2);
    let want: Vec<u8> = cx.a.iter().copied().take(n).chain(b.iter().copied()).collect();
    // Take is FusedPull over a non-fused upstream, so it may serve as `first`.
    let p = cx.script::<false, _>(0, a_items(cx)).take(n).chain(cx.script::<false, _>(1, b.clone()));
    finish(cx, pin!(p), &want, format!("b={b:?} n={n}"))
}

fn rep(x: u8, y: u8) -> Vec<u8> {
    vec![x; y as usize]
}

fn c2_flat_map_zip(cx: &Cx) -> CaseOut {
    let b = cx.free_seq();
    let want: Vec<u8> = cx.a.iter().copied().zip(b.iter().copied()).flat_map(|(x, y)| rep(x, y)).collect();
    let p = cx.script::<false, _>(0, a_items(cx)).zip(cx.script::<false, _>(1, b.clone())).flat_map(|(x, y)| rep(x, y));
    finish(cx, pin!(p), &want, format!("b={b:?}"))
}

fn c2_take_flat_map(cx: &Cx) -> CaseOut {
    let total: usize = cx.a.iter().map(|x| inner(*x).len()).sum();
    let n = cx.env.free(total + 2);
    let want: Vec<u8> = cx.a.iter().copied().flat_map(inner).take(n).collect();
    let p = cx.script::<false, _>(0, a_items(cx)).flat_map(inner).take(n);
    finish_fused(cx, pin!(p), &want, format!("n={n}"))
}

fn c2_zip_longest_fuse_skip(cx: &Cx) -> CaseOut {
    let b = cx.free_seq();
    let want: Vec<_> = cx.a.iter().copied().zip_longest(b.iter().copied().skip(1)).collect();
    let p = cx.script::<false, _>(0, a_items(cx)).fuse().zip_longest(cx.script::<true, _>(1, b.clone()).skip(1));
    finish_fused(cx, pin!(p), &want, format!("b={b:?}"))
}

fn c2_filter_chain(cx: &Cx) -> CaseOut {
    let b = cx.free_seq();
    let mask = cx.env.free(8);
    let want: Vec<u8> = cx.a.iter().copied().chain(b.iter().copied()).filter(|x| keep(mask, *x)).collect();
    let p = cx.script::<true, _>(0, a_items(cx)).chain(cx.script::<true, _>(1, b.clone())).filter(move |x| keep(mask, *x));
    finish_fused(cx, pin!(p), &want, format!("b={b:?} mask={mask:03b}"))
}

fn c2_flat_map_stream_chain(cx: &Cx) -> CaseOut {
    let b = cx.free_seq();
    let want: Vec<u8> = cx.a.iter().copied().chain(b.iter().copied()).flat_map(inner).collect();
    let env = cx.env.clone();
    let p = cx
        .script::<true, _>(0, a_items(cx))
        .chain(cx.script::<false, _>(1, b.clone()))
        .flat_map_stream(move |x| ScriptStream::<u8, false>::new(&env, 8, inner(x)));
    finish(cx, pin!(p), &want, format!("b={b:?}"))
}

fn c2_take_while_chain(cx: &Cx) -> CaseOut {
    let b = cx.free_seq();
    let mask = cx.env.free(8);
    let want: Vec<u8> = cx.a.iter().copied().chain(b.iter().copied()).take_while(|x| keep(mask, *x)).collect();
    let p = cx.script::<true, _>(0, a_items(cx)).chain(cx.script::<false, _>(1, b.clone())).take_while(move |x| keep(mask, *x));
    finish(cx, pin!(p), &want, format!("b={b:?} mask={mask:03b}"))
}

fn c2_enumerate_skip_while_zip(cx: &Cx) -> CaseOut {
    let b = cx.free_seq();
    let mask = cx.env.free(8);
    let want: Vec<(usize, (u8, u8))> =
        cx.a.iter().copied().zip(b.iter().copied()).skip_while(|(x, _)| keep(mask, *x)).enumerate().collect();
    let p = cx
        .script::<false, _>(0, a_items(cx))
        .zip(cx.script::<false, _>(1, b.clone()))
        .skip_while(move |(x, _)| keep(mask, *x))
        .enumerate();
    finish(cx, pin!(p), &want, format!("b={b:?} mask={mask:03b}"))
}

pub static SECTIONS: &[Section] = &[
    sec("map", c_map),
    sec("filter", c_filter),
    sec("filter_map", c_filter_map),
    sec("flat_map", c_flat_map),
    sec("flatten", c_flatten),
    sec("flat_map_stream", c_flat_map_stream),
    sec("flatten_stream", c_flatten_stream),
    sec("enumerate", c_enumerate),
    sec("skip", c_skip),
    sec("skip_while", c_skip_while),
    sec("take", c_take),
    sec("take_while", c_take_while),
    sec("inspect", c_inspect),
    sec("fuse", c_fuse),
    sec("filter_map_async", c_filter_map_async),
    sec("collect", c_collect),
    sec("for_each", c_for_each),
    sec("next", c_next),
    sec("stream", c_stream),
    sec("stream_compat", c_stream_compat),
    sec("stream_ready", c_stream_ready),
    sec("accumulate_all", c_accumulate_all),
    sec("send_push", c_send_push),
    sec("send_sink", c_send_sink),
    sec("chain", c_chain),
    sec("zip", c_zip),
    sec("zip_longest", c_zip_longest),
    sec("cross_singleton", c_cross_singleton),
    sec("cross_singleton_state", c_cross_singleton_state),
    sec_thorough("zip(flat_map,_)", c2_zip_flat_map),
    sec_thorough("chain(take,_)", c2_chain_take),
    sec_thorough("flat_map(zip)", c2_flat_map_zip),
    sec_thorough("take(flat_map)", c2_take_flat_map),
    sec_thorough("zip_longest(fuse,skip)", c2_zip_longest_fuse_skip),
    sec_thorough("filter(chain)", c2_filter_chain),
    sec_thorough("flat_map_stream(chain)", c2_flat_map_stream_chain),
    sec_thorough("take_while(chain)", c2_take_while_chain),
    sec_thorough("enumerate(skip_while(zip))", c2_enumerate_skip_while_zip),
];
